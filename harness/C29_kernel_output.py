"""C29: transformed-kernel output never clobbers (E2, pysx with an environment stub).
Real code: the AST of CodedKern.rename_and_write is read from /repo at run time and executed by
the pysx interpreter.  Other PSyclone runs sharing the kernel output directory are the
ENVIRONMENT (assume/guarantee instead of enumerating interleavings): every question this run
asks the file system (does the name exist? how big is the file? what does it contain?) is
answered by a fresh solver variable, constrained only by what no other run can undo (a file that
exists keeps existing; a name this run created exclusively is its own).  The open flags are read
from the AST, so dropping O_EXCL or re-opening an existing file changes the encoding.
z3 decides, for all environment behaviours within R naming attempts:
 'multiple': every os.write goes through a descriptor obtained from a successful
             O_CREAT|O_EXCL open by this run; the suffix given to _rename_psyir is that of the file
             created; the naming loop terminates if one of the first R names is free; no exception;
 'single'  : if name 0 exists nothing is created or written, the run raises iff the content it
             read differs, and it succeeds whenever the other run's FINAL content equals its own.
Witnesses are replayed on the real method with os.open/os.write/os.path/open wrapped so that the
file system gives exactly the witness answers."""
import ast
import os
import time

import z3

from vlib.common import core
from vlib.pysx.core import Choice, PyUnsupported, alts_of, TRUE, FALSE, tobool
from vlib.pysx.strings import StrExec
from vlib.fsym.terms import AND, OR, NOT, ITE

PROP = "C29"


class NameTerm:
    """a string that embeds integer terms (file name / suffix): identity = the embedded index"""

    def __init__(self, parts):
        self.parts = list(parts)

    def truth(self):
        return TRUE

    def index(self):
        t = [p for p in self.parts if z3.is_expr(p)]
        if len(t) != 1:
            raise PyUnsupported("file name without a unique index")
        return t[0]


class PyObj:
    def __init__(self, kind, **attrs):
        self.kind = kind
        self.attrs = attrs


class Env:
    """the file system as seen by one run; every answer is a fresh variable"""

    def __init__(self):
        self.n = 0
        self.queries = []       # (time, kind, idx term, answer term, guard)
        self.opens = []         # (guard, idx, fd, flags, success, existed)
        self.writes = []        # (guard, fd)
        self.reads = []         # (guard, idx, same term)
        self.renames = []       # (guard, idx)
        self.constraints = []

    def fresh(self, name, sort=z3.BoolSort()):
        self.n += 1
        return z3.Const(f"env_{name}_{self.n}", sort)

    def exists(self, idx, g):
        e = self.fresh("exists")
        # monotonic: a file seen earlier still exists; a file this run created exists
        for _, kind, i2, a2, _ in self.queries:
            if kind == "exists":
                self.constraints.append(z3.Implies(z3.And(i2 == idx, a2), e))
        for og, oi, _, _, osucc, _ in self.opens:
            self.constraints.append(z3.Implies(z3.And(og, osucc, oi == idx), e))
        self.queries.append((self.n, "exists", idx, e, g))
        return e


class KernExec(StrExec):
    def __init__(self, fn, env, **kw):
        super().__init__(fn, **kw)
        self.fs = env

    def stmt(self, s, g):
        if isinstance(s, (ast.Import, ast.ImportFrom)):
            return
        if isinstance(s, ast.With):
            if len(s.items) != 1:
                raise PyUnsupported("with: several items")
            v = self.ev(s.items[0].context_expr, g)
            if s.items[0].optional_vars is not None:
                self.assign(s.items[0].optional_vars, v, g)
            return self.block(s.body, g)
        if isinstance(s, ast.AugAssign) and isinstance(s.op, ast.Add):
            cur = self.ev(s.target, g)
            val = self.ev(s.value, g)
            if isinstance(cur, (str, NameTerm)) and isinstance(val, (str, NameTerm)):
                return self.assign(s.target, self.binop(s.op, cur, val), g)
        return super().stmt(s, g)

    def assign(self, target, val, g):
        if isinstance(target, ast.Attribute) and isinstance(target.value, ast.Name) and target.value.id == "self":
            from vlib.pysx.core import merge, UNDEF
            self.self_attrs[target.attr] = merge(g, val, self.self_attrs.get(target.attr, UNDEF))
            return
        if isinstance(target, ast.Name) and isinstance(val, NameTerm):
            old = self.env.get(target.id)
            if isinstance(old, NameTerm) and not z3.is_true(z3.simplify(g)) and len(old.parts) == len(val.parts):
                self.env[target.id] = NameTerm([ITE(g, n, o) if z3.is_expr(n) else n
                                                for n, o in zip(val.parts, old.parts)])
            else:
                self.env[target.id] = val
            return
        return super().assign(target, val, g)

    def ev(self, e, g):
        if isinstance(e, ast.JoinedStr):
            parts = []
            for v in e.values:
                if isinstance(v, ast.Constant):
                    parts.append(v.value)
                else:
                    x = self.ev(v.value, g)
                    x = z3.IntVal(x) if isinstance(x, int) else x
                    parts.append(x if z3.is_expr(x) else str(x))
            if any(z3.is_expr(p) for p in parts):
                return NameTerm(parts)
            return "".join(parts)
        if isinstance(e, ast.Attribute):
            if isinstance(e.value, ast.Name) and e.value.id == "self":
                if e.attr in self.self_attrs:
                    return self.self_attrs[e.attr]
                return ("selfmethod", e.attr)
            base = self.ev(e.value, g)
            if isinstance(base, PyObj):
                if e.attr in base.attrs:
                    return base.attrs[e.attr]
                return ("objmethod", base, e.attr)
            if isinstance(base, tuple) and base and base[0] == "module" and base[1] == "os" and e.attr.startswith("O_"):
                return frozenset([e.attr])
            return ("attr", base, e.attr)
        return super().ev(e, g)

    def binop(self, op, a, b):
        if isinstance(op, ast.BitOr) and isinstance(a, frozenset) and isinstance(b, frozenset):
            return a | b
        if isinstance(op, ast.Add) and (isinstance(a, NameTerm) or isinstance(b, NameTerm)):
            pa = a.parts if isinstance(a, NameTerm) else [a]
            pb = b.parts if isinstance(b, NameTerm) else [b]
            return NameTerm(pa + pb)
        return super().binop(op, a, b)

    def call_expr(self, e, g):
        f = e.func
        if isinstance(f, ast.Attribute):
            # self.<stubbed method>(...)
            if isinstance(f.value, ast.Name) and f.value.id == "self" and ("self", f.attr) in self.builtins:
                args = [self.ev(a, g) for a in e.args]
                return self.builtins[("self", f.attr)](self, args, {}, g)
            base = self.ev(f.value, g)
            args = [self.ev(a, g) for a in e.args]
            kw = {k.arg: self.ev(k.value, g) for k in e.keywords}
            if isinstance(base, tuple) and base[:1] == ("attr",) and base[1] == ("module", "os") and base[2] == "path":
                stub = self.builtins.get(("os.path", f.attr))
                if stub is None:
                    raise PyUnsupported("os.path." + f.attr)
                return stub(self, args, kw, g)
            if isinstance(base, tuple) and base[:1] == ("module",):
                stub = self.builtins.get((base[1], f.attr))
                if stub is None:
                    raise PyUnsupported(f"{base[1]}.{f.attr}")
                return stub(self, args, kw, g)
            if isinstance(base, PyObj):
                stub = self.builtins.get((base.kind, f.attr))
                if stub is None:
                    raise PyUnsupported(f"{base.kind}.{f.attr}")
                return stub(self, [base] + args, kw, g)
            if isinstance(base, str):
                cont = [a for a in args if isinstance(a, PyObj) and a.kind == "content"]
                if cont and f.attr in ("startswith", "endswith", "__contains__", "find", "count"):
                    # a predicate relating this run's text to a file's content that is not equality: the most
                    # general answer - arbitrary, except that identical contents satisfy it
                    self.npred = getattr(self, "npred", 0) + 1
                    p = z3.Bool(f"pred_{f.attr}_{self.npred}")
                    self.assumptions.append(z3.Implies(cont[0].attrs["same"], p))
                    return p
                if cont:
                    raise PyUnsupported("str." + f.attr + " on file content")
                return getattr(base, f.attr)(*args)
            if isinstance(base, Choice) or base is None:
                raise PyUnsupported("method on optional value")
        return super().call_expr(e, g)

    def getitem(self, obj, key, g):
        if isinstance(obj, str) and isinstance(key, tuple) and key[0] == "slice":
            return obj[key[1]:key[2]]
        return super().getitem(obj, key, g)

    def compare(self, op, a, b):
        if isinstance(a, PyObj) and a.kind == "content" or isinstance(b, PyObj) and b.kind == "content":
            c = a if isinstance(a, PyObj) and a.kind == "content" else b
            same = c.attrs["same"]
            return same if isinstance(op, ast.Eq) else NOT(same)
        return super().compare(op, a, b)


def make_builtins(fs, naming):
    def fd_of(idx, excl):
        return 2 * (idx + 1) + (1 if excl else 0)

    def os_open(ex, args, kw, g):
        path, flags = args[0], args[1]
        if not isinstance(flags, frozenset):
            raise PyUnsupported("os.open flags")
        idx = path.index() if isinstance(path, NameTerm) else None
        if idx is None:
            raise PyUnsupported("os.open path")
        existed = fs.exists(idx, g)
        creat, excl = "O_CREAT" in flags, "O_EXCL" in flags
        if creat and excl:
            succ = NOT(existed)
            ex.raise_("FileExistsError", AND(g, existed))
        elif creat:
            succ = TRUE
        else:
            succ = existed
            ex.raise_("FileNotFoundError", AND(g, NOT(existed)))
        fd = fd_of(idx, creat and excl)
        fs.opens.append((g, idx, fd, flags, succ, existed))
        return fd

    def os_write(ex, args, kw, g):
        for c, v in alts_of(args[0]):
            if v is None:
                ex.raise_("TypeError", AND(g, c))
                continue
            fs.writes.append((AND(g, c), v))
        return 0

    def os_close(ex, args, kw, g):
        return None

    def path_join(ex, args, kw, g):
        return args[-1]

    def path_isfile(ex, args, kw, g):
        return fs.exists(args[0].index(), g)

    def path_getsize(ex, args, kw, g):
        v = fs.fresh("size", z3.IntSort())
        fs.constraints.append(v >= 0)
        return v

    def py_open(ex, args, kw, g):
        mode = args[1] if len(args) > 1 else kw.get("mode", "r")
        if not isinstance(mode, str):
            raise PyUnsupported("open() with a symbolic mode")
        alts = [(c, v) for c, v in alts_of(args[0]) if v is not None]
        if len(alts) != 1 or not isinstance(alts[0][1], NameTerm):
            raise PyUnsupported("open() path")
        g = AND(g, alts[0][0])
        idx = alts[0][1].index()
        existed = fs.exists(idx, g)
        if any(ch in mode for ch in "wax+"):
            # builtin open for writing: no exclusive create unless mode 'x'; 'w' truncates at once
            excl = "x" in mode
            flags = frozenset(["O_WRONLY", "O_CREAT"] + (["O_EXCL"] if excl else []) +
                              (["O_TRUNC"] if "w" in mode else []))
            if excl:
                ex.raise_("FileExistsError", AND(g, existed))
            succ = NOT(existed) if excl else TRUE
            fd = fd_of(idx, excl)
            fs.opens.append((g, idx, fd, flags, succ, existed))
            if "w" in mode:
                fs.writes.append((g, fd))      # truncation destroys what was there
            return PyObj("file", idx=idx, fd=fd)
        ex.raise_("FileNotFoundError", AND(g, NOT(existed)))
        return PyObj("file", idx=idx)

    def file_write(ex, args, kw, g):
        fd = args[0].attrs.get("fd")
        if fd is None:
            ex.raise_("UnsupportedOperation", g)
            return None
        fs.writes.append((g, fd))
        return 0

    def file_read(ex, args, kw, g):
        same = fs.fresh("read_same")
        fs.reads.append((g, args[0].attrs["idx"], same))
        return PyObj("content", same=same)

    def rename_psyir(ex, args, kw, g):
        s = args[0]
        fs.renames.append((g, s.index() if isinstance(s, NameTerm) else None))
        return None

    cfg = PyObj("config", kernel_output_dir="outdir", kernel_naming=naming, backend_checks_enabled=False)
    b = {("os", "open"): os_open, ("os", "write"): os_write, ("os", "close"): os_close,
         ("os.path", "join"): path_join, ("os.path", "isfile"): path_isfile, ("os.path", "exists"): path_isfile,
         ("os.path", "getsize"): path_getsize, ("file", "read"): file_read, ("file", "write"): file_write,
         ("self", "_rename_psyir"): rename_psyir,
         ("self", "get_kernel_schedule"): lambda ex, a, k, g: PyObj("sched", root="ROOT"),
         ("Config", "get"): lambda ex, a, k, g: cfg,
         ("fll", "process"): lambda ex, a, k, g: "CODE",
         "open": py_open,
         "FortranWriter": lambda ex, a, k, g: (lambda ex2, a2, k2, g2: "CODE"),
         "FortLineLength": lambda ex, a, k, g: PyObj("fll"),
         "GenerationError": lambda ex, a, k, g: "<exc>",
         "os": ("module", "os"), "Config": ("module", "Config")}
    return b


def init_constants():
    """attributes CodedKern.__init__ sets to a literal (read from the AST of the real constructor): the
    object state a fresh kernel starts from, for the encoding and for the replay object alike"""
    import inspect
    import textwrap
    from psyclone.psyGen import CodedKern
    out = {}
    tree = ast.parse(textwrap.dedent(inspect.getsource(CodedKern.__init__))).body[0]
    for st in ast.walk(tree):
        if isinstance(st, ast.Assign) and len(st.targets) == 1 and isinstance(st.value, ast.Constant):
            t = st.targets[0]
            if isinstance(t, ast.Attribute) and isinstance(t.value, ast.Name) and t.value.id == "self":
                out[t.attr] = st.value.value
    return out


class View:
    """the events of one generation (one call of rename_and_write) + the shared environment"""

    def __init__(self, fs, ex, lo, exc, unwind):
        self.opens, self.writes = fs.opens[lo[0]:], fs.writes[lo[1]:]
        self.reads, self.renames = fs.reads[lo[2]:], fs.renames[lo[3]:]
        self.exc = exc
        self.obligations = unwind
        self.queries, self.constraints = fs.queries, fs.constraints


def encode(naming, R, generations=1):
    """-> (executor, environment, [View per generation]).  Generation k+1 starts from the object state
    generation k left behind (every `self.x = ...` it executed, guarded), with `modified` set again (the
    kernel has been transformed further) and is only entered when generation k returned normally."""
    from psyclone.psyGen import CodedKern
    fs = Env()
    attrs = dict(init_constants())
    attrs.update({"modified": True, "module_inline": False, "module_name": "kern_mod",
                  "_module_name": "kern_mod", "name": "kern_code"})
    ex = KernExec(CodedKern.rename_and_write, fs, while_bound=R, self_attrs=attrs)
    ex.builtins = make_builtins(fs, naming)
    ex.skip_dead = True      # a later generation may never reach the naming loop: names bound there do not exist
    views = []
    g = TRUE
    for _ in range(generations):
        lo = (len(fs.opens), len(fs.writes), len(fs.reads), len(fs.renames))
        nob = len(ex.obligations)
        ex.env = {"self": "<self>"}
        ex.exc, ex.ret, ex.loops = {}, FALSE, []
        ex.self_attrs["modified"] = True
        ex.block(ex.fn_ast.body, g)
        views.append(View(fs, ex, lo, dict(ex.exc), list(ex.obligations[nob:])))
        g = AND(g, NOT(OR(*ex.exc.values()))) if ex.exc else g
    return ex, fs, views


def obligations(ex, fs, naming, R):
    obl = []
    excl_opens = [(g, fd, succ) for g, idx, fd, flags, succ, existed in fs.opens
                  if "O_CREAT" in flags and "O_EXCL" in flags]
    # every write goes through a descriptor this run obtained from a successful exclusive create
    bad = []
    for gw, fd in fs.writes:
        ok = OR(*[AND(g, succ, fd2 == fd) for g, fd2, succ in excl_opens])
        bad.append(AND(gw, NOT(ok)))
    obl.append(("write through a descriptor that is not from this run's exclusive create", OR(*bad)))
    # a non-exclusive open of an existing file for writing (claiming someone else's file)
    steal = [AND(g, succ, existed) for g, idx, fd, flags, succ, existed in fs.opens
             if not ("O_CREAT" in flags and "O_EXCL" in flags) and ("O_WRONLY" in flags or "O_RDWR" in flags)]
    obl.append(("existing file opened for writing", OR(*steal)))
    created = [(AND(g, succ), idx) for g, idx, fd, flags, succ, existed in fs.opens
               if "O_CREAT" in flags and "O_EXCL" in flags]
    normal = NOT(OR(*ex.exc.values())) if ex.exc else TRUE
    if naming == "multiple":
        # suffix used for renaming = index of the file created
        bad = []
        for gr, ridx in fs.renames:
            if ridx is None:
                bad.append(gr)
                continue
            bad.append(AND(gr, normal, NOT(OR(*[AND(gc, ci == ridx) for gc, ci in created]))))
        obl.append(("module renamed with a suffix that is not that of the file created", OR(*bad)))
        obl.append(("exception escapes (multiple)", OR(*ex.exc.values()) if ex.exc else FALSE))
        obl.append(("returns without writing the kernel", AND(normal, NOT(OR(*[g for g, _ in fs.writes])))))
    else:
        first_exists = fs.opens[0][5] if fs.opens else FALSE
        obl.append(("file created or written although the name already exists (single)",
                    AND(first_exists, OR(*([g for g, _ in fs.writes] + [gc for gc, _ in created])))))
        gen = ex.exc.get("GenerationError", FALSE)
        read_same = OR(*[AND(g, same) for g, idx, same in fs.reads])
        any_read = OR(*[g for g, idx, same in fs.reads])
        obl.append(("existing identical kernel rejected / differing kernel accepted (single)",
                    AND(first_exists, any_read, gen == read_same)))
        others = [c for n, c in ex.exc.items() if n != "GenerationError"]
        obl.append(("unexpected exception (single)", OR(*others) if others else FALSE))
        # the other run's FINAL content equals ours  =>  this run must succeed; the read may have seen
        # a prefix only (the creator writes after creating): read_same is then arbitrary
        final_same = z3.Bool("env_final_same")
        complete = z3.Bool("env_read_complete")
        link = [z3.Implies(z3.And(complete, g), same == final_same) for g, idx, same in fs.reads]
        obl.append(("identical kernel of a concurrent run rejected (single, partial read)",
                    AND(first_exists, final_same, gen, *link)))
    return obl


# ---------------------------------------------------------------- replay on the real method
def replay(naming, R, model, fs, generation=0):
    """drive the real CodedKern.rename_and_write on a real temporary directory whose state, as seen
    through wrapped os/open functions, follows the witness answers in query order"""
    import builtins as _b
    import tempfile
    import shutil
    from unittest import mock
    from psyclone.psyGen import CodedKern
    answers = []
    for n, kind, idx, term, g in fs.queries:
        answers.append(bool(z3.is_true(model.eval(term, model_completion=True))))
    sizes = {}
    log = {"writes": [], "opens": [], "renames": [], "exc": None, "read_same": []}
    reads = [bool(z3.is_true(model.eval(s, model_completion=True))) for g, i, s in fs.reads]
    prefix_pred = any(str(d).startswith(("pred_startswith", "pred___contains__", "pred_find", "pred_count")) and
                      z3.is_true(model[d]) for d in model.decls())
    workdir = tempfile.mkdtemp(prefix="c29_")
    qi = {"n": 0, "r": 0}
    real_open, real_os_open = _b.open, os.open

    def next_exists(path):
        k = qi["n"]
        qi["n"] += 1
        ans = answers[k] if k < len(answers) else os.path.exists(path)
        # make the directory agree with the answer (another run created the file / nothing there)
        if ans and not os.path.exists(path):
            with real_open(path, "w") as fh:
                fh.write("")
        return ans

    def os_open(path, flags, *a, **k):
        existed = next_exists(path)
        try:
            fd = real_os_open(path, flags, *a, **k)
        except OSError:
            log["opens"].append((os.path.basename(path), flags, False, existed))
            raise
        log["opens"].append((os.path.basename(path), flags, True, existed))
        log.setdefault("fdmap", {})[fd] = (os.path.basename(path), bool(flags & os.O_EXCL and flags & os.O_CREAT),
                                           existed)
        return fd

    def os_write(fd, data):
        log["writes"].append(log.get("fdmap", {}).get(fd, ("?", False, None)))
        return len(data)

    def isfile(path):
        return next_exists(path)

    def getsize(path):
        return 0

    class FakeFile:
        def __init__(self, path):
            self.path = path

        def __enter__(self):
            return self

        def __exit__(self, *a):
            return False

        def read(self):
            k = qi["r"]
            qi["r"] += 1
            same = reads[k] if k < len(reads) else True
            log["read_same"].append(same)
            if not same and prefix_pred:
                return ""        # a file another run has created but not yet written: a prefix of every text
            return "CODE" if same else "OTHER"

    def py_open(path, mode="r", *a, **k):
        if str(path).startswith(workdir) and not any(ch in mode for ch in "wax+"):
            next_exists(path)
            return FakeFile(path)
        if str(path).startswith(workdir):
            existed = next_exists(path)
            excl = "x" in mode
            fl = os.O_WRONLY | os.O_CREAT | (os.O_EXCL if excl else 0) | (os.O_TRUNC if "w" in mode else 0)
            try:
                fh = real_open(path, mode, *a, **k)
            except OSError:
                log["opens"].append((os.path.basename(path), fl, False, existed))
                raise
            log["opens"].append((os.path.basename(path), fl, True, existed))
            log["writes"].append((os.path.basename(path), excl, existed))
            return fh
        return real_open(path, mode, *a, **k)

    class Cfg:
        kernel_output_dir = workdir
        kernel_naming = naming
        backend_checks_enabled = False

    class FakeKern:
        def __init__(self):
            for k_, v_ in init_constants().items():
                setattr(self, k_, v_)
            self.modified = True
            self.module_inline = False
            self.module_name = "kern_mod"
            self._module_name = "kern_mod"
            self.name = "kern_code"

        def _rename_psyir(self, suffix):
            log["renames"].append(suffix)

        def get_kernel_schedule(self):
            class S:
                root = None
            return S()
    try:
        with mock.patch("psyclone.psyGen.os.open", os_open), mock.patch("psyclone.psyGen.os.write", os_write), \
                mock.patch("psyclone.psyGen.os.close", lambda fd: None), \
                mock.patch("psyclone.psyGen.os.path.isfile", isfile), \
                mock.patch("psyclone.psyGen.os.path.getsize", getsize), \
                mock.patch("psyclone.psyGen.Config.get", lambda *a, **k: Cfg), \
                mock.patch("psyclone.psyGen.FortranWriter", lambda **k: (lambda root: "CODE")), \
                mock.patch("psyclone.line_length.FortLineLength.process", lambda self, c: c), \
                mock.patch("builtins.open", py_open):
            kern = FakeKern()
            for gen in range(generation + 1):
                # events of earlier generations are dropped: the obligations are stated per generation
                for k_ in ("writes", "opens", "renames", "read_same"):
                    del log[k_][:]
                kern.modified = True          # the kernel has been transformed (again)
                try:
                    CodedKern.rename_and_write(kern)
                except Exception as e:  # pylint: disable=broad-except
                    log["exc"] = type(e).__name__
                    break
    finally:
        shutil.rmtree(workdir, ignore_errors=True)
    return log


def violated_concretely(what, log, naming):
    if what.startswith("write through"):
        return any(not excl for _, excl, _ in log["writes"])
    if what.startswith("existing file opened for writing"):
        return any(ok and existed and not (flags & os.O_EXCL) and (flags & (os.O_WRONLY | os.O_RDWR))
                   for _, flags, ok, existed in log["opens"])
    if what.startswith("module renamed"):
        created = [nm for nm, flags, ok, existed in log["opens"] if ok and flags & os.O_EXCL]
        return any(not any(nm.endswith(sfx + "_mod.f90") for nm in created) for sfx in log["renames"])
    if what.startswith("exception escapes"):
        return log["exc"] is not None
    if what.startswith("returns without writing"):
        return log["exc"] is None and not log["writes"]
    if what.startswith("file created or written"):
        return bool(log["writes"]) or any(ok and flags & os.O_EXCL for _, flags, ok, _ in log["opens"])
    if what.startswith("existing identical kernel rejected"):
        return bool(log["read_same"]) and ((log["exc"] == "GenerationError") == log["read_same"][0])
    if what.startswith("unexpected exception"):
        return log["exc"] not in (None, "GenerationError")
    if what.startswith("identical kernel of a concurrent run"):
        return log["exc"] == "GenerationError"
    return None


def main():
    tier = core.tier()
    chk = core.Check(PROP, "model_checking",
                     "pysx symbolic execution of CodedKern.rename_and_write (AST from /repo) against a most-general "
                     "file-system environment (fresh solver variable per answer, monotone existence); z3 decides the "
                     "no-clobber obligations for both naming schemes within R naming attempts")
    from psyclone.psyGen import CodedKern
    R = 3 if tier == "quick" else 5
    G = 2 if tier == "quick" else 3
    for naming in ("multiple", "single"):
        t0 = time.time()
        try:
            ex0, fs, views = encode(naming, R, G)
            obls = [obligations(v, v, naming, R) for v in views]
        except PyUnsupported as e:
            chk.harness_error(f"pysx cannot follow the source ({naming}): {e}")
            continue
        assume = list(fs.constraints) + list(ex0.assumptions)
        for gen, (view, obl) in enumerate(zip(views, obls)):
            s = z3.Solver()
            s.set("timeout", 60000)
            for a in assume:
                s.add(a)
            # termination: if one of the first R exclusive creates succeeds the loop needs at most R iterations
            unwind = [o for n, o in view.obligations if n == "unwinding"]
            some_free = OR(*[AND(g, succ) for g, idx, fd, flags, succ, existed in view.opens
                             if "O_EXCL" in flags][:R])
            # this generation is entered: no earlier one raised
            entered = AND(*[NOT(OR(*v.exc.values())) for v in views[:gen] if v.exc])
            s.add(entered)
            chk.evaluations += 1
            chk.count("queries")
            reach = str(s.check())
            if reach == "sat":
                chk.count("reachability_twins_ok")
            else:
                chk.harness_error(f"generation {gen + 1} ({naming}) is not reachable: {reach}")
                continue
            if naming == "multiple":
                for u in unwind:
                    obl.append(("naming loop does not terminate although a name is free", AND(some_free, NOT(u))))
                if not z3.is_false(z3.simplify(some_free)):
                    s.add(some_free)
            else:
                for u in unwind:
                    obl.append(("naming loop does not terminate (single)", NOT(u)))
            for what, cond in obl:
                chk.count("queries")
                chk.nontrivial.add(f"{naming}|gen{gen + 1}|{what}")
                s.push()
                s.add(cond)
                t1 = time.time()
                r = str(s.check())
                chk.cov["solver_s"] += time.time() - t1
                if r == "unsat":
                    chk.count("unsat")
                    chk.sample({"scheme": naming, "generation": gen + 1, "obligation": what, "verdict": "unsat"}, 40)
                    s.pop()
                    continue
                if r != "sat":
                    chk.count("inconclusive")
                    s.pop()
                    continue
                m = s.model()
                s.pop()
                try:
                    log = replay(naming, R, m, fs, gen)
                    ok = violated_concretely(what, log, naming)
                except Exception as e:  # pylint: disable=broad-except
                    log, ok = {"error": f"{type(e).__name__}: {e}"}, None
                key = {"unit": "CodedKern.rename_and_write", "template": naming,
                       "params": {"what": what, "generation": gen + 1}}
                if ok:
                    chk.count("sat_replayed")
                    rr = chk.report(key, f"{naming}, generation {gen + 1}: {what}",
                                    f"scheme {naming}\ngeneration {gen + 1} of one kernel object (transformed again "
                                    f"between generations)\nobligation: {what}\nreplay log: {log}\n",
                                    name=f"{naming}_g{gen + 1}_{what[:40].replace(' ', '_').replace('/', '_')}.txt")
                    chk.sample({"scheme": naming, "generation": gen + 1, "obligation": what,
                                "verdict": "sat, replayed: " + rr, "log": str(log)[:300]}, 40)
                elif ok is False:
                    chk.count("sat_not_reproduced")
                    chk.harness_error(f"model for '{what}' ({naming}, generation {gen + 1}) did not reproduce: {log}")
                else:
                    chk.count("inconclusive")
                    chk.cov["by_products"].append({"obligation": what, "replay": str(log)[:300]})
        chk.cov.setdefault("encode_s", []).append(round(time.time() - t0, 2))
    chk.cov["bounds"] = {"R_naming_attempts": R, "generations_of_one_kernel_object": G}
    chk.cov["states"] = max(1, chk.cov["queries"])
    chk.cov["transitions"] = max(1, chk.cov["queries"])
    chk.cov["traces_validated_against_impl"] = chk.cov["sat_replayed"]
    chk.cov["rule"] = "case = (naming scheme, obligation); one z3 query each over all environment behaviours"
    chk.cov["functions_encoded"] = core.src_hash(CodedKern.rename_and_write)
    chk.assumptions += [
        "environment = other runs: any answer to exists/size/content queries, files never disappear, no other run "
        "touches a file this run created exclusively",
        "at most R naming attempts (quick 3, thorough 5); termination is claimed only if one of the first R names is free",
        "_rename_psyir, FortranWriter, FortLineLength and Config are stubs (their results do not matter here)",
        "'single' scheme: content comparison is a Boolean per read (same / different)"]
    return chk.finish()


if __name__ == "__main__":
    core.main_wrapper(main)
