"""C11: variable access information covers every actual read and write (E1 trace).
Real code: VariablesAccessInfo(statement) for every top-level statement of the statement
family.  The routine is executed symbolically with the memory-event trace on; for the
events of one statement z3 decides whether the event can happen (its path guard is
satisfiable).  Every variable with a possible read must be reported with a read access,
every variable with a possible write with a write access; in an Assignment whose target is
also read the reported read must precede the write."""
import time

import z3

from vlib.common import core, tv
from vlib.families import stmts as fam
from vlib.fsym.interp import Interp, Unsupported, parse

PROP = "C11"


def names_by_key(it):
    out = {}
    for nm, b in list(it.top_frame.vars.items()):
        if b.key is not None:
            out[b.key] = (nm, "local")
    for nm, b in it.globals.items():
        if b.key is not None and not b.is_param:
            out[b.key] = (nm, "global")
    return out


def may_accesses(it, lo, hi):
    evs = it.trace[it.top_marks[lo]:it.top_marks[hi]]
    k2n = names_by_key(it)
    s = z3.Solver()
    s.set("timeout", 10000)
    for a in list(it.assumptions) + list(it.bound_assumptions) + list(it.inbounds):
        s.add(a)
    rd, wr = {}, {}
    nq = unk = 0
    t0 = time.time()
    for e in evs:
        if e.kind not in ("R", "W"):
            continue
        base = e.key.split("%")[0]
        if base not in k2n:
            continue
        nm, scope = k2n[base]
        if scope == "global" and e.extra:
            continue        # module variables touched inside a callee: outside the statement's own accesses
        name = nm + ("%" + e.key.split("%", 1)[1] if "%" in e.key else "")
        tgt = rd if e.kind == "R" else wr
        if name in tgt:
            continue
        if z3.is_true(z3.simplify(e.guard)):
            tgt[name] = e.stmt
            continue
        s.push()
        s.add(e.guard)
        r = str(s.check())
        nq += 1
        s.pop()
        if r == "sat":
            tgt[name] = e.stmt
        elif r == "unknown":
            unk += 1
    return rd, wr, nq, time.time() - t0, unk


def reported(node):
    from psyclone.core import VariablesAccessInfo, AccessType
    vai = VariablesAccessInfo(node)
    rd, wr, order = set(), set(), {}
    for sig in vai.all_signatures:
        info = vai[sig]
        nm = str(sig).lower()
        if info.is_read():
            rd.add(nm)
        if info.is_written():
            wr.add(nm)
        order[nm] = [a.access_type for a in info.all_accesses]
    return rd, wr, order


def work(case):
    from psyclone.psyir.nodes import Routine, Assignment
    from psyclone.core import AccessType
    outs = []
    src = case["src"]
    try:
        psyir = tv.read_psyir(src)
        it = Interp(src, K=case["K"], E=case["E"], trace=True, tree=parse(src))
        it.run(case["routine"])
    except Unsupported as e:
        return [{"key": {"unit": "VariablesAccessInfo", "template": case["template"], "params": {}},
                 "status": "unsupported", "why": str(e)}]
    except Exception as e:  # pylint: disable=broad-except
        return [{"key": {"unit": "reader", "template": case["template"], "params": {}},
                 "status": "psyclone_error", "why": str(e)[:200]}]
    r = [x for x in psyir.walk(Routine) if x.name == "s"][0]
    n = case["nstmts"]
    whole = case.get("whole_body")
    if not whole and (len(it.top_marks) != n + 1 or len(r.children) != n):
        return [{"key": {"unit": "harness", "template": case["template"], "params": {}},
                 "status": "unsupported", "why": f"statement count mismatch {len(it.top_marks)} {len(r.children)} {n}"}]
    for i in range(n):
        stmt_txt = case["stmts"][i].split("\n")[0][:50]
        key = {"unit": "VariablesAccessInfo", "template": case["template"], "params": {"stmt": i, "text": stmt_txt}}
        try:
            rep_r, rep_w, order = reported(r.children[:] if whole else r.children[i])
        except Exception as e:  # pylint: disable=broad-except
            outs.append({"key": key, "status": "psyclone_error", "why": f"{type(e).__name__}: {e}"[:300]})
            continue
        may_r, may_w, nq, ss, unk = may_accesses(it, 0, len(it.top_marks) - 1) if whole else may_accesses(it, i, i + 1)
        miss_r = sorted(v for v in may_r if v not in rep_r)
        miss_w = sorted(v for v in may_w if v not in rep_w)
        bad_order = []
        node = r.children[i] if not whole or len(r.children) == 1 else None
        if isinstance(node, Assignment):
            for nm, seq in order.items():
                if AccessType.WRITE in seq and AccessType.READ in seq and nm in may_r and \
                        seq.index(AccessType.WRITE) < seq.index(AccessType.READ):
                    bad_order.append(nm)
        o = {"key": key, "solver_s": ss, "nqueries": nq, "nontrivial": bool(may_r or may_w), "reach": "sat",
             "h": tv.text_hash(src + str(i))}
        if miss_r or miss_w or bad_order:
            kind = "write" if miss_w else ("read" if miss_r else "order")
            var = (miss_w or miss_r or bad_order)[0]
            o["status"] = "sat_replayed"
            o["diff"] = f"{kind} of {var} not reported" if kind != "order" else f"write of {var} reported before its read"
            from psyclone.psyir.nodes import CodeBlock
            unit_nodes = r.children[:] if whole else [r.children[i]]
            o["key"] = dict(key, params=dict(key["params"], kind=kind, var=var,
                                             has_codeblock=any(nd.walk(CodeBlock) for nd in unit_nodes),
                                             call=stmt_txt.split("(")[0].replace("call ", "") if stmt_txt.startswith("call ") else ""))
            o["replay_text"] = (f"! statement {i}: {case['stmts'][i]}\n! reported reads : {sorted(rep_r)}\n"
                                f"! reported writes: {sorted(rep_w)}\n! possible reads  : {sorted(may_r)}\n"
                                f"! possible writes: {sorted(may_w)}\n" + src)
            # replay: the access is re-derived from the real API on a fresh parse of just that statement
            try:
                p2 = tv.read_psyir(src)
                r2 = [x for x in p2.walk(Routine) if x.name == "s"][0]
                rr, ww, _ = reported(r2.children[:] if whole else r2.children[i])
                still = (var not in ww) if kind == "write" else ((var not in rr) if kind == "read" else True)
                if not still:
                    o["status"] = "sat_not_reproduced"
            except Exception:  # pylint: disable=broad-except
                pass
        elif unk:
            o["status"] = "unknown"
        else:
            o["status"] = "unsat"
        outs.append(o)
    return outs


def main():
    tier = core.tier()
    chk = core.Check(PROP, "other",
                     "VariablesAccessInfo on every top-level statement of the statement family; possible reads and "
                     "writes (events whose path guard is satisfiable, decided by z3 on the symbolic trace) must be "
                     "covered by the reported access types")
    cases = fam.gen(tier, core.seed())
    K, E = (3, 3) if tier == "quick" else (4, 4)
    for c in cases:
        c["K"], c["E"] = K, E
    results = core.pmap(work, cases)
    flat = []
    for r in results:
        flat.extend([r] if isinstance(r, tuple) else r)
    tv.aggregate(chk, flat)
    chk.cov["queries"] = sum(o.get("nqueries", 0) for o in flat if isinstance(o, dict)) or chk.cov["queries"]
    chk.cov["statements_decided"] = chk.cov["unsat"] + chk.cov["sat_replayed"]
    chk.cov["unsat"] = max(0, chk.cov["queries"] - chk.cov["sat_replayed"] - chk.cov["inconclusive"])
    chk.cov["bounds"] = {"K": K, "E": E, "programs_generated": len(cases)}
    chk.cov["rule"] = ("case = (program, top-level statement); non-trivial = the statement has at least one possible "
                       "access; distinct by (program text, statement index)")
    from psyclone.psyir.nodes import Call, Assignment, Loop, IfBlock, IntrinsicCall, Reference, ArrayReference
    chk.cov["functions_encoded"] = core.src_hash(Call.reference_accesses, Assignment.reference_accesses,
                                                 Loop.reference_accesses, IfBlock.reference_accesses,
                                                 IntrinsicCall.reference_accesses, Reference.reference_accesses,
                                                 ArrayReference.reference_accesses)
    chk.assumptions += [
        "routines called from a statement are executed (same file); accesses to the caller's variables through "
        "arguments count, module variables touched only inside the callee do not",
        "intrinsic subroutines follow the standard's argument intents (footprint table in fsym)",
        "array-shape inquiries (LBOUND/UBOUND/SIZE) are not data reads",
        "loops unrolled to K, extents <= E, symbolic pre-state"]
    return chk.finish()


if __name__ == "__main__":
    core.main_wrapper(main)
