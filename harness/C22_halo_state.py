"""C22: distributed-memory LFRic code never reads a dirty halo (E1, abstract halo state, all initial states).
Real code: the LFRic generator with distributed memory on (halo-exchange placement:
LFRicHaloExchange.required/_compute_halo_read_info, HaloReadAccess/HaloWriteAccess,
LFRicLoop.create_halo_exchanges, gen_mark_halos_clean_dirty), both annexed-DoF settings, followed
by accepted sequences of Dynamo0p3RedundantComputationTrans, Dynamo0p3ColourTrans,
Dynamo0p3AsyncHaloExchangeTrans, DynamoOMPParallelLoopTrans, Dynamo0p3OMPLoopTrans+OMPParallelTrans,
on invokes of synthesised kernels (access x function space x stencil) and built-ins.
The emitted PSy layer is executed by fsym (LFRic stub contract, every DO loop summarised) with an
ABSTRACT HALO STATE per field object instead of data:
   c    recorded clean depth (what is_dirty()/set_dirty()/set_clean()/halo_exchange() maintain),
   tau  depth to which the halo DoFs really hold the owner's values,
   ann  whether the annexed DoFs (continuous spaces) really hold the owner's values,
all symbolic initially with  0 <= c <= tau,  c >= 1 -> ann  ("whatever the initial halo state").
Run-time rules (developer guide, "Cell iterators", "Dof iterators", "Halo Exchange Logic"):
   halo_exchange(d):  tau := max(tau, d), ann := true, c := max(c, d)   (executed under the guard the
                      generated code gives it; is_dirty(d) == (d > c) at that moment)
   loop over cells to halo depth h (0 = owned cells) / over DoFs (owned | annexed | halo depth h):
      a field READ needs  tau >= h (+ stencil extent), and ann if continuous;
      GH_READINC the same; GH_INC needs ann and tau >= h-1; READWRITE needs tau >= h;
      after the loop a written field has  tau = h (h-1 for INC/READINC), ann per the rules.
z3 decides, for all initial states, stencil extents and mesh halo depths:
   P1  every halo region a kernel or built-in reads is valid when it runs,
   P2  wherever the recorded state is observed (every is_dirty() call and routine exit):
       c <= tau and (c >= 1 -> ann).
Replay: an independent line-by-line simulator of the emitted text with the witness' concrete
initial state."""
import os
import random
import re
import shutil
import tempfile
import time

import z3

from vlib.common import core, tv
from vlib.fsym.interp import Unsupported, lname
from vlib.fsym.lfric import LfricInterp
from fparser.two import Fortran2003 as F

PROP = "C22"
TRACK_ANNEXED = False     # annexed-DoF validity is outside the property as stated (see DESIGN 10.5)
FIELDS = {"c1": "w1", "c2": "w1", "c3": "w2", "d1": "w3", "d2": "w3", "d3": "wtheta", "u1": "any_space_1",
          "u2": "any_space_1"}
DISC = {"w3", "wtheta", "w2broken", "any_discontinuous_space_1"}


def cont_space(fld):
    return FIELDS[fld] not in DISC


def continuous(fld):
    return TRACK_ANNEXED and cont_space(fld)


KERNEL_SRC = """module {name}_mod
  use argument_mod
  use fs_continuity_mod
  use kernel_mod
  use constants_mod
  implicit none
  type, extends(kernel_type) :: {name}_type
     type(arg_type), dimension({n}) :: meta_args = (/ &
{args}
          /)
     integer :: operates_on = cell_column
   contains
     procedure, nopass :: code => {name}_code
  end type {name}_type
contains
  subroutine {name}_code()
  end subroutine {name}_code
end module {name}_mod
"""
BUILTINS = {"setval_c": ("w", "s"), "setval_x": ("w", "r"), "x_plus_y": ("w", "r", "r"), "inc_x_plus_y": ("rw", "r"),
            "inc_a_times_x": ("s", "rw"), "a_times_x": ("w", "s", "r")}


# ---------------------------------------------------------------- family
def random_invokes(n, seed):
    """[(tag, [call])], call = ("k", [(field, access, stencil)]) | ("b", name, [field|scalar text])"""
    rnd = random.Random(seed)
    out = []
    cont = [f for f in FIELDS if cont_space(f)]
    disc = [f for f in FIELDS if not cont_space(f)]
    for c in range(n):
        calls = []
        for _ in range(rnd.choice([1, 2, 2, 3, 3])):
            if rnd.random() < 0.35:
                nm = rnd.choice(list(BUILTINS))
                space = rnd.choice(["w1", "w3", "any_space_1"])
                pool = [f for f in FIELDS if FIELDS[f] == space]
                args, used = [], []
                ok = True
                for k in BUILTINS[nm]:
                    if k == "s":
                        args.append(rnd.choice(["a", "0.5_r_def"]))
                    else:
                        cand = [f for f in pool if f not in used]
                        if not cand:
                            ok = False
                            break
                        f = rnd.choice(cand)
                        used.append(f)
                        args.append(f)
                if ok:
                    calls.append(("b", nm, args))
                continue
            # a kernel: one or two written arguments + one to three read arguments
            style = rnd.choice(["inc", "inc", "readinc", "wdisc", "wdisc", "rwdisc", "wcont", "inc+wdisc"])
            args, used = [], set()

            def pick(pool):
                cand = [f for f in pool if f not in used]
                if not cand:
                    return None
                f = rnd.choice(cand)
                used.add(f)
                return f
            if style in ("inc", "readinc"):
                args.append((pick(cont), "gh_" + style, None))
            elif style == "wdisc":
                args.append((pick(disc), "gh_write", None))
            elif style == "rwdisc":
                args.append((pick(disc), "gh_readwrite", None))
            elif style == "wcont":
                args.append((pick(cont), "gh_write", None))
            else:
                args.append((pick(cont), "gh_inc", None))
                args.append((pick(disc), "gh_write", None))
            for _ in range(rnd.choice([1, 2, 2, 3])):
                f = pick(list(FIELDS))
                if f is None:
                    break
                st = rnd.choice([None, None, None, ("cross", "e1"), ("region", "2"), ("x1d", "e2"), ("cross", "1")])
                args.append((f, "gh_read", st))
            calls.append(("k", args))
        if calls:
            out.append((f"inv{seed}_{c}", calls))
    return out


HAND = [
    ("setval_then_inc", [("b", "setval_c", ["c1", "0.5_r_def"]), ("k", [("c1", "gh_inc", None), ("c3", "gh_read", None)])]),
    ("two_writers", [("b", "setval_c", ["c1", "0.5_r_def"]), ("b", "inc_x_plus_y", ["c1", "c2"]),
                     ("k", [("d1", "gh_write", None), ("c1", "gh_read", None)])]),
    ("stencil_after_write", [("k", [("d1", "gh_write", None), ("c3", "gh_read", None)]),
                             ("k", [("c1", "gh_inc", None), ("d1", "gh_read", ("cross", "e1"))])]),
    ("readinc_chain", [("k", [("c1", "gh_readinc", None), ("d1", "gh_read", None)]),
                       ("k", [("c2", "gh_inc", None), ("c1", "gh_read", None)])]),
    ("disc_readwrite", [("k", [("d1", "gh_readwrite", None), ("d2", "gh_read", ("region", "2"))]),
                        ("k", [("d2", "gh_write", None), ("d1", "gh_read", None)])]),
    ("wcont_then_read", [("k", [("c1", "gh_write", None), ("d1", "gh_read", None)]),
                         ("k", [("d2", "gh_write", None), ("c1", "gh_read", None)])]),
    ("wcont_reads_cont", [("k", [("u1", "gh_write", None), ("c3", "gh_read", None)])]),
    ("wcont_reads_cont2", [("k", [("c3", "gh_inc", None), ("d1", "gh_read", None)]),
                           ("k", [("c1", "gh_write", None), ("c3", "gh_read", None), ("u2", "gh_read", None)])]),
    ("builtin_between", [("k", [("u1", "gh_inc", None), ("c1", "gh_read", None)]), ("b", "setval_x", ["u2", "u1"]),
                         ("k", [("c3", "gh_inc", None), ("u2", "gh_read", ("cross", "e1"))])]),
]


def write_files(workdir, calls):
    kmeta = {}
    texts, uses = [], []
    for i, call in enumerate(calls):
        if call[0] == "b":
            texts.append(f"{call[1]}({', '.join(call[2])})")
            continue
        name = f"k{i}"
        lines, acts = [], []
        for j, (fld, acc, st) in enumerate(call[1]):
            t = f"arg_type(gh_field, gh_real, {acc}, {FIELDS[fld]}" + (f", stencil({st[0]})" if st else "") + ")"
            lines.append(f"          {t}{',' if j < len(call[1]) - 1 else ''} &")
            acts.append(fld)
            if st:
                acts.append(st[1])
        with open(os.path.join(workdir, f"{name}_mod.f90"), "w", encoding="utf-8") as fh:
            fh.write(KERNEL_SRC.format(name=name, n=len(call[1]), args="\n".join(lines)))
        kmeta[name] = call[1]
        uses.append(f"  use {name}_mod, only: {name}_type")
        texts.append(f"{name}_type({', '.join(acts)})")
    alg = ("program alg\n  use constants_mod, only: r_def, i_def\n  use field_mod, only: field_type\n" + "\n".join(uses) +
           f"\n  implicit none\n  type(field_type) :: {', '.join(FIELDS)}\n  integer(i_def) :: e1, e2\n  real(r_def) :: a\n"
           "  call invoke( " + ", &\n               ".join(texts) + " )\nend program alg\n")
    with open(os.path.join(workdir, "alg.f90"), "w", encoding="utf-8") as fh:
        fh.write(alg)
    return kmeta


# ---------------------------------------------------------------- transformation histories
def histories(ncalls):
    """transformation histories for an invoke of `ncalls` calls (one loop each): all single steps and the
    directed pairs (redundant computation x {region, second redundant computation}, colour x OpenMP,
    asynchronous exchange x redundant computation)"""
    n = ncalls
    rc = [("rc", j, d) for j in range(n) for d in (1, 2, "max")]
    deep = [r for r in rc if r[2] != 1]
    singles = rc + [("colour", j) for j in range(n)] + [("async", k) for k in range(2)] + \
        [("omp", j) for j in range(n)] + [("region",)]
    pairs = [(a, ("region",)) for a in rc]
    pairs += [(a, b) for a in deep for b in deep if a[1] != b[1]]
    pairs += [(("colour", j), ("omp", j)) for j in range(n)] + [(("colour", j), ("rc", j, 2)) for j in range(n)]
    pairs += [(("async", 0), a) for a in deep] + [(a, ("async", 0)) for a in deep]
    triples = [(a, b, ("region",)) for a in deep for b in deep if a[1] < b[1]]
    return [()] + [(x,) for x in singles] + pairs + triples


def apply_history(sched, hist):
    from psyclone.transformations import (Dynamo0p3RedundantComputationTrans, Dynamo0p3ColourTrans,
                                          Dynamo0p3AsyncHaloExchangeTrans, DynamoOMPParallelLoopTrans,
                                          Dynamo0p3OMPLoopTrans, OMPParallelTrans)
    from psyclone.psyir.nodes import Loop
    from psyclone.dynamo0p3 import LFRicHaloExchange
    from psyclone.psyir.transformations import TransformationError
    for step in hist:
        loops = [l for l in sched.walk(Loop) if l.loop_type != "colours"]
        if step[0] == "rc":
            if step[1] >= len(loops):
                raise TransformationError("no such loop")
            Dynamo0p3RedundantComputationTrans().apply(loops[step[1]], {} if step[2] == "max" else {"depth": step[2]})
        elif step[0] == "colour":
            tops = [l for l in sched.walk(Loop) if l.loop_type == ""]
            if step[1] >= len(tops):
                raise TransformationError("no such loop")
            Dynamo0p3ColourTrans().apply(tops[step[1]])
        elif step[0] == "async":
            hx = [h for h in sched.walk(LFRicHaloExchange) if type(h) is LFRicHaloExchange]
            if step[1] >= len(hx):
                raise TransformationError("no such halo exchange")
            Dynamo0p3AsyncHaloExchangeTrans().apply(hx[step[1]])
        elif step[0] == "omp":
            if step[1] >= len(loops):
                raise TransformationError("no such loop")
            DynamoOMPParallelLoopTrans().apply(loops[step[1]])
        elif step[0] == "region":
            # one parallel region around every maximal run of adjacent loops, OMP DO on each
            run, runs = [], []
            for ch in list(sched.children):
                if isinstance(ch, Loop) and ch.loop_type != "colours":
                    run.append(ch)
                else:
                    if len(run) > 1:
                        runs.append(run)
                    run = []
            if len(run) > 1:
                runs.append(run)
            if not runs:
                raise TransformationError("no adjacent loops")
            for run in runs:
                for l in run:
                    Dynamo0p3OMPLoopTrans().apply(l, {"reprod": False})
                OMPParallelTrans().apply([l.parent.parent for l in run])


# ---------------------------------------------------------------- abstract halo state on top of LfricInterp
class HaloInterp(LfricInterp):
    def __init__(self, txt, kmeta):
        super().__init__(txt, K=1, E=1, trace=True)
        self.summarise = True
        self.kmeta = kmeta
        self.hs = {}
        self.obl = []          # (kind, guard, condition, text)
        self.pending = {}
        self.D = self.fint("mesh", "halo_depth")
        self.extern_handler = self._halo_call
        base_hook = self.loop_hook
        self.loop_hook = lambda s_, s, frame, g, base_hook=base_hook: self._nest_hook(base_hook, s, frame, g)

    # state ----------------------------------------------------------------
    def st(self, okey):
        if okey not in self.hs:
            fld = okey[3:] if okey.startswith("in_") else okey
            c, tau = z3.Int(f"c0_{fld}"), z3.Int(f"tau0_{fld}")
            ann = z3.Bool(f"ann0_{fld}") if continuous(fld) else z3.BoolVal(True)
            self.assumptions += [c >= 0, tau >= c, tau <= self.D, z3.Implies(c >= 1, ann)]
            self.inputs[f"c0_{fld}"], self.inputs[f"tau0_{fld}"] = c, tau
            if continuous(fld):
                self.inputs[f"ann0_{fld}"] = ann
            self.hs[okey] = {"c": c, "tau": tau, "ann": ann}
        return self.hs[okey]

    @staticmethod
    def imax(a, b):
        return z3.If(a >= b, a, b)

    def observe(self, okey, g, where):
        s = self.st(okey)
        self.obl.append(("P2", g, z3.And(s["c"] <= s["tau"], z3.Implies(s["c"] >= 1, s["ann"])),
                         f"recorded halo state of {okey[3:]} cleaner than its contents at {where}"))

    def ev(self, node, frame, g):
        if self._is_method(node, "is_dirty"):
            base = self._method_base(node, frame)
            _, _, args = self._method_parts(node)
            args = [a.items[1] if isinstance(a, (F.Actual_Arg_Spec, F.Component_Spec)) else a for a in args]
            d = self.ev_scalar(args[0], frame, g) if args else z3.IntVal(1)
            self.observe(base.key, g, "is_dirty()")
            return d > self.st(base.key)["c"]
        return super().ev(node, frame, g)

    @staticmethod
    def _halo_call(self, name, args, frame, g):
        if "%" in name:
            obj, meth = name.rsplit("%", 1)
            if meth in ("halo_exchange", "halo_exchange_start", "halo_exchange_finish", "set_dirty", "set_clean"):
                b = self.lookup(obj.split("%")[0], frame)
                if b is None:
                    raise Unsupported("halo call on " + obj)
                vals = [self.ev_scalar(a.items[1] if isinstance(a, (F.Actual_Arg_Spec, F.Component_Spec)) else a,
                                       frame, g) for a in args]
                s = self.st(b.key)
                if meth == "set_dirty":
                    s["c"] = z3.If(g, z3.IntVal(0), s["c"])
                elif meth == "set_clean":
                    s["c"] = z3.If(g, self.imax(s["c"], vals[0]), s["c"])
                elif meth == "halo_exchange_start":
                    self.pending[b.key] = True
                else:
                    d = vals[0] if vals else z3.IntVal(1)
                    # a valid run never exchanges deeper than the mesh's halo
                    self.assumptions.append(z3.Implies(g, d <= self.D))
                    s["tau"] = z3.If(g, self.imax(s["tau"], d), s["tau"])
                    s["ann"] = z3.If(g, z3.BoolVal(True), s["ann"])
                    s["c"] = z3.If(g, self.imax(s["c"], d), s["c"])
                    self.pending.pop(b.key, None)
                self.lfric_events.append((g, b.key, meth, tuple(vals)))
                return True
        return LfricInterp._lfric_call(self, name, args, frame, g)

    # loops ----------------------------------------------------------------
    def _nest_hook(self, base_hook, s, frame, g):
        outer = len(self.loop_stack) == 0
        n_kc, t0, n_l = len(self.kernel_calls), len(self.trace), len(self.loops_seen)
        r = base_hook(self, s, frame, g)
        if outer and r:
            self.finish_nest(self.loops_seen[n_l:], self.kernel_calls[n_kc:], self.trace[t0:], g)
        return r

    def classify(self, hi):
        """('cell', depth) | ('dof', 'owned'|'annexed'|'all'|depth)"""
        if z3.is_app(hi):
            nm = hi.decl().name()
            if hi.decl().kind() == z3.Z3_OP_SELECT:
                inner = hi.arg(0)
                if z3.is_app(inner) and inner.decl().kind() == z3.Z3_OP_SELECT and "last_halo_cell_all_colours" in str(inner.arg(0)):
                    return ("cell", hi.arg(1))
                if "last_edge_cell_all_colours" in str(inner):
                    return ("cell", z3.IntVal(0))
                if "last_halo_cell_all_colours" in str(inner):
                    return ("cell", self.D)
            if nm.startswith("last_halo_cell_"):
                return ("cell", hi.arg(0) if hi.num_args() == 1 else self.D)
            if nm.startswith("last_edge_cell_"):
                return ("cell", z3.IntVal(0))
            if nm.startswith("owned_"):
                return ("dof", "owned")
            if nm.startswith("annexed_"):
                return ("dof", "annexed")
            if nm.startswith("halo_") and hi.num_args() == 1:
                return ("dof", hi.arg(0))
        raise Unsupported("loop bound " + str(hi)[:80])

    def extent(self, text):
        if text.isdigit():
            return z3.IntVal(int(text))
        if "in_" + text not in self.store:
            raise Unsupported("stencil extent " + text)
        return self.store["in_" + text]

    def need(self, okey, g, depth, want_ann, what):
        s = self.st(okey)
        self.assumptions.append(z3.Implies(g, depth <= self.D))    # the mesh has the halo the kernel reaches into
        cond = s["tau"] >= depth
        if want_ann and continuous(okey[3:]):
            cond = z3.And(cond, s["ann"])
        if okey in self.pending:
            cond = z3.BoolVal(False)
            what += " (between halo_exchange_start and halo_exchange_finish)"
        self.obl.append(("P1", g, cond, what))

    def finish_nest(self, loops, kcalls, trace, g):
        inner = loops[-1]
        # obligations hold for an iteration that is executed: Skolem variables within their bounds
        g = z3.And(inner["guard"], inner["skolem"] >= inner["lo"], inner["skolem"] <= inner["hi"])
        kind, h = self.classify(inner["hi"])
        zero = z3.IntVal(0)
        if not isinstance(h, str):
            self.assumptions.append(h <= self.D)      # the mesh has the halo cells the loop visits
        effects = []
        if kind == "cell":
            for kc in kcalls:
                name, descr = kc[1], kc[2]
                g = kc[0]
                if name not in self.kmeta:
                    raise Unsupported("kernel " + name)
                datas = [d for d in descr if d[0] == "name" and d[2] and d[2].endswith("%data")]
                meta = self.kmeta[name]
                if len(datas) != len(meta):
                    raise Unsupported("kernel argument list of " + name)
                for (fld, acc, st), d in zip(meta, datas):
                    okey = d[2][:-5]
                    cont = continuous(okey[3:])
                    where = f"{name}: {acc} of {okey[3:]} in a loop over cells to halo depth {h}"
                    if acc == "gh_read":
                        ext = zero
                        if st:
                            ext = self.extent(st[1])
                            where += f" with stencil extent {st[1]}"
                        self.need(okey, g, h + ext, True, where)
                    elif acc == "gh_readinc":
                        self.need(okey, g, h, True, where)
                        effects.append((okey, h - 1, True))
                    elif acc == "gh_inc":
                        self.need(okey, g, h - 1, True, where)
                        effects.append((okey, h - 1, True))
                    elif acc == "gh_readwrite":
                        self.need(okey, g, h, False, where)
                        effects.append((okey, h, True))
                    elif acc == "gh_write":
                        effects.append((okey, h, True))
                    else:
                        raise Unsupported("access " + acc)
        else:
            reads = {e.key for e in trace if e.kind == "R" and e.key.endswith("%data")}
            writes = {e.key for e in trace if e.kind == "W" and e.key.endswith("%data")}
            sym = isinstance(h, str)
            depth = zero if sym else h
            for key in sorted(reads):
                if not (sym and h == "owned"):
                    self.need(key[:-5], g, depth, True, f"built-in read of {key[3:-5]} in a loop over DoFs to {h}")
            for key in sorted(writes):
                effects.append((key[:-5], depth, not (sym and h == "owned")))
        for okey, depth, ann in effects:
            s = self.st(okey)
            s["tau"] = z3.If(depth >= 0, depth, zero) if not isinstance(depth, int) else z3.IntVal(max(depth, 0))
            s["ann"] = z3.BoolVal(bool(ann)) if continuous(okey[3:]) else z3.BoolVal(True)

    def at_exit(self):
        for okey in list(self.hs):
            self.observe(okey, z3.BoolVal(True), "routine exit")
        for okey in self.pending:
            self.obl.append(("P1", z3.BoolVal(True), z3.BoolVal(False),
                             f"halo_exchange_start of {okey[3:]} never finished"))


# ---------------------------------------------------------------- independent concrete simulator (replay)
def simulate(txt, kmeta, init, ints):
    """line-by-line abstract run of the emitted text; init: field -> (c, tau, ann); ints: name -> int
    (stencil extents, D).  Returns the list of violated rules."""
    lines = [l.strip() for l in re.sub(r"&\s*\n\s*&?", "", txt).split("\n")]
    state = {f: dict(c=v[0], tau=v[1], ann=v[2]) for f, v in init.items()}
    D = ints["D"]
    bounds = {}
    bad = []

    def val(e):
        e = e.strip().lower()
        e = re.sub(r"depth\s*=", "", e)
        e = e.replace("max_halo_depth_mesh", str(D)).replace("mesh%get_halo_depth()", str(D))
        for k, v in ints.items():
            e = re.sub(rf"\b{k.lower()}\b", str(v), e)
        return int(eval(e, {"__builtins__": {}}))  # noqa: S307  integer expression of literals only

    def fld(proxy):
        return proxy.lower().replace("_proxy", "")

    def bound(expr):
        e = expr.lower()
        if e in bounds:
            return bounds[e]
        m = re.search(r"get_last_halo_cell\((.*?)\)", e)
        if m:
            return ("cell", val(m.group(1)) if m.group(1).strip() else D)
        m = re.search(r"last_halo_cell_all_colours\(colour\s*,\s*(.*?)\)", e)
        if m:
            return ("cell", val(m.group(1)))
        if "last_halo_cell_all_colours(colour)" in e:
            return ("cell", D)
        if "last_edge_cell" in e:
            return ("cell", 0)
        if "get_last_dof_owned" in e:
            return ("dof", "owned")
        if "get_last_dof_annexed" in e:
            return ("dof", "annexed")
        m = re.search(r"get_last_dof_halo\((.*?)\)", e)
        if m:
            return ("dof", val(m.group(1)) if m.group(1).strip() else D)
        return None

    def observe(f, where):
        s = state[f]
        if not (s["c"] <= s["tau"] and (s["c"] < 1 or s["ann"])):
            bad.append(f"P2 {f} recorded clean to {s['c']} but contents valid to {s['tau']} (annexed {s['ann']}) at {where}")

    def need(f, depth, want_ann, what):
        s = state[f]
        if not (s["tau"] >= depth and (s["ann"] or not want_ann or not continuous(f))) or f in pending:
            bad.append(f"P1 {what}: needs depth {depth}, valid to {s['tau']} (annexed {s['ann']})")
    pending = set()
    skip = False
    loopstack = []
    nest_effects = []
    for l in lines:
        low = l.lower()
        m = re.match(r"(loop\d+_stop)\s*=\s*(.*)", low)
        if m:
            bounds[m.group(1)] = bound(m.group(2))
            continue
        m = re.match(r"if \((\w+)%is_dirty\((.*)\)\) then", low)
        if m:
            f = fld(m.group(1))
            observe(f, "is_dirty()")
            skip = not (val(m.group(2)) > state[f]["c"])
            continue
        if low == "end if":
            skip = False
            continue
        if skip:
            continue
        m = re.match(r"call (\w+)%(halo_exchange(?:_start|_finish)?|set_dirty|set_clean)\((.*)\)", low)
        if m:
            f, meth, arg = fld(m.group(1)), m.group(2), m.group(3)
            s = state[f]
            if meth == "set_dirty":
                s["c"] = 0
            elif meth == "set_clean":
                s["c"] = max(s["c"], val(arg))
            elif meth == "halo_exchange_start":
                pending.add(f)
            else:
                d = val(arg)
                s["tau"], s["c"], s["ann"] = max(s["tau"], d), max(s["c"], d), True
                pending.discard(f)
            continue
        m = re.match(r"do (\w+)\s*=\s*(.*)$", low)
        if m:
            parts = split_top(m.group(2))
            loopstack.append((m.group(1), bound(parts[1].strip())))
            continue
        if low.startswith("end do"):
            loopstack.pop()
            if not loopstack:
                for f, depth, ann in nest_effects:
                    state[f]["tau"] = max(depth, 0)
                    state[f]["ann"] = bool(ann) if continuous(f) else True
                nest_effects = []
            continue
        if not loopstack:
            continue
        kind, h = loopstack[-1][1] if loopstack[-1][1] else (None, None)
        m = re.match(r"call (\w+)_code\((.*)\)", low)
        if m and kind == "cell":
            name = m.group(1)
            datas = [a.strip()[:-5] for a in split_top(m.group(2)) if a.strip().endswith("_data")]
            for (_, acc, st), f in zip(kmeta[name], datas):
                what = f"{name}: {acc} of {f} in a loop over cells to depth {h}"
                if acc == "gh_read":
                    need(f, h + (val(st[1]) if st else 0), True, what)
                elif acc == "gh_readinc":
                    need(f, h, True, what)
                    nest_effects.append((f, h - 1, True))
                elif acc == "gh_inc":
                    need(f, h - 1, True, what)
                    nest_effects.append((f, h - 1, True))
                elif acc == "gh_readwrite":
                    need(f, h, False, what)
                    nest_effects.append((f, h, True))
                else:
                    nest_effects.append((f, h, True))
            continue
        m = re.match(r"(\w+)_data\(df\)\s*=\s*(.*)", low)
        if m and kind == "dof":
            depth = 0 if h in ("owned", "annexed") else h
            if h != "owned":
                for f in set(re.findall(r"(\w+)_data\(df\)", m.group(2))):
                    need(f, depth, True, f"built-in read of {f} over DoFs to {h}")
            nest_effects.append((m.group(1), depth, h != "owned"))
    for f in state:
        observe(f, "routine exit")
    for f in pending:
        bad.append(f"P1 halo_exchange_start of {f} never finished")
    return bad


def split_top(s):
    out, depth, cur = [], 0, ""
    for ch in s:
        if ch == "(":
            depth += 1
        elif ch == ")":
            depth -= 1
        if ch == "," and depth == 0:
            out.append(cur)
            cur = ""
        else:
            cur += ch
    if cur.strip():
        out.append(cur)
    return out


# ---------------------------------------------------------------- worker
def work(job):
    from psyclone.parse.algorithm import parse
    from psyclone.psyGen import PSyFactory
    from psyclone.configuration import Config
    tag, calls, annexed, hist = job
    hname = "+".join(str(s[0]) + "".join(f"[{x}]" for x in s[1:]) for s in hist) or "none"
    key = {"unit": "+".join(s[0] for s in hist) or "none", "template": tag,
           "params": {"annexed": annexed, "history": hname}}
    workdir = tempfile.mkdtemp(prefix="c22_")
    conf = Config.get().api_conf("lfric")
    conf._compute_annexed_dofs = bool(annexed)
    try:
        kmeta = write_files(workdir, calls)
        try:
            _, info = parse(os.path.join(workdir, "alg.f90"), api="dynamo0.3", kernel_paths=[workdir])
            psy = PSyFactory("dynamo0.3", distributed_memory=True).create(info)
        except Exception as e:  # pylint: disable=broad-except
            return [{"key": key, "status": "refused", "why": f"generation: {type(e).__name__}: {e}"[:200]}]
        sched = psy.invokes.invoke_list[0].schedule
        st, why = tv.safe_apply(lambda: apply_history(sched, hist))
        if st == "refused":
            return [{"key": key, "status": "refused", "why": str(why)[:200]}]
        if st == "error":
            return [{"key": key, "status": "psyclone_error", "why": why}]
        try:
            txt = str(psy.gen)
        except Exception as e:  # pylint: disable=broad-except
            nm = type(e).__name__
            if nm in ("GenerationError", "TransformationError", "VisitorError"):
                return [{"key": key, "status": "refused", "why": f"gen: {nm}: {e}"[:200]}]
            return [{"key": key, "status": "psyclone_error", "why": f"gen: {nm}: {e}"[:300]}]
    finally:
        conf._compute_annexed_dofs = False
        shutil.rmtree(workdir, ignore_errors=True)
    out = {"key": key, "nontrivial": True, "h": tv.text_hash(txt), "solver_s": 0.0}
    t0 = time.time()
    try:
        it = HaloInterp(txt, kmeta)
        it.run([r for r in it.routines if r.startswith("invoke")][0])
        it.at_exit()
    except Unsupported as e:
        out.update(status="unsupported", why=str(e))
        return [out]
    s = z3.Solver()
    s.set("timeout", 30000)
    for a in list(it.assumptions) + list(it.bound_assumptions):
        s.add(a)
    e1, e2 = it.store.get("in_e1", z3.Int("in_e1")), it.store.get("in_e2", z3.Int("in_e2"))
    s.add(e1 >= 1, e2 >= 1, it.D >= 1)
    out["reach"] = str(s.check())
    verdict, model, which = "unsat", None, None
    for kind, g, cond, text in it.obl:
        if z3.is_true(z3.simplify(cond)):
            continue
        s.push()
        s.add(g, z3.Not(cond))
        r = str(s.check())
        if r == "sat":
            verdict, model, which = "sat", s.model(), (kind, text)
            s.pop()
            break
        s.pop()
        if r == "unknown":
            verdict = "unknown"
    out["solver_s"] = time.time() - t0
    out["nobl"] = len(it.obl)
    if verdict != "sat":
        out["status"] = verdict
        return [out]

    def mi(t, default=0):
        v = model.eval(t, model_completion=True)
        return v.as_long() if z3.is_int_value(v) else default
    init = {}
    for f in FIELDS:
        init[f] = (mi(z3.Int(f"c0_{f}")), mi(z3.Int(f"tau0_{f}")),
                   z3.is_true(model.eval(z3.Bool(f"ann0_{f}"), model_completion=True)) if continuous(f) else True)
        if init[f][1] < init[f][0]:
            init[f] = (init[f][0], init[f][0], init[f][2])
        if init[f][0] >= 1 and not init[f][2]:
            init[f] = (init[f][0], init[f][1], True)
    ints = {"e1": max(mi(e1, 1), 1), "e2": max(mi(e2, 1), 1), "D": max(mi(it.D, 1), 1)}
    try:
        bad = simulate(txt, kmeta, init, ints)
    except Exception as e:  # pylint: disable=broad-except
        bad = None
        out["replay_error"] = f"{type(e).__name__}: {e}"[:200]
    kind, text = which
    out["diff"] = f"{kind}: {text}"
    out["key"] = dict(key, params=dict(key["params"], rule=kind, what=re.sub(r"\d+", "N", text)[:120]))
    out["replay_text"] = (f"! {kind}: {text}\n! initial state (recorded clean depth, valid depth, annexed valid): {init}\n"
                          f"! extents / mesh halo depth: {ints}\n! simulator: {bad}\n! calls: {calls}\n" + txt)
    if bad is None:
        out["status"] = "sat_unreplayable"
    else:
        out["status"] = "sat_replayed" if any(b.startswith(kind) for b in bad) else "sat_not_reproduced"
    return [out]


def main():
    tier = core.tier()
    chk = core.Check(PROP, "model_checking",
                     "abstract halo-state execution (recorded clean depth / really valid depth / annexed validity per "
                     "field, all symbolic initially) of the generated distributed-memory PSy layer with summarised "
                     "loops; z3 decides every read obligation and every observation of the recorded state")
    invokes = list(HAND) + random_invokes(16 if tier == "quick" else 160, 1)
    rnd = random.Random(7)
    jobs = []
    for n, (tag, calls) in enumerate(invokes):
        hs = histories(len(calls))
        if n >= len(HAND):
            hs = [()] + rnd.sample(hs[1:], min(len(hs) - 1, 8 if tier == "quick" else 40))
        for i, h in enumerate(hs):
            # single steps under both annexed settings, longer histories alternate
            for annexed in ((False, True) if len(h) <= 1 or tier == "thorough" else (bool(i % 2),)):
                jobs.append((tag, calls, annexed, h))
    results = core.pmap(work, jobs)
    flat = []
    for r in results:
        flat.extend([r] if isinstance(r, tuple) else r)
    tv.aggregate(chk, flat)
    chk.cov["bounds"] = {"invokes": len(invokes), "calls_per_invoke": "<=3", "history_length": "<=2",
                         "mesh": "summarised (all sizes)", "halo_depths_extents": "symbolic (all values >= 1)"}
    chk.cov["rule"] = "case = (invoke, annexed setting, transformation history); distinct by hash of the PSy layer"
    import psyclone.psyGen  # noqa: F401  (import order: avoids the circular import of psyclone.dynamo0p3)
    from psyclone.domain.lfric.lfric_loop import LFRicLoop
    from psyclone.dynamo0p3 import LFRicHaloExchange, HaloReadAccess, HaloWriteAccess
    from psyclone.transformations import Dynamo0p3RedundantComputationTrans
    chk.cov["functions_encoded"] = core.src_hash(LFRicHaloExchange, HaloReadAccess, HaloWriteAccess,
                                                 LFRicLoop.create_halo_exchanges, LFRicLoop.gen_mark_halos_clean_dirty,
                                                 LFRicLoop._halo_read_access, Dynamo0p3RedundantComputationTrans)
    chk.assumptions += [
        "run-time halo rules restated from the developer guide (Cell iterators, Dof iterators, Halo Exchange Logic): "
        "read needs depth h(+extent) and annexed; INC needs h-1 and annexed; READWRITE needs h; a written field is valid "
        "to h (h-1 for INC/READINC); DoF loops to owned leave annexed invalid",
        "set_clean(d) cleans depths 1..d, set_dirty() dirties all, halo_exchange(d) fills and cleans 1..d (LFRic field proxy)",
        "any_space_* fields are treated as continuous (worst case), every field keeps one function space",
        "loops are assumed to execute; effects of a loop nest are applied when it ends",
        "operators, field vectors, inter-grid kernels, reductions and halo-depth iteration spaces given in metadata are "
        "outside the family"]
    return chk.finish()


if __name__ == "__main__":
    core.main_wrapper(main)
