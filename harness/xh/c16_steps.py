"""C16 step conditions for CrossHair (E3): one symbol-table operation from enumerated pre-states.
Names are chosen by symbolic integer selectors from a pool that contains case variants and
`_N`-suffixed names (the places where case folding and suffix generation interact); the pre-state
(outer scope, inner scope, other table) is built from selectors too.  Post-condition of every
step: the tables are well-formed afterwards and, if the operation raised, nothing changed."""
import os
os.environ.setdefault("PSYCLONE_CONFIG", "/repo/config/psyclone.cfg")

from psyclone.psyir.nodes import Routine, Schedule, Container            # noqa: E402
from psyclone.psyir.symbols import (DataSymbol, INTEGER_TYPE, REAL_TYPE, SymbolTable, Symbol,  # noqa: E402
                                    SymbolError, ContainerSymbol, ImportInterface, ArgumentInterface)

POOL = ["a", "A", "a_1", "A_1", "a_2", "work", "Work_1", "b"]
NP = len(POOL)
NONE = NP            # selector value meaning "no symbol"


def norm(n):
    return n.lower()


def build(o1, o2, i1, i2):
    """outer routine scope with symbols o1,o2 and an inner schedule scope with i1,i2 (NONE = absent;
    a clash inside one table is skipped: the pre-state must be well-formed)"""
    from psyclone.psyir.nodes import Loop, Literal
    routine = Routine.create("r", SymbolTable(), [])
    loop = Loop.create(DataSymbol("lvar", INTEGER_TYPE), Literal("1", INTEGER_TYPE), Literal("2", INTEGER_TYPE),
                       Literal("1", INTEGER_TYPE), [])
    routine.addchild(loop)
    inner = loop.loop_body          # a nested scope with its own symbol table
    for tab, sels in ((routine.symbol_table, (o1, o2)), (inner.symbol_table, (i1, i2))):
        for k, s in enumerate(sels):
            if s == NONE:
                continue
            nm = POOL[s]
            if norm(nm) in tab.symbols_dict:
                continue
            tab.add(DataSymbol(nm, INTEGER_TYPE),
                    tag=("tag0" if (k == 0 and tab is routine.symbol_table) else None))
    return routine, inner


def other_table(t1, t2):
    tab = SymbolTable()
    for s in (t1, t2):
        if s == NONE:
            continue
        if norm(POOL[s]) not in tab.symbols_dict:
            tab.add(DataSymbol(POOL[s], REAL_TYPE))
    return tab


def snapshot(*tables):
    return [([(k, id(v), v.name) for k, v in t.symbols_dict.items()], [(k, id(v)) for k, v in t.tags_dict.items()])
            for t in tables]


def wellformed(tab):
    d = tab.symbols_dict
    names = [norm(s.name) for s in d.values()]
    if len(set(names)) != len(names):
        return False
    if sorted(names) != sorted(d.keys()):
        return False
    for t, s in tab.tags_dict.items():
        if d.get(norm(s.name)) is not s:
            return False
    return True


def visible(tab):
    out = set()
    cur = tab
    while cur is not None:
        out |= set(cur.symbols_dict.keys())
        cur = cur.parent_symbol_table()
    return out


def step_new_symbol(o1, o2, i1, i2, r, shadow):
    routine, inner = build(o1, o2, i1, i2)
    tab = inner.symbol_table
    before_vis = visible(tab) if not shadow else set(tab.symbols_dict.keys())
    before = snapshot(tab, routine.symbol_table)
    try:
        sym = tab.new_symbol(POOL[r], shadowing=bool(shadow))
    except Exception:  # pylint: disable=broad-except
        return snapshot(tab, routine.symbol_table) == before
    return (wellformed(tab) and wellformed(routine.symbol_table) and norm(sym.name) not in before_vis
            and tab.symbols_dict.get(norm(sym.name)) is sym and norm(sym.name).startswith(norm(POOL[r])))


def step_next_name(o1, o2, i1, i2, r, shadow, t1, t2):
    routine, inner = build(o1, o2, i1, i2)
    tab = inner.symbol_table
    oth = other_table(t1, t2)
    before = snapshot(tab, routine.symbol_table, oth)
    name = tab.next_available_name(POOL[r], shadowing=bool(shadow), other_table=oth)
    vis = visible(tab) if not shadow else set(tab.symbols_dict.keys())
    return (norm(name) not in vis and norm(name) not in oth.symbols_dict
            and snapshot(tab, routine.symbol_table, oth) == before)


def step_add(o1, o2, i1, i2, r):
    routine, inner = build(o1, o2, i1, i2)
    tab = inner.symbol_table
    before = snapshot(tab, routine.symbol_table)
    clash = norm(POOL[r]) in tab.symbols_dict
    try:
        tab.add(DataSymbol(POOL[r], INTEGER_TYPE))
    except KeyError:
        return clash and snapshot(tab, routine.symbol_table) == before
    return (not clash) and wellformed(tab) and norm(POOL[r]) in tab.symbols_dict


def step_rename(o1, o2, i1, i2, r):
    routine, inner = build(o1, o2, i1, i2)
    tab = routine.symbol_table
    syms = list(tab.symbols_dict.values())
    data = [s for s in syms if isinstance(s, DataSymbol)]
    if not data:
        return True
    sym = data[0]
    before = snapshot(tab, inner.symbol_table)
    clash = norm(POOL[r]) in tab.symbols_dict and tab.symbols_dict[norm(POOL[r])] is not sym
    try:
        tab.rename_symbol(sym, POOL[r])
    except Exception:  # pylint: disable=broad-except
        return snapshot(tab, inner.symbol_table) == before
    return (not clash) and wellformed(tab) and tab.symbols_dict.get(norm(POOL[r])) is sym and sym.name == POOL[r]


def step_lookup(o1, o2, i1, i2, r):
    routine, inner = build(o1, o2, i1, i2)
    tab = inner.symbol_table
    key = norm(POOL[r])
    want = tab.symbols_dict.get(key) or routine.symbol_table.symbols_dict.get(key)
    try:
        got = tab.lookup(POOL[r])
    except KeyError:
        return want is None
    return got is want


def step_merge(o1, o2, i1, i2, t1, t2):
    routine, inner = build(o1, o2, i1, i2)
    tab = routine.symbol_table
    oth = other_table(t1, t2)
    oth_syms = list(oth.symbols_dict.values())
    n_before = len(tab.symbols_dict)
    before = snapshot(tab, inner.symbol_table)
    try:
        tab.merge(oth)
    except SymbolError:
        return snapshot(tab, inner.symbol_table) == before
    if not (wellformed(tab) and wellformed(inner.symbol_table)):
        return False
    present = list(tab.symbols_dict.values())
    # every symbol of the other table is in this table exactly once
    for s in oth_syms:
        if sum(1 for p in present if p is s) != 1:
            return False
    return len(present) == n_before + len(oth_syms)


def step_merge_inner(o1, o2, i1, i2, t1, t2):
    """merge into the NESTED scope: a symbol that has to be renamed gets a freshly generated name, which must
    clash neither with the receiving table nor with its enclosing scope"""
    routine, inner = build(o1, o2, i1, i2)
    tab = inner.symbol_table
    oth = other_table(t1, t2)
    oth_syms = list(oth.symbols_dict.values())
    old = [norm(s.name) for s in oth_syms]
    outer_names = set(routine.symbol_table.symbols_dict.keys())
    n_before = len(tab.symbols_dict)
    before = snapshot(routine.symbol_table, tab)
    try:
        tab.merge(oth)
    except SymbolError:
        return snapshot(routine.symbol_table, tab) == before
    if not (wellformed(tab) and wellformed(routine.symbol_table)):
        return False
    present = list(tab.symbols_dict.values())
    for s, o in zip(oth_syms, old):
        if sum(1 for p in present if p is s) != 1:
            return False
        if norm(s.name) != o and norm(s.name) in outer_names:
            return False            # renamed onto a name of the enclosing scope
    return len(present) == n_before + len(oth_syms)


def step_remove(o1, o2, i1, i2, r):
    routine, inner = build(o1, o2, i1, i2)
    tab = routine.symbol_table
    key = norm(POOL[r])
    sym = tab.symbols_dict.get(key)
    before = snapshot(tab)
    if sym is None:
        return True
    try:
        tab.remove(sym)
    except Exception:  # pylint: disable=broad-except
        return snapshot(tab) == before
    return wellformed(tab) and key not in tab.symbols_dict and all(v is not sym for v in tab.tags_dict.values())


def step_tag(o1, o2, i1, i2, r):
    routine, inner = build(o1, o2, i1, i2)
    tab = inner.symbol_table
    vis_before = visible(tab)
    had = "tag0" in tab.get_tags() if hasattr(tab, "get_tags") else ("tag0" in tab.tags_dict or
                                                                    "tag0" in routine.symbol_table.tags_dict)
    sym = tab.find_or_create_tag("tag0", root_name=POOL[r])
    if had:
        return wellformed(tab) and wellformed(routine.symbol_table)
    return wellformed(tab) and norm(sym.name) not in vis_before and tab.tags_dict.get("tag0") is sym


STEPS = {"new_symbol": (step_new_symbol, ["o1", "o2", "i1", "i2", "r", "shadow"]),
         "next_available_name": (step_next_name, ["o1", "o2", "i1", "i2", "r", "shadow", "t1", "t2"]),
         "add": (step_add, ["o1", "o2", "i1", "i2", "r"]),
         "rename_symbol": (step_rename, ["o1", "o2", "i1", "i2", "r"]),
         "lookup": (step_lookup, ["o1", "o2", "i1", "i2", "r"]),
         "merge": (step_merge, ["o1", "o2", "i1", "i2", "t1", "t2"]),
         "merge_inner": (step_merge_inner, ["o1", "o2", "i1", "i2", "t1", "t2"]),
         "remove": (step_remove, ["o1", "o2", "i1", "i2", "r"]),
         "find_or_create_tag": (step_tag, ["o1", "o2", "i1", "i2", "r"])}

RANGES = {"o1": (0, NONE), "o2": (0, NONE), "i1": (0, NONE), "i2": (0, NONE), "t1": (0, NONE), "t2": (0, NONE),
          "r": (0, NP - 1), "shadow": (0, 1)}

_TEMPLATE = '''

def c_{name}_{variant}({args}):
    """
{pres}
    post: _ == True
    """
    return STEPS["{name}"][0]({call})
'''


def generate(path, variants):
    """variants: {step name: [ {arg: fixed value} ... ]} - fixed selectors shrink each condition so that
    CrossHair can exhaust its paths; returns {(name, variant index): line}"""
    lines = ["from harness.xh.c16_steps import STEPS\n"]
    where = {}
    for name, (fn, args) in STEPS.items():
        for vi, fixed in enumerate(variants.get(name, [])):
            free = [a for a in args if a not in fixed]
            pres = "\n".join(f"    pre: {RANGES[a][0]} <= {a} <= {RANGES[a][1]}" for a in free)
            call = ", ".join(str(fixed[a]) if a in fixed else a for a in args)
            where[(name, vi)] = sum(x.count("\n") for x in lines) + 3
            lines.append(_TEMPLATE.format(name=name, variant=vi, args=", ".join(f"{a}: int" for a in free),
                                          pres=pres, call=call))
    with open(path, "w", encoding="utf-8") as fh:
        fh.write("".join(lines))
    return where
