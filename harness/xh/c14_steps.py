"""C14 inductive-step conditions for CrossHair (E3).

One function per (parent pre-state, operation).  The index arguments are symbolic
ints (range given as a precondition because CrossHair realises ints at C-level
list methods); item kinds are symbolic ints selecting a constructor.  The
postcondition is: the local well-formedness invariant holds afterwards AND, if the
operation raised, the children (identities, order, parents) are exactly as before.

The functions are generated below from PARENTS x OPS so that each is a separate
CrossHair condition (`crosshair check file.py:LINE`)."""
import os
os.environ.setdefault("PSYCLONE_CONFIG", "/repo/config/psyclone.cfg")

from psyclone.errors import GenerationError                       # noqa: E402
from psyclone.psyir import nodes as N                             # noqa: E402
from psyclone.psyir.symbols import (DataSymbol, INTEGER_TYPE, REAL_TYPE, RoutineSymbol,  # noqa: E402
                                    BOOLEAN_TYPE, SymbolTable, ArrayType)

B = 7


def _ref(name="x", t=REAL_TYPE):
    return N.Reference(DataSymbol(name, t))


def _lit(v="1"):
    return N.Literal(v, INTEGER_TYPE)


def _asg(n="a"):
    return N.Assignment.create(_ref(n), N.Literal("1.0", REAL_TYPE))


# ---------------------------------------------------------------- pre-states
def p_schedule0():
    return N.Schedule()


def p_schedule2():
    s = N.Schedule()
    s.addchild(_asg("a"))
    s.addchild(_asg("b"))
    return s


def p_schedule3():
    s = N.Schedule()
    for n in "abc":
        s.addchild(_asg(n))
    return s


def p_loop():
    return N.Loop.create(DataSymbol("i", INTEGER_TYPE), _lit("1"), _lit("10"), _lit("1"), [_asg()])


def p_ifblock():
    return N.IfBlock.create(N.Literal("true", BOOLEAN_TYPE), [_asg()])


def p_ifelse():
    return N.IfBlock.create(N.Literal("true", BOOLEAN_TYPE), [_asg("a")], [_asg("b")])


def p_assignment():
    return _asg()


def p_call0():
    return N.Call.create(RoutineSymbol("sub"), [])


def p_call2():
    return N.Call.create(RoutineSymbol("sub"), [_ref("x"), _ref("y")])


def p_binop():
    return N.BinaryOperation.create(N.BinaryOperation.Operator.ADD, _ref("x"), _ref("y"))


def p_unop():
    return N.UnaryOperation.create(N.UnaryOperation.Operator.MINUS, _ref("x"))


def p_arrayref():
    sym = DataSymbol("arr", ArrayType(REAL_TYPE, [10, 10]))
    return N.ArrayReference.create(sym, [_lit("1"), _lit("2")])


def p_range():
    return N.Range.create(_lit("1"), _lit("10"), _lit("2"))


def p_intrinsic():
    return N.IntrinsicCall.create(N.IntrinsicCall.Intrinsic.MAX, [_ref("x"), _ref("y")])


def p_routine():
    return N.Routine.create("r", SymbolTable(), [_asg("a"), _asg("b")])


def p_container():
    c = N.Container("c")
    c.addchild(N.Routine("r1"))
    c.addchild(N.Routine("r2"))
    return c


def p_ompparallel():
    d = N.OMPParallelDirective.create(children=[_asg("a")])
    return d


def p_ompdo():
    return N.OMPDoDirective(children=[p_loop()])


def p_accdata():
    return N.ACCKernelsDirective(children=[_asg("a")])


def p_return():
    return N.Return()


PARENTS = {"schedule0": p_schedule0, "schedule2": p_schedule2, "schedule3": p_schedule3,
           "loop": p_loop, "ifblock": p_ifblock, "ifelse": p_ifelse, "assignment": p_assignment,
           "call0": p_call0, "call2": p_call2, "binop": p_binop, "unop": p_unop,
           "arrayref": p_arrayref, "range": p_range, "intrinsic": p_intrinsic,
           "routine": p_routine, "container": p_container, "ompparallel": p_ompparallel,
           "ompdo": p_ompdo, "acckernels": p_accdata, "leaf": p_return}

# ---------------------------------------------------------------- candidate items
ITEMS = [lambda: _lit("3"), lambda: _ref("z"), lambda: _asg("q"), lambda: N.Schedule(),
         lambda: p_loop(), lambda: N.Return(), lambda: p_range(), lambda: p_call0(),
         lambda: N.Routine("rr"), lambda: N.OMPPrivateClause()]
NI = len(ITEMS)


# ---------------------------------------------------------------- invariant / snapshot
def snapshot(parent):
    return [(id(c), id(c.parent)) for c in parent.children]


def invariant(parent):
    seen = set()
    for pos, c in enumerate(parent.children):
        if c.parent is not parent:
            return False
        if id(c) in seen:
            return False
        seen.add(id(c))
        if not parent._validate_child(pos, c):
            return False
    return True


def _attempt(parent, fn, fresh=()):
    """Run fn; True iff the step property holds."""
    before = snapshot(parent)
    kids = list(parent.children)
    try:
        fn()
    except (GenerationError, IndexError, ValueError, TypeError):
        # a rejected operation must leave everything as it was
        if snapshot(parent) != before:
            return False
        for f in fresh:
            if f.parent is not None:
                return False
        return True
    if not invariant(parent):
        return False
    # children that left the list must have lost their parent link
    now = {id(c) for c in parent.children}
    for k in kids:
        if id(k) not in now and k.parent is parent:
            return False
    return True


# ---------------------------------------------------------------- operations
def op_insert(parent, idx, ik, ik2):
    item = ITEMS[ik]()
    return _attempt(parent, lambda: parent.children.insert(idx, item), [item])


def op_addchild(parent, idx, ik, ik2):
    item = ITEMS[ik]()
    return _attempt(parent, lambda: parent.addchild(item, idx), [item])


def op_pop(parent, idx, ik, ik2):
    return _attempt(parent, lambda: parent.children.pop(idx))


def op_delitem(parent, idx, ik, ik2):
    def f():
        del parent.children[idx]
    return _attempt(parent, f)


def op_setitem(parent, idx, ik, ik2):
    item = ITEMS[ik]()

    def f():
        parent.children[idx] = item
    return _attempt(parent, f, [item])


def op_append(parent, idx, ik, ik2):
    item = ITEMS[ik]()
    return _attempt(parent, lambda: parent.children.append(item), [item])


def _attached(ik):
    """an item that already is the child of some other node"""
    from psyclone.psyir.nodes import Schedule
    item = ITEMS[ik % NI]()
    holder = Schedule()
    try:
        holder.addchild(item)
    except GenerationError:
        return None
    return item


def op_extend_same(parent, idx, ik, ik2):
    return op_extend(parent, idx, ik, NI)


def op_extend_attached(parent, idx, ik, ik2):
    return op_extend(parent, idx, ik, NI + 1)


def op_extend_two(parent, idx, ik, ik2):
    return op_extend(parent, idx, ik, ik2 % NI)


def op_extend(parent, idx, ik, ik2):
    a = ITEMS[ik]()
    if ik2 == NI + 1:
        # second item still attached elsewhere: the whole extend must be rejected and nothing linked
        b = _attached(ik)
        if b is None:
            return True
        before = snapshot(parent)
        try:
            parent.children.extend([a, b])
        except (GenerationError, IndexError, ValueError, TypeError):
            return snapshot(parent) == before and a.parent is None
        return invariant(parent)
    b = a if ik2 == NI else ITEMS[ik2 % NI]()
    return _attempt(parent, lambda: parent.children.extend([a, b]), [a, b])


def op_setchildren(parent, idx, ik, ik2):
    a = ITEMS[ik]()
    b = ITEMS[ik2 % NI]()

    def f():
        parent.children = [a, b]
    return _attempt(parent, f, [a, b])


def op_remove(parent, idx, ik, ik2):
    n = len(parent.children)
    item = parent.children[idx] if -n <= idx < n else ITEMS[ik]()
    return _attempt(parent, lambda: parent.children.remove(item))


def op_detach(parent, idx, ik, ik2):
    n = len(parent.children)
    if not -n <= idx < n:
        return True
    child = parent.children[idx]
    return _attempt(parent, child.detach)


def op_replace(parent, idx, ik, ik2):
    n = len(parent.children)
    if not -n <= idx < n:
        return True
    child = parent.children[idx]
    item = ITEMS[ik]()
    return _attempt(parent, lambda: child.replace_with(item), [item])


def op_reverse(parent, idx, ik, ik2):
    return _attempt(parent, parent.children.reverse)


def op_clear(parent, idx, ik, ik2):
    return _attempt(parent, parent.children.clear)


def op_popall(parent, idx, ik, ik2):
    return _attempt(parent, parent.pop_all_children)


OPS = {"insert": op_insert, "addchild": op_addchild, "pop": op_pop, "delitem": op_delitem,
       "setitem": op_setitem, "append": op_append, "extend": op_extend_two, "extend_same": op_extend_same,
       "extend_attached": op_extend_attached,
       "setchildren": op_setchildren, "remove": op_remove, "detach": op_detach,
       "replace": op_replace, "reverse": op_reverse, "clear": op_clear, "popall": op_popall}


def run_step(pname, oname, idx, ik, ik2):
    parent = PARENTS[pname]()
    return OPS[oname](parent, idx, ik, ik2)


_TEMPLATE = '''
def step_{p}_{o}(idx: int, ik: int, ik2: int) -> bool:
    """
    pre: -{B} <= idx <= {B}
    pre: 0 <= ik < {NI}
    pre: 0 <= ik2 <= {NI}
    post: _
    """
    return run_step("{p}", "{o}", idx, ik, ik2)
'''


def generate(path):
    """Write the module with one function per condition; returns {(p,o): line}."""
    lines = ["from harness.xh.c14_steps import run_step\n"]
    where = {}
    for p in PARENTS:
        for o in OPS:
            where[(p, o)] = sum(x.count("\n") for x in lines) + 2
            lines.append(_TEMPLATE.format(p=p, o=o, B=B, NI=NI))
    with open(path, "w", encoding="utf-8") as fh:
        fh.write("".join(lines))
    return where
