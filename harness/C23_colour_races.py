"""C23: LFRic shared-DoF increments are only parallelised over colours (E1 race query with dofmap axioms).
Real code: accepted sequences of Dynamo0p3ColourTrans, DynamoOMPParallelLoopTrans,
Dynamo0p3OMPLoopTrans, OMPParallelTrans, ACCLoopTrans, ACCParallelTrans (+ACCEnterDataTrans)
on invokes of synthesised kernels (every access mode x function space for one or two written
arguments), with distributed memory on and off; then the real code generation.
The emitted PSy layer is executed by fsym with the LFRic stub contract and every loop summarised
by a Skolem loop variable.  For every loop that carries a parallel directive and every kernel
call inside it, two copies of the iteration (v and v', v /= v', both within the loop bounds) give
two cell terms cA, cB read off the dofmap argument the call was given; the write footprint of a
written argument is  data(map(df, cell) + k).  Dofmaps are an uninterpreted function with the
mesh axioms instantiated at cA, cB only:
  * cells of one colour share no DoF (cmap(colour, i) and cmap(colour, i'), i /= i');
  * a discontinuous function space shares no DoF between any two distinct cells;
  * the colour map and the plain cell numbering are injective.
z3 decides whether the two iterations can write the same location; `sat` (on some mesh) is a race.
The second clause (no loop over colours inside a parallel region) is read off the same event
stream (a `colour` loop executed while a parallel region is open and no worksharing directive on
that loop)."""
import itertools
import os
import shutil
import tempfile
import time

import z3

from vlib.common import core, tv
from vlib.fsym.interp import Unsupported
from vlib.fsym.lfric import LfricInterp

PROP = "C23"
CONTINUOUS = {"w0", "w1", "w2", "w2h", "w2v", "any_w2", "any_space_1", "any_space_2", "w2trace", "w2htrace", "w2vtrace",
              "wchi"}
DISCONTINUOUS = {"w3", "wtheta", "w2broken", "w2vtrace_disc", "any_discontinuous_space_1", "any_discontinuous_space_2"}

KERNEL = """module {name}_mod
  use argument_mod
  use fs_continuity_mod
  use kernel_mod
  use constants_mod
  implicit none
  type, extends(kernel_type) :: {name}_type
     type(arg_type), dimension({n}) :: meta_args = (/ &
{args}
          /)
     integer :: operates_on = cell_column
   contains
     procedure, nopass :: code => {name}_code
  end type {name}_type
contains
  subroutine {name}_code()
  end subroutine {name}_code
end module {name}_mod
"""


def kernel_variants(thorough=False):
    """[(tag, [(access, space)])]: first entries are the written arguments"""
    if thorough:
        cont = ["w0", "w1", "w2", "w2h", "w2v", "any_w2", "any_space_1", "w2trace", "wchi"]
        disc = ["w3", "wtheta", "w2broken", "any_discontinuous_space_1"]
        first = ([(a, sp) for a in ("gh_inc", "gh_readinc", "gh_write") for sp in cont] +
                 [(a, sp) for a in ("gh_write", "gh_readwrite") for sp in disc])
        second = [None, ("gh_inc", "w2"), ("gh_write", "w3"), ("gh_readinc", "w1"), ("gh_readwrite", "w3"),
                  ("gh_inc", "any_space_2"), ("gh_write", "w0"), ("gh_readinc", "any_w2")]
        out = []
        for a, b in itertools.product(first, second):
            if b is not None and b[1] == a[1]:
                continue
            args = [a] + ([b] if b else []) + [("gh_read", "w2h" if a[1] != "w2h" else "w1")]
            out.append((f"{a[0][3:]}_{a[1]}" + (f"__{b[0][3:]}_{b[1]}" if b else ""), args))
        return out
    written = [("gh_inc", "w1"), ("gh_readinc", "w0"), ("gh_inc", "any_space_1"), ("gh_readinc", "any_space_1"),
               ("gh_write", "w3"),
               ("gh_readwrite", "wtheta"), ("gh_write", "w1"), ("gh_readwrite", "any_discontinuous_space_1"),
               ("gh_inc", "w2")]
    second = [None, ("gh_inc", "w2"), ("gh_write", "w3"), ("gh_readinc", "w1"), ("gh_readwrite", "w3")]
    out = []
    for a, b in itertools.product(written, second):
        if b is not None and b[1] == a[1]:
            continue
        args = [a] + ([b] if b else []) + [("gh_read", "w2h")]
        out.append((f"{a[0][3:]}_{a[1]}" + (f"__{b[0][3:]}_{b[1]}" if b else ""), args))
    return out


def make_files(workdir, args, twice=False, lead=False):
    lines = [f"          arg_type(gh_field, gh_real, {acc}, {sp}){',' if i < len(args) - 1 else ''} &"
             for i, (acc, sp) in enumerate(args)]
    with open(os.path.join(workdir, "vkern_mod.f90"), "w", encoding="utf-8") as fh:
        fh.write(KERNEL.format(name="vkern", n=len(args), args="\n".join(lines)))
    flds = [f"f{i + 1}" for i in range(len(args))]
    if lead:
        # a kernel that only writes a discontinuous field (its loop is 'discontinuous'), to be fused in front
        dl = ["          arg_type(gh_field, gh_real, gh_write, w3), &",
              "          arg_type(gh_field, gh_real, gh_read, w2h) &"]
        with open(os.path.join(workdir, "dkern_mod.f90"), "w", encoding="utf-8") as fh:
            fh.write(KERNEL.format(name="dkern", n=2, args="\n".join(dl)))
    alg = ("program alg\n  use constants_mod, only: r_def\n  use field_mod, only: field_type\n"
           "  use vkern_mod, only: vkern_type\n" + ("  use dkern_mod, only: dkern_type\n" if lead else "") +
           "  implicit none\n"
           f"  type(field_type) :: {', '.join(flds)}, g1, g2\n  call invoke( " +
           ("dkern_type(g1, g2), " if lead else "") + f"vkern_type({', '.join(flds)})" +
           (f", vkern_type({', '.join(flds)})" if twice else "") + " )\nend program alg\n")
    with open(os.path.join(workdir, "alg.f90"), "w", encoding="utf-8") as fh:
        fh.write(alg)


def sequences():
    from psyclone.transformations import (Dynamo0p3ColourTrans, DynamoOMPParallelLoopTrans, Dynamo0p3OMPLoopTrans,
                                          OMPParallelTrans, ACCLoopTrans, ACCParallelTrans, ACCEnterDataTrans)
    from psyclone.psyir.nodes import Loop

    def loops(s):
        return s.walk(Loop)

    def omp_pdo(s):
        DynamoOMPParallelLoopTrans().apply(loops(s)[0])

    def colour_omp_pdo(s):
        Dynamo0p3ColourTrans().apply(loops(s)[0])
        DynamoOMPParallelLoopTrans().apply(loops(s)[1])

    def colour_omp_pdo_outer(s):
        Dynamo0p3ColourTrans().apply(loops(s)[0])
        DynamoOMPParallelLoopTrans().apply(loops(s)[0])

    def omp_do_region(s):
        Dynamo0p3OMPLoopTrans().apply(loops(s)[0])
        OMPParallelTrans().apply(loops(s)[0].parent.parent)

    def colour_omp_do_region(s):
        Dynamo0p3ColourTrans().apply(loops(s)[0])
        Dynamo0p3OMPLoopTrans().apply(loops(s)[1])
        OMPParallelTrans().apply(loops(s)[1].parent.parent)

    def colour_region_around_colours(s):
        Dynamo0p3ColourTrans().apply(loops(s)[0])
        Dynamo0p3OMPLoopTrans().apply(loops(s)[1])
        OMPParallelTrans().apply(loops(s)[0])

    def acc_loop(s):
        ACCLoopTrans().apply(loops(s)[0])
        ACCParallelTrans().apply(loops(s)[0].parent.parent)
        ACCEnterDataTrans().apply(s)

    def colour_acc_loop(s):
        Dynamo0p3ColourTrans().apply(loops(s)[0])
        ACCLoopTrans().apply(loops(s)[1])
        ACCParallelTrans().apply(loops(s)[1].parent.parent)
        ACCEnterDataTrans().apply(s)

    def colour_acc_region_around_colours(s):
        Dynamo0p3ColourTrans().apply(loops(s)[0])
        ACCLoopTrans().apply(loops(s)[1])
        ACCParallelTrans().apply(loops(s)[0])
        ACCEnterDataTrans().apply(s)

    def colour_acc_loop_on_colours(s):
        Dynamo0p3ColourTrans().apply(loops(s)[0])
        ACCLoopTrans().apply(loops(s)[0])
        ACCParallelTrans().apply(loops(s)[0].parent.parent)
        ACCEnterDataTrans().apply(s)
    return {"omp_parallel_do": omp_pdo, "colour+omp_parallel_do": colour_omp_pdo,
            "colour+omp_parallel_do(colours loop)": colour_omp_pdo_outer, "omp_do+parallel": omp_do_region,
            "colour+omp_do+parallel": colour_omp_do_region,
            "colour+omp_do+parallel(around colours)": colour_region_around_colours,
            "acc_loop+parallel": acc_loop, "colour+acc_loop+parallel": colour_acc_loop,
            "colour+acc_loop+parallel(around colours)": colour_acc_region_around_colours,
            "colour+acc_loop(colours loop)+parallel": colour_acc_loop_on_colours}


def cell_term(descr, mapname):
    for d in descr:
        if d[0] == "section" and d[1] == mapname:
            return d[3][0] if d[3] else None
    return None


def race_query(it, kc, loop, written, timeout_ms=20000):
    """two iterations of `loop` (Skolem v, fresh v'), same enclosing iterations: can a written
    argument's footprints intersect?  -> (verdict, model, which)"""
    g, name, descr, lstack, regions = kc
    v = loop["skolem"]
    v2 = z3.Int(str(v) + "_b")
    s = z3.Solver()
    s.set("timeout", timeout_ms)
    for a in list(it.assumptions) + list(it.bound_assumptions):
        s.add(a)
    gB = z3.substitute(g, (v, v2))
    s.add(g, gB, v != v2)
    M = {}
    for fld, mapname, disc in written:
        cA = cell_term(descr, mapname)
        if cA is None:
            continue
        cB = z3.substitute(cA, (v, v2))
        mf = M.setdefault(mapname, z3.Function(f"dofmap_{mapname}", z3.IntSort(), z3.IntSort(), z3.IntSort()))
        df1, df2, k1, k2 = z3.Ints(f"df1_{mapname} df2_{mapname} k1_{mapname} k2_{mapname}")
        a1 = mf(df1, cA) + k1
        a2 = mf(df2, cB) + k2
        axioms = []
        # injectivity of the numbering: distinct iterations of a cell loop are distinct cells; the
        # colour map is injective within a colour
        if cA.eq(v):
            axioms.append(cA != cB)
        sel = _colour_select(cA)
        selB = _colour_select(cB)
        if sel is not None and selB is not None and sel[0].eq(selB[0]) and sel[1].eq(selB[1]):
            # cA = cmap(colour, i), cB = cmap(colour, i'): same colour
            axioms.append(z3.Implies(sel[2] != selB[2], cA != cB))
            axioms.append(z3.Implies(sel[2] != selB[2], a1 != a2))       # cells of one colour share no DoF
        if disc:
            axioms.append(z3.Implies(cA != cB, a1 != a2))                # discontinuous space: no shared DoF
        s.push()
        for ax in axioms:
            s.add(ax)
        s.add(a1 == a2, df1 >= 1, df2 >= 1, k1 >= 0, k2 >= 0)
        r = str(s.check())
        if r == "sat":
            m = s.model()
            s.pop()
            return "sat", m, (fld, mapname, str(cA), str(cB))
        s.pop()
        if r == "unknown":
            return "unknown", None, None
    return "unsat", None, None


def _colour_select(t):
    """(array, colour term, index term) if t = Select(Select(cmap, colour), i)"""
    if z3.is_app(t) and t.decl().kind() == z3.Z3_OP_SELECT:
        inner, i = t.arg(0), t.arg(1)
        if z3.is_app(inner) and inner.decl().kind() == z3.Z3_OP_SELECT and "colour_map" in str(inner.arg(0)):
            return inner.arg(0), inner.arg(1), i
    return None


def work(job):
    from psyclone.parse.algorithm import parse
    from psyclone.psyGen import PSyFactory
    tag, args, seqname, dm = job
    key = {"unit": seqname, "template": tag, "params": {"dm": dm}}
    workdir = tempfile.mkdtemp(prefix="c23_")
    lead = seqname.startswith("lead+")
    fuse = seqname.startswith("fuse+") or lead
    try:
        make_files(workdir, args, twice=fuse and not lead, lead=lead)
        try:
            _, info = parse(os.path.join(workdir, "alg.f90"), api="dynamo0.3")
            psy = PSyFactory("dynamo0.3", distributed_memory=dm).create(info)
        except Exception as e:  # pylint: disable=broad-except
            return [{"key": key, "status": "refused", "why": f"generation: {type(e).__name__}: {e}"[:200]}]
        sched = psy.invokes.invoke_list[0].schedule
        def run_seq():
            if fuse:
                from psyclone.domain.lfric.transformations import LFRicLoopFuseTrans
                from psyclone.psyir.nodes import Loop
                lps = [l for l in sched.children if isinstance(l, Loop)]
                from psyclone.psyir.transformations import TransformationError
                try:
                    LFRicLoopFuseTrans().apply(lps[0], lps[1], {"same_space": True} if lead else None)
                except TransformationError as err:
                    if not (lead and "same_space" in str(err)):
                        raise
                    LFRicLoopFuseTrans().apply(lps[0], lps[1])
            sequences()[seqname[5:] if fuse else seqname](sched)      # ('fuse+' and 'lead+' are 5 characters)
        st, why = tv.safe_apply(run_seq)
        if st == "refused":
            return [{"key": key, "status": "refused", "why": str(why)[:200]}]
        if st == "error":
            return [{"key": key, "status": "psyclone_error", "why": why}]
        try:
            txt = str(psy.gen)
        except Exception as e:  # pylint: disable=broad-except
            nm = type(e).__name__
            if nm in ("GenerationError", "TransformationError", "VisitorError"):
                return [{"key": key, "status": "refused", "why": f"gen: {nm}: {e}"[:200]}]
            return [{"key": key, "status": "psyclone_error", "why": f"gen: {nm}: {e}"[:300]}]
        written_of = {}
        for kern in sched.coded_kernels():
            written = []
            for a in kern.arguments.args:
                if a.access.name in ("INC", "READINC", "WRITE", "READWRITE") and a.is_field:
                    fs = a.function_space.orig_name.lower()
                    if a.access.name == "WRITE" and fs not in DISCONTINUOUS:
                        continue      # GH_WRITE on a continuous space is not an increment (outside the property)
                    written.append((a.name, "map_" + a.function_space.mangled_name, fs in DISCONTINUOUS,
                                    a.access.name, fs))
            written_of[kern.name.lower().replace("_code", "")] = written
    finally:
        shutil.rmtree(workdir, ignore_errors=True)
    out = {"key": key, "nontrivial": True, "h": tv.text_hash(txt), "solver_s": 0.0, "reach": "sat"}
    t0 = time.time()
    try:
        it = LfricInterp(txt, K=1, E=1)
        it.summarise = True
        routine = [r for r in it.routines if r.startswith("invoke")][0]
        it.run(routine)
    except Unsupported as e:
        out.update(status="unsupported", why=str(e))
        return [out]
    if not it.kernel_calls:
        out.update(status="unsupported", why="no kernel call found in the PSy layer")
        return [out]
    verdict, what, model = "unsat", None, None
    nq = 0
    for kc in it.kernel_calls:
        lstack = kc[3]
        written = written_of.get(kc[1].lower(), [])
        for lp in lstack:
            par = lp["directive"] is not None
            if not par:
                continue
            nq += 1
            r, m, which = race_query(it, kc, lp, [(w[0], w[1], w[2]) for w in written])
            if r == "sat":
                wi = [w for w in written if w[0] == which[0]][0]
                verdict, model = "sat", m
                what = (f"parallel loop over '{lp['var']}' ({lp['directive'].split(' default')[0]}): two iterations can "
                        f"write the same element of {which[0]} ({wi[3]} on {wi[4]}); cells {which[2]} / {which[3]}")
                out["key"] = dict(key, params=dict(key["params"], access=wi[3], space=wi[4], loopvar=lp["var"],
                                                   coloured=any(l["var"] == "colour" for l in lstack)))
                break
            if r == "unknown":
                verdict = "unknown"
        if verdict == "sat":
            break
        # second clause: a loop over colours executed inside a parallel region without being workshared
        for lp in lstack:
            if lp["var"] == "colour" and lp["regions"] and lp["directive"] is None:
                verdict = "sat"
                what = f"loop over colours inside a parallel region ({lp['regions'][-1].split(' default')[0]})"
                out["key"] = dict(key, params=dict(key["params"], what="colours loop in region"))
                break
        if verdict == "sat":
            break
    out["solver_s"] = time.time() - t0
    out["nqueries"] = nq
    if verdict != "sat":
        out["status"] = verdict
        return [out]
    # replay: independent structural reading of the emitted text (no solver): the parallel directive sits
    # directly on a loop whose kernel call passes map(:,cell) / the colours loop is inside the region
    ok = structural_replay(txt, out["key"]["params"])
    out["diff"] = what
    out["replay_text"] = f"! {what}\n! written arguments: {written_of}\n" + txt
    out["status"] = "sat_replayed" if ok else ("sat_not_reproduced" if ok is False else "sat_unreplayable")
    return [out]


def structural_replay(txt, params):
    import re
    lines = [l.strip().lower() for l in txt.split("\n")]
    if params.get("what") == "colours loop in region":
        depth = 0
        for l in lines:
            if re.match(r"!\$(omp parallel(?! do)|acc parallel|acc kernels)", l):
                depth += 1
            elif re.match(r"!\$(omp end parallel(?! do)|acc end parallel|acc end kernels)", l):
                depth -= 1
            elif l.startswith("do colour") and depth > 0:
                return True
        return False
    for i, l in enumerate(lines):
        if re.match(r"!\$(omp parallel do|omp do|acc loop)", l):
            j = i + 1
            while j < len(lines) and not lines[j].startswith("do "):
                j += 1
            if j < len(lines) and lines[j].startswith("do " + params.get("loopvar", "cell")):
                body = " ".join(lines[j:j + 6])
                if params.get("coloured") and params.get("loopvar") == "cell":
                    continue
                if "_code(" in body:
                    return True
    return None


def main():
    tier = core.tier()
    chk = core.Check(PROP, "translation_validation",
                     "accepted LFRic colouring/OpenMP/OpenACC sequences on synthesised kernels; the emitted PSy layer is "
                     "executed with summarised loops; for every parallel loop z3 decides whether two distinct "
                     "iterations can write one element of a written field under dofmap axioms (colour / "
                     "discontinuity / injectivity) instantiated at the two cells")
    variants = kernel_variants(tier == "thorough")
    seqs = list(sequences())
    if tier == "thorough":
        seqs += ["fuse+" + q for q in seqs]
    jobs = [(tag, args, sq, dm) for tag, args in variants for sq in seqs for dm in (False, True)]
    # a discontinuous kernel fused in front of the variant (the fused loop takes the leading kernel's space)
    jobs += [(tag, args, "lead+" + sq, False) for tag, args in variants
             for sq in ("omp_parallel_do", "omp_do+parallel", "acc_loop+parallel", "colour+omp_parallel_do")]
    results = core.pmap(work, jobs)
    flat = []
    for r in results:
        flat.extend([r] if isinstance(r, tuple) else r)
    tv.aggregate(chk, flat)
    chk.cov["bounds"] = {"kernels": len(variants), "sequences": len(seqs), "loops": "summarised (all meshes)"}
    chk.cov["rule"] = ("case = (kernel metadata variant, transformation sequence, distributed memory); decided = the "
                       "sequence was accepted and code generated; distinct by hash of the PSy layer")
    from psyclone.domain.common.psylayer import PSyLoop
    from psyclone.transformations import DynamoOMPParallelLoopTrans, Dynamo0p3OMPLoopTrans, Dynamo0p3ColourTrans
    chk.cov["functions_encoded"] = core.src_hash(PSyLoop.has_inc_arg, DynamoOMPParallelLoopTrans, Dynamo0p3OMPLoopTrans,
                                                 Dynamo0p3ColourTrans)
    chk.assumptions += [
        "write footprint of a field argument with INC/READINC/WRITE/READWRITE access = data(map(df,cell)+k) for the "
        "dofmap the generated call passes; dofmaps are uninterpreted",
        "mesh axioms (instantiated at the two cells of the query): cells of one colour share no DoF; a discontinuous "
        "function space shares no DoF between distinct cells; colour map and cell numbering injective",
        "continuity from the function-space name (w3, wtheta, w2broken, any_discontinuous_space_* discontinuous; "
        "everything else, including any_space_*, possibly continuous)",
        "replay = structural reading of the emitted text (directive directly on the cell loop / colours loop inside a region)"]
    return chk.finish()


if __name__ == "__main__":
    core.main_wrapper(main)
