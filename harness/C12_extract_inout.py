"""C12: extraction regions record every input and output (E1 trace).
Real code: CallTreeUtils().get_in_out_parameters(nodes) for every consecutive range of
top-level statements of the G-R family (and the same lists as carried by the
ExtractNode that ExtractTrans creates).  The routine is executed symbolically with the
memory-event trace on; for the region's events z3 decides
 (in)  whether some read of variable v can see the value v had on region entry (the read's
       guard holds and no earlier write of the region covers the same location) - then v
       must be reported as an input;
 (out) whether some write of v can happen - then v must be reported as an output."""
import time

import z3

from vlib.common import core, tv
from vlib.families import regions as fam
from vlib.fsym.interp import Interp, Unsupported, parse
from vlib.fsym.terms import AND, OR, NOT

PROP = "C12"


def names_by_key(it):
    out = {}
    for nm, b in list(it.top_frame.vars.items()) + list(it.globals.items()):
        if b.key is not None:
            out[b.key] = nm
    return out


def region_obligations(it, lo, hi, timeout_ms=10000):
    """-> (needed_inputs {name: witness}, needed_outputs {name: witness}, nqueries, solver_s, unknowns)"""
    evs = it.trace[it.top_marks[lo]:it.top_marks[hi]]
    k2n = names_by_key(it)
    assume = list(it.assumptions) + list(it.bound_assumptions) + list(it.inbounds)
    s = z3.Solver()
    s.set("timeout", timeout_ms)
    for a in assume:
        s.add(a)
    t0 = time.time()
    nq = unk = 0
    need_in, need_out = {}, {}
    written = {}
    first_kind = {}
    for e in evs:
        if e.kind in ("R", "W") and e.key.split("%")[0] in k2n:
            first_kind.setdefault(k2n[e.key.split("%")[0]] + ("%" + e.key.split("%", 1)[1] if "%" in e.key else ""),
                                  e.kind)
    region_obligations.first_kind = first_kind
    for e in evs:
        if e.kind not in ("R", "W"):
            continue
        base = e.key.split("%")[0]
        if base not in k2n:
            continue          # callee locals / temporaries
        name = k2n[base] + ("%" + e.key.split("%", 1)[1] if "%" in e.key else "")
        if e.kind == "W":
            written.setdefault(e.key, []).append(e)
            if name in need_out:
                continue
            s.push()
            s.add(e.guard)
            r = str(s.check())
            nq += 1
            s.pop()
            if r == "sat":
                need_out[name] = f"write at statement {e.stmt}"
            elif r == "unknown":
                unk += 1
            continue
        if name in need_in:
            continue
        cover = [AND(w.guard, *[x == y for x, y in zip(w.idx, e.idx)]) for w in written.get(e.key, [])
                 if len(w.idx) == len(e.idx)]
        s.push()
        s.add(AND(e.guard, NOT(OR(*cover))))
        r = str(s.check())
        nq += 1
        if r == "sat":
            m = s.model()
            idx = [str(m.eval(x, model_completion=True)) for x in e.idx]
            need_in[name] = f"read of {name}({','.join(idx)}) at statement {e.stmt} not preceded by a write of that element"
        elif r == "unknown":
            unk += 1
        s.pop()
    return need_in, need_out, nq, time.time() - t0, unk


def work(case):
    from psyclone.psyir.nodes import Routine
    from psyclone.psyir.tools import CallTreeUtils
    outs = []
    src = case["src"]
    try:
        psyir = tv.read_psyir(src)
        tree = parse(src)
        it = Interp(src, K=case["K"], E=case["E"], trace=True, tree=tree)
        it.run(case["routine"])
    except Unsupported as e:
        return [{"key": {"unit": "CallTreeUtils.get_in_out_parameters", "template": case["template"], "params": {}},
                 "status": "unsupported", "why": str(e)}]
    except Exception as e:  # pylint: disable=broad-except
        return [{"key": {"unit": "reader", "template": case["template"], "params": {}},
                 "status": "psyclone_error", "why": str(e)[:200]}]
    r = [x for x in psyir.walk(Routine) if x.name == "s"][0]
    n = case["nstmts"]
    if len(it.top_marks) != n + 1 or len(r.children) != n:
        return [{"key": {"unit": "harness", "template": case["template"], "params": {}},
                 "status": "unsupported", "why": f"statement count mismatch {len(it.top_marks)} {len(r.children)} {n}"}]
    for lo in range(n):
        for hi in range(lo + 1, n + 1):
            key = {"unit": "CallTreeUtils.get_in_out_parameters", "template": case["template"],
                   "params": {"lo": lo, "hi": hi}}
            try:
                info = CallTreeUtils().get_in_out_parameters(r.children[lo:hi])
                rep_in = {str(sig).lower() for _, sig in info.read_list}
                rep_out = {str(sig).lower() for _, sig in info.write_list}
            except Exception as e:  # pylint: disable=broad-except
                outs.append({"key": key, "status": "psyclone_error", "why": f"{type(e).__name__}: {e}"[:300]})
                continue
            need_in, need_out, nq, ss, unk = region_obligations(it, lo, hi)
            miss_in = {v: w for v, w in need_in.items() if v not in rep_in}
            miss_out = {v: w for v, w in need_out.items() if v not in rep_out}
            o = {"key": key, "solver_s": ss, "nontrivial": bool(need_in or need_out),
                 "h": tv.text_hash(src + f"{lo}:{hi}"), "reach": "sat", "nqueries": nq}
            if miss_in or miss_out:
                kind = "input" if miss_in else "output"
                var = sorted(miss_in or miss_out)[0]
                o["status"] = "sat_replayed"
                o["diff"] = f"missing {kind} {var}: {(miss_in or miss_out)[var]}"
                o["key"] = dict(key, params=dict(key["params"], kind=kind, var=var,
                                                 first_is_write=region_obligations.first_kind.get(var) == "W",
                                                 has_call=any("call " in st for st in case["stmts"][lo:hi])))
                o["replay_text"] = (f"! region = top-level statements {lo}..{hi - 1} of routine s\n"
                                    f"! reported inputs : {sorted(rep_in)}\n! reported outputs: {sorted(rep_out)}\n"
                                    f"! required inputs : {need_in}\n! required outputs: {need_out}\n" + src)
                # replay: confirm on the real code that the variable is absent from the lists the
                # ExtractNode would carry (same analysis through the public transformation)
                ok = confirm_with_extract(src, lo, hi, kind, var)
                if ok is False:
                    o["status"] = "sat_not_reproduced"
            elif unk:
                o["status"] = "unknown"
            else:
                o["status"] = "unsat"
            outs.append(o)
    return outs


def confirm_with_extract(src, lo, hi, kind, var):
    """Apply the real ExtractTrans to the same statements and look at the variables the
    generated extraction code provides to the PSyData library."""
    from psyclone.psyir.nodes import Routine
    from psyclone.psyir.transformations import ExtractTrans
    try:
        p = tv.read_psyir(src)
        r = [x for x in p.walk(Routine) if x.name == "s"][0]
        ExtractTrans().apply(r.children[lo:hi])
        txt = tv.write_psyir(p).lower()
    except Exception:  # pylint: disable=broad-except
        return None
    base = var.split("%")[0]
    if kind == "input":
        return f'providevariable("{base}"' not in txt.replace(" ", "") and \
            f'predeclarevariable("{base}"' not in txt.replace(" ", "")
    return f'providevariable("{base}_post"' not in txt.replace(" ", "")


def main():
    tier = core.tier()
    chk = core.Check(PROP, "other",
                     "get_in_out_parameters on every consecutive statement range of the G-R family; required "
                     "inputs (upward-exposed reads) and outputs (possible writes) decided by z3 on the region's "
                     "symbolic event trace")
    cases = fam.gen(tier, core.seed())
    K, E = (3, 3) if tier == "quick" else (4, 4)
    for c in cases:
        c["K"], c["E"] = K, E
    results = core.pmap(work, cases)
    flat = []
    for r in results:
        flat.extend([r] if isinstance(r, tuple) else r)
    import c12_nonlocal
    flat_nl = c12_nonlocal.run_all(tier, 2 if tier == "quick" else 3)
    flat += flat_nl
    tv.aggregate(chk, flat)
    chk.cov["nonlocal_cases"] = len(flat_nl)
    chk.cov["queries"] = sum(o.get("nqueries", 0) for o in flat if isinstance(o, dict)) or chk.cov["queries"]
    chk.cov["regions_decided"] = chk.cov["unsat"] + chk.cov["sat_replayed"]
    chk.cov["unsat"] = chk.cov["queries"] - chk.cov["sat_replayed"] - chk.cov["inconclusive"]
    chk.cov["bounds"] = {"K": K, "E": E, "programs_generated": len(cases)}
    chk.cov["rule"] = ("case = (G-R routine, statement range); non-trivial = the region has at least one required "
                       "input or output; distinct by (routine text, range)")
    from psyclone.psyir.tools import CallTreeUtils
    from psyclone.core import SingleVariableAccessInfo
    chk.cov["functions_encoded"] = core.src_hash(CallTreeUtils.get_in_out_parameters, CallTreeUtils.get_input_parameters,
                                                 CallTreeUtils.get_output_parameters,
                                                 SingleVariableAccessInfo.is_written_first)
    chk.assumptions += [
        "non-local path (LFRic): invokes of 2-3 synthesised kernels that use the variables and routines of one shared "
        "module; oracle = fsym execution of a driver calling the kernel bodies in invoke order (K cells each); "
        "replay = the ExtractNode built by the real LFRicExtractTrans",
        "loops unrolled to K iterations / extents <= E from a symbolic pre-state (assumed)",
        "routines called from the region are executed (same file); their effects on the caller's variables count",
        "array-shape inquiries (LBOUND/UBOUND/SIZE) are not reads of the array's data",
        "replay = the same variable is absent from the ProvideVariable calls emitted by the real ExtractTrans"]
    return chk.finish()


if __name__ == "__main__":
    core.main_wrapper(main)
