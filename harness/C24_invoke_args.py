"""C24: generated algorithm and PSy layers agree on invoke arguments (E1, two-sided symbolic execution).
Real code: psyclone.generator.generate (parse.algorithm, PSyFactory/LFRicInvoke unique argument
lists, Alg.gen call rewriting) on synthesised LFRic algorithm modules whose invokes mix user
kernels and built-ins with repeated, case-varied, spaced, array-element, structure-component
and literal arguments, named and unnamed, distributed memory on and off.
G side: the GENERATED algorithm layer and the GENERATED PSy module are concatenated and executed
   by fsym from the algorithm routine: the rewritten `call invoke_*` statements are real calls into
   the PSy routines; built-ins are the inline loops PSyclone emitted; a user kernel call
   `k_code(nlayers, args..)` updates each written field argument to an uninterpreted function
   K_<kernel>_<position>(all argument values).
R side: the ORIGINAL algorithm source is executed by the same front end with `call invoke(...)`
   interpreted directly from its text: for each kernel/built-in in order, the documented effect
   (same uninterpreted K for kernels, the documented formula for built-ins) on the objects the
   actual arguments denote.
z3 decides whether any field or scalar of the algorithm routine can end with different contents
on the two sides (all inputs, all kernel functions).  Statically, on the generated text: every
PSy routine has pairwise distinct dummy names, every call passes as many actuals as the routine
declares, and no `invoke` call is left in the algorithm layer.
Replay: the generated code is re-run by fsym in concrete mode (fixed inputs, an injective concrete
kernel function) and compared with a plain-Python evaluation of the original invokes."""
import itertools
import os
import random
import re
import shutil
import tempfile
import time
from fractions import Fraction

import z3
from fparser.two import Fortran2003 as F

from vlib.common import core, tv
from vlib.fsym.interp import Unsupported, lname
from vlib.fsym.lfric import LfricInterp

PROP = "C24"
K = 2

# kernel metadata: name -> [(kind, access, space)]
KERNELS = {
    "ka": [("scalar", "gh_read", None), ("field", "gh_inc", "w1"), ("field", "gh_read", "w2")],
    "kb": [("field", "gh_readwrite", "w3"), ("field", "gh_read", "w3"), ("scalar", "gh_read", None)],
    "kc": [("field", "gh_write", "w3"), ("field", "gh_inc", "w2"), ("field", "gh_read", "w1"),
           ("scalar", "gh_read", None)],
    # kernels with an evaluator: one basis function on w1 and a quadrature object of the given shape
    "kq": [("field", "gh_inc", "w1"), ("field", "gh_read", "w2"), ("qr", "gh_quadrature_XYoZ", None)],
    "kf": [("field", "gh_inc", "w1"), ("field", "gh_read", "w2"), ("qr", "gh_quadrature_face", None)],
}
# built-ins: name -> (arg kinds, written position, formula over argument values at one DoF)
BUILTINS = {
    "setval_c": ("fs", 0, lambda v: v[1]),
    "setval_x": ("ff", 0, lambda v: v[1]),
    "x_plus_y": ("fff", 0, lambda v: v[1] + v[2]),
    "inc_x_plus_y": ("ff", 0, lambda v: v[0] + v[1]),
    "x_minus_y": ("fff", 0, lambda v: v[1] - v[2]),
    "a_plus_x": ("fsf", 0, lambda v: v[1] + v[2]),
    "inc_a_plus_x": ("sf", 1, lambda v: v[0] + v[1]),
    "a_times_x": ("fsf", 0, lambda v: v[1] * v[2]),
    "inc_a_times_x": ("sf", 1, lambda v: v[0] * v[1]),
    "ax_plus_y": ("fsff", 0, lambda v: v[1] * v[2] + v[3]),
    "inc_ax_plus_y": ("sff", 1, lambda v: v[0] * v[1] + v[2]),
    "x_minus_a": ("ffs", 0, lambda v: v[1] - v[2]),
    "sum_x": ("sf", 0, None),        # reduction: s = sum(f)
}
WRITES = ("gh_inc", "gh_write", "gh_readwrite", "gh_readinc")

KERNEL_SRC = """module {name}_mod
  use argument_mod
  use fs_continuity_mod
  use kernel_mod
  use constants_mod
  implicit none
  type, extends(kernel_type) :: {name}_type
     type(arg_type), dimension({n}) :: meta_args = (/ &
{args}
          /)
{funcs}     integer :: operates_on = cell_column
   contains
     procedure, nopass :: code => {name}_code
  end type {name}_type
contains
  subroutine {name}_code()
  end subroutine {name}_code
end module {name}_mod
"""

ALG_HEAD = """module alg_mod
  use constants_mod, only: r_def, i_def
  use field_mod, only: field_type
  use ka_mod, only: ka_type
  use kb_mod, only: kb_type
  use kc_mod, only: kc_type
  use kq_mod, only: kq_type
  use kf_mod, only: kf_type
  use quadrature_xyoz_mod, only: quadrature_xyoz_type
  use quadrature_face_mod, only: quadrature_face_type
  implicit none
  type :: inner_type
    type(field_type) :: h1
    real(r_def) :: d
  end type inner_type
  type :: state_type
    type(field_type) :: g1, g2
    real(r_def) :: b, c
    type(inner_type) :: inner
    type(quadrature_xyoz_type) :: qr
  end type state_type
contains
  subroutine alg(f1, f2, f3, f4, fv, a, b, st, qr_a, qr_b, qrf, qrg)
    type(field_type), intent(inout) :: f1, f2, f3, f4
    type(field_type), intent(inout) :: fv(3)
    real(r_def), intent(inout) :: a, b
    type(state_type), intent(inout) :: st
    type(quadrature_xyoz_type), intent(in) :: qr_a, qr_b
    type(quadrature_face_type), intent(in) :: qrf, qrg
    integer :: i
    i = 2
"""
ALG_TAIL = """  end subroutine alg
end module alg_mod
"""


def write_kernels(workdir):
    for name, meta in KERNELS.items():
        lines = []
        data = [m for m in meta if m[0] != "qr"]
        qrs = [m for m in meta if m[0] == "qr"]
        for i, (kind, acc, sp) in enumerate(data):
            t = (f"arg_type(gh_scalar, gh_real, {acc})" if kind == "scalar" else
                 f"arg_type(gh_field, gh_real, {acc}, {sp})")
            lines.append(f"          {t}{',' if i < len(data) - 1 else ''} &")
        funcs = ""
        if qrs:
            funcs = ("     type(func_type), dimension(1) :: meta_funcs = (/ func_type(w1, gh_basis) /)\n"
                     f"     integer :: gh_shape = {qrs[0][1]}\n")
        with open(os.path.join(workdir, f"{name}_mod.f90"), "w", encoding="utf-8") as fh:
            fh.write(KERNEL_SRC.format(name=name, n=len(data), args="\n".join(lines), funcs=funcs))


# ---------------------------------------------------------------- the family of algorithm files
# an invoke = (call keyword spelling, [call texts], name or None)
HAND = {
    "single": [("call invoke", ["ka_type(a, f1, f2)"], None)],
    "swap_in_one": [("call invoke", ["ka_type(a, f1, f2)", "ka_type(a, f2, f1)"], None)],
    "mixed_named": [("call invoke", ["ka_type(A, F1, f2)", "setval_c(f1, 1.5_r_def)", "x_plus_y(f2, st%g1, fv(2))"],
                     "first"),
                    ("call invoke", ["inc_a_times_x(st%b, f1)", "kb_type(f3, f1, 2.0_r_def)"], None)],
    "upper_then_lower": [("CALL INVOKE", ["setval_c(f1, 0.0_r_def)"], None),
                         ("call invoke", ["ka_type(b, f2, f1)"], None)],
    "lower_upper_lower": [("call invoke", ["setval_x(f3, f1)"], None),
                          ("Call Invoke", ["ka_type(b, f2, f1)"], None),
                          ("call invoke", ["kb_type(f3, f4, a)", "inc_x_plus_y(f1, f3)"], None)],
    "vector_elems": [("call invoke", ["kc_type(fv(1), fv(2), fv(3), a)"], None),
                     ("call invoke", ["kc_type(FV(2), fv( 1 ), st % g1, st%c)"], None)],
    "builtin_order": [("call invoke", ["setval_x(f1, f2)", "setval_x(f2, f3)", "setval_x(f3, f1)"], None)],
    "literals": [("call invoke", ["setval_c(f1, 1.0_r_def)", "setval_c(f2, 1.0_r_def)", "setval_c(f3, 2.0_r_def)"],
                  None)],
    "kernel_literals": [("call invoke", ["ka_type(1.0_r_def, f1, f2)", "ka_type(2.0_r_def, f2, f3)"], None)],
    "two_named": [("call invoke", ["ka_type(a, f1, f2)"], "alpha"), ("call invoke", ["ka_type(b, f2, f1)"], "Beta")],
    "nested_struct": [("call invoke", ["kb_type(st%inner%h1, st%g2, st%inner%d)", "setval_x(f1, st % inner % h1)"],
                       None)],
    "index_variable": [("call invoke", ["ka_type(a, fv(i), fv(1))", "setval_x(f1, fv(I))"], None)],
    "same_kernel_same_literal": [("call invoke", ["kb_type(f1, f2, 1.0_r_def)", "kb_type(f3, f2, 1.0_r_def)"], None)],
    "axpy": [("call invoke", ["aX_plus_Y(f3, a, f1, f2)", "inc_aX_plus_Y(b, f1, f3)", "X_minus_a(f4, f1, 0.5_r_def)"],
              None)],
    "spacing": [("call invoke", ["ka_type( a ,f1,  f2 )", "inc_X_plus_Y( ST % G1 ,FV( 2 ) )"], None)],
    "sum_then_use": [("call invoke", ["sum_X(a, f1)"], None), ("call invoke", ["a_times_X(f2, a, f1)"], None)],
    "scalar_components": [("call invoke", ["a_plus_X(f1, st%b, f2)", "inc_a_plus_X(ST%C, f2)",
                                           "ka_type(st%inner%d, st%g1, f2)"], "comps")],
    "qr_interleaved": [("call invoke", ["kq_type(f1, f2, qr_a)", "kf_type(f2, f3, qrf)", "kq_type(f3, f1, qr_b)"], None)],
    "qr_repeated": [("call invoke", ["kq_type(f1, f2, qr_a)", "kq_type(f3, f2, QR_A)", "kf_type(f4, f1, qrg)",
                                     "kf_type(f2, f1, qrf)"], "quads"),
                    ("call invoke", ["kq_type(f1, f3, st%qr)", "setval_c(f2, 1.0_r_def)", "kq_type(f2, f3, qr_b)"], None)],
    "four_invokes": [("call invoke", ["setval_c(f1, 1.0_r_def)"], None), ("call invoke", ["setval_c(f2, 2.0_r_def)"],
                                                                         "two"),
                     ("call invoke", ["x_plus_y(f3, f1, f2)"], None), ("call invoke", ["kb_type(f4, f3, a)"], None)],
}

FIELD_POOL = ["f1", "F1", "f2", "f3", "f4", "st%g1", "ST % G1", "st%g2", "fv(1)", "fv(2)", "FV( 2 )", "fv(3)",
              "st%inner%h1", "fv(i)"]
SCALAR_POOL = ["a", "A", "b", "st%b", "st%c", "ST%C", "st%inner%d", "1.0_r_def", "2.0_r_def", "0.5_r_def", "1.0_r_def"]
QR_POOL = {"gh_quadrature_XYoZ": ["qr_a", "qr_b", "QR_A", "st%qr", "qr_b"], "gh_quadrature_face": ["qrf", "qrg", "QRF"]}
KEYWORDS = ["call invoke", "call invoke", "call invoke", "CALL INVOKE", "Call Invoke", "call  invoke"]


def canon(t):
    t = t.lower().replace(" ", "")
    return "fv(2)" if t == "fv(i)" else t


def random_cases(n, seed):
    rnd = random.Random(seed)
    out = {}
    names = list(KERNELS) + [b for b in BUILTINS if b != "sum_x"] + ["sum_x"]
    for c in range(n):
        invokes = []
        for _ in range(rnd.choice([1, 2, 2, 3])):
            calls = []
            for _ in range(rnd.choice([1, 2, 3])):
                nm = rnd.choice(names)
                kinds = [k[0][0] for k in KERNELS[nm]] if nm in KERNELS else list(BUILTINS[nm][0])
                shapes = [k[1] for k in KERNELS[nm]] if nm in KERNELS else []
                wpos = ([i for i, k in enumerate(KERNELS[nm]) if k[1] in WRITES] if nm in KERNELS
                        else [BUILTINS[nm][1]])
                args, used = [], set()
                for i, k in enumerate(kinds):
                    for _ in range(20):
                        t = rnd.choice(FIELD_POOL if k == "f" else (QR_POOL[shapes[i]] if k == "q" else SCALAR_POOL))
                        if k == "s" and i in wpos and t[0].isdigit():
                            continue
                        if canon(t) not in used:
                            break
                    used.add(canon(t))
                    args.append(t)
                spell = nm + "_type" if nm in KERNELS else rnd.choice([nm, nm.upper(), nm.replace("x", "X")])
                calls.append(f"{spell}({', '.join(args)})")
            invokes.append((rnd.choice(KEYWORDS), calls, rnd.choice([None, None, f"nm{c}_{len(invokes)}"])))
        out[f"rnd{seed}_{c}"] = invokes
    return out


def alg_text(invokes):
    body = []
    for kw, calls, name in invokes:
        items = list(calls) + ([f'name="{name}"'] if name else [])
        body.append(f"    {kw}( " + ", &\n                 ".join(items) + " )")
    return ALG_HEAD + "\n".join(body) + "\n" + ALG_TAIL


# ---------------------------------------------------------------- shared semantics of a kernel
def kernel_uf(name, pos, vals):
    return z3.Function(f"K_{name}_{pos}", *[v.sort() for v in vals], vals[pos].sort())


def apply_kernel(it, name, vals, keys, g):
    meta = [m for m in KERNELS[name] if m[0] != "qr"]
    new = {}
    for pos, (kind, acc, _) in enumerate(meta):
        if kind == "field" and acc in WRITES:
            new[pos] = kernel_uf(name, pos, vals)(*vals)
    for pos, v in new.items():
        it.store[keys[pos]] = z3.If(g, v, it.store[keys[pos]])


def qr_token(okey):
    return z3.Int("id_" + okey)


def g_kernel_effect(it, name, args, frame, g):
    if name not in KERNELS:
        raise Unsupported("kernel " + name)
    meta = KERNELS[name]
    vals, keys = [], []
    if any(m[0] == "qr" for m in meta):
        # the quadrature object a kernel works with = the object whose weights / evaluator arrays it is given
        wobj, bobj = [], []
        for node in args:
            b = it.lookup(lname(node), frame) if isinstance(node, F.Name) else None
            if b is None or not b.key:
                continue
            if "%weights" in b.key:
                wobj.append(b.key.split("%weights")[0])
            elif b.key in it.basis_of:
                bobj.append(it.basis_of[b.key])
        if not wobj or not bobj or len(set(wobj)) != 1:
            raise Unsupported("quadrature arguments of " + name)
        qvals = [qr_token(wobj[0]), qr_token(bobj[0])]
    else:
        qvals = []
    data = [m for m in meta if m[0] != "qr"]
    for (kind, _, _), node in zip(data, args[1:1 + len(data)]):
        if kind == "field":
            b = it.lookup(lname(node), frame) if isinstance(node, F.Name) else None
            if b is None or b.rank != 1:
                raise Unsupported("kernel field argument " + str(node))
            vals.append(it.store[b.key])
            keys.append(b.key)
        else:
            vals.append(z3.ToReal(v) if (v := it.ev_scalar(node, frame, g)).sort() == z3.IntSort() else v)
            keys.append(None)
    apply_kernel(it, name, vals + qvals, keys + [None] * len(qvals), g)


class RefInterp(LfricInterp):
    """the original algorithm layer with `call invoke` interpreted from its text"""

    def __init__(self, *a, dm=False, **kw):
        super().__init__(*a, **kw)
        self.dm = dm
        self.extern_handler = self._ref_call
        self.invokes_seen = 0

    def _field(self, node, frame, g):
        act = self._actual(node, frame, g)
        if act is None or act[0] != "struct":
            raise Unsupported("field actual " + str(node))
        key = act[1].key + "%data"
        if key not in self.store:
            self.new_storage(key, "real", 1, is_input=True)
        return act[1].key, key

    def _dof_range(self, okey):
        return self.fint(okey, "owned" if self.dm else "undf")

    @staticmethod
    def _ref_call(self, name, args, frame, g):
        if name != "invoke":
            return False
        self.invokes_seen += 1
        for a in args:
            if isinstance(a, (F.Actual_Arg_Spec, F.Component_Spec)):
                continue                    # name="..."
            if isinstance(a, F.Part_Ref):
                cname, cargs = lname(a.items[0]), a.items[1]
            elif isinstance(a, (F.Structure_Constructor, F.Function_Reference)):
                cname, cargs = str(a.items[0]).lower(), a.items[1]
            else:
                raise Unsupported("invoke argument " + type(a).__name__)
            cargs = [] if cargs is None else (list(cargs.items) if hasattr(cargs, "items") and
                                              not isinstance(cargs, (F.Name, F.Data_Ref, F.Part_Ref)) else [cargs])
            cargs = [c.items[1] if isinstance(c, F.Component_Spec) else c for c in cargs]
            # inside a structure constructor fparser2 reads `a%b` as a procedure component reference
            cargs = [F.Data_Ref(str(c)) if isinstance(c, F.Proc_Component_Ref) else c for c in cargs]
            if cname.endswith("_type") and cname[:-5] in KERNELS:
                kname = cname[:-5]
                vals, keys = [], []
                qvals = []
                for (kind, _, _), node in zip(KERNELS[kname], cargs):
                    if kind == "qr":
                        act = self._actual(node, frame, g)
                        if act is None or act[0] != "struct":
                            raise Unsupported("quadrature actual " + str(node))
                        qvals = [qr_token(act[1].key)] * 2
                    elif kind == "field":
                        _, key = self._field(node, frame, g)
                        vals.append(self.store[key])
                        keys.append(key)
                    else:
                        v = self.ev_scalar(node, frame, g)
                        vals.append(z3.ToReal(v) if v.sort() == z3.IntSort() else v)
                        keys.append(None)
                apply_kernel(self, kname, vals + qvals, keys + [None] * len(qvals), g)
            elif cname in BUILTINS:
                kinds, wpos, formula = BUILTINS[cname]
                objs = []
                for k, node in zip(kinds, cargs):
                    objs.append(self._field(node, frame, g) if k == "f" else node)
                first_field = [o for k, o in zip(kinds, objs) if k == "f"][0]
                rng = self._dof_range(first_field[0])
                self.bound_assumptions.append(rng <= K)
                if formula is None:         # sum_x(s, f)
                    arr = self.store[objs[1][1]]
                    tot = z3.RealVal(0)
                    for d in range(1, K + 1):
                        tot = tot + z3.If(d <= rng, z3.Select(arr, d), z3.RealVal(0))
                    lref = self.lvalue(objs[0], frame, g)
                    self.write(lref[1], lref[2], tot, g)
                else:
                    svals = [None if k == "f" else self.ev_scalar(o, frame, g) for k, o in zip(kinds, objs)]
                    wkey = objs[wpos][1]
                    arr = self.store[wkey]
                    pre = [self.store[o[1]] if k == "f" else None for k, o in zip(kinds, objs)]
                    for d in range(1, K + 1):
                        v = [z3.Select(pre[i], d) if k == "f" else svals[i] for i, k in enumerate(kinds)]
                        v = [z3.ToReal(x) if x.sort() == z3.IntSort() else x for x in v]
                        arr = z3.Store(arr, d, z3.If(z3.And(g, d <= rng), formula(v), z3.Select(arr, d)))
                    self.store[wkey] = arr
            else:
                raise Unsupported("invoke of " + cname)
        return True


# ---------------------------------------------------------------- static checks on the generated text
def static_checks(alg_gen, psy_gen):
    bad = []
    low = alg_gen.lower()
    if re.search(r"call\s+invoke\s*\(", low):
        bad.append("an `invoke` call is left in the generated algorithm layer")
    routines = {}
    for m in re.finditer(r"^\s*subroutine\s+(\w+)\s*\(([^)]*)\)", re.sub(r"&\s*\n\s*&?", "", psy_gen),
                         re.I | re.M):
        dummies = [d.strip().lower() for d in m.group(2).split(",") if d.strip()]
        routines[m.group(1).lower()] = dummies
        if len(set(dummies)) != len(dummies):
            bad.append(f"PSy routine {m.group(1)} declares a dummy argument twice: {dummies}")
    flat = re.sub(r"&\s*\n\s*&?", "", alg_gen)
    for m in re.finditer(r"^\s*call\s+(invoke_\w+)\s*\((.*)\)\s*$", flat, re.I | re.M):
        nm = m.group(1).lower()
        nact = len(split_top(m.group(2)))
        if nm not in routines:
            bad.append(f"generated call to {nm} has no PSy routine")
        elif nact != len(routines[nm]):
            bad.append(f"call to {nm} passes {nact} arguments, the routine declares {len(routines[nm])}")
    return bad


def split_top(s):
    out, depth, cur = [], 0, ""
    for ch in s:
        if ch == "(":
            depth += 1
        elif ch == ")":
            depth -= 1
        if ch == "," and depth == 0:
            out.append(cur.strip())
            cur = ""
        else:
            cur += ch
    if cur.strip():
        out.append(cur.strip())
    return out


# ---------------------------------------------------------------- the decision
def unify(its):
    """all fields live on one mesh with one cell column and one DoF count (LFRic rule: the fields
    of a built-in share a function space; kernel data flow does not depend on the number of cells)"""
    cons = []
    groups = {}
    for it in its:
        for (okey, what), v in it.field_ints.items():
            groups.setdefault(what, []).append(v)
    for what, vs in groups.items():
        if what in ("ncell", "last_edge_cell", "last_halo_cell"):
            cons += [v == 1 for v in vs]
        elif what in ("undf", "owned", "annexed"):
            cons += [v == vs[0] for v in vs[1:]]
            cons.append(vs[0] <= K)
    return cons


def observables(ig, ir):
    keys = set()
    for it in (ig, ir):
        for k, (tname, rank) in it.meta.items():
            if k.startswith("in_") and tname in ("real", "integer") and k in it.store:
                if k.endswith("%data") or (rank == 0 and "%get_" not in k and "%mesh" not in k):
                    keys.add(k)
    for k in keys:
        for it, other in ((ig, ir), (ir, ig)):
            if k not in it.store:
                t, r = other.meta[k]
                it.new_storage(k, t, r, is_input=True)
    return sorted(keys)


def run_sides(alg_src, alg_gen, psy_gen, dm, concrete=None):
    ig = LfricInterp(psy_gen + "\n" + alg_gen, K=K, E=K)
    ig.kernel_effect = concrete["g_effect"] if concrete else g_kernel_effect
    if concrete:
        ig.concrete_inputs = concrete["inputs"]
        for k, v in concrete["ints"].items():
            ig.field_ints[k] = v
    ig.run("alg")
    if concrete:
        return ig, None
    ir = RefInterp(alg_src, K=K, E=K, dm=dm)
    ir.run("alg")
    return ig, ir


def decide(alg_src, alg_gen, psy_gen, dm, timeout_ms=60000):
    ig, ir = run_sides(alg_src, alg_gen, psy_gen, dm)
    keys = observables(ig, ir)
    s = z3.Solver()
    s.set("timeout", timeout_ms)
    for it in (ig, ir):
        for a in list(it.assumptions) + list(it.bound_assumptions):
            s.add(a)
    for c in unify([ig, ir]):
        s.add(c)
    # reachability twin: the assumptions are satisfiable with at least one DoF
    und = [v for it in (ig, ir) for (o, w), v in it.field_ints.items() if w in ("undf", "owned")]
    s.push()
    for v in und:
        s.add(v >= 1)
    reach = str(s.check())
    s.pop()
    diffs = []
    for k in keys:
        a, b = ig.store[k], ir.store[k]
        if a.sort() != b.sort():
            return "sat", None, [k], f"{k}: different types on the two sides", reach, ig, ir
        diffs.append(a != b)
    s.add(z3.Or(*diffs) if diffs else z3.BoolVal(False))
    r = str(s.check())
    if r != "sat":
        return r, None, [], None, reach, ig, ir
    m = s.model()
    which = [k for k, d in zip(keys, diffs) if z3.is_true(m.eval(d, model_completion=True))]
    return "sat", m, which, None, reach, ig, ir


# ---------------------------------------------------------------- concrete replay
def conc_kernel(name, pos, vals):
    """injective-looking concrete kernel: element d of output `pos` = 1000*(pos+1)+h(name) + sum_i (i+2)^2 * in_i[d]"""
    h = sum(ord(c) for c in name)

    def at(d):
        tot = Fraction(1000 * (pos + 1) + h)
        for i, v in enumerate(vals):
            tot += (i + 2) ** 2 * (v[d] if isinstance(v, list) else v)
        return tot
    return [at(d) for d in range(K)]


def num(t):
    v = z3.simplify(t)
    if z3.is_int_value(v):
        return Fraction(v.as_long())
    if z3.is_rational_value(v):
        return Fraction(v.numerator_as_long(), v.denominator_as_long())
    raise ValueError(str(v)[:80])


def arr_const(vals):
    a = z3.K(z3.IntSort(), z3.RealVal(0))
    for d, v in enumerate(vals):
        a = z3.Store(a, d + 1, z3.RealVal(str(v)))
    return a


def replay(invokes, alg_gen, psy_gen, dm, ig, ir, model):
    fields = {}
    scalars = {}
    ndof = K
    keys = sorted(set(ig.inputs) | set(ir.inputs))
    fi = 0
    for k in keys:
        if k.endswith("%data"):
            fi += 1
            fields[k] = [Fraction(10 * fi + d + 1) for d in range(K)]
        elif k.startswith("in_") and "%get_" not in k and "ext_" not in k:
            meta = ig.meta.get(k) or ir.meta.get(k)
            if meta and meta[1] == 0 and meta[0] == "real":
                scalars[k] = Fraction(3 + len(scalars), 2)
    conc_in = {k: arr_const(v) for k, v in fields.items()}
    conc_in.update({k: z3.RealVal(str(v)) for k, v in scalars.items()})
    ints = {}
    for it in (ig, ir):
        for (okey, what), v in it.field_ints.items():
            ints[(okey, what)] = z3.IntVal(1 if what in ("ncell", "last_edge_cell", "last_halo_cell", "halo_depth")
                                           else ndof)

    qid = {"in_qr_a": 1, "in_qr_b": 2, "in_st%qr": 3, "in_qrf": 4, "in_qrg": 5}

    def g_effect(it, name, args, frame, g):
        meta = [m for m in KERNELS[name] if m[0] != "qr"]
        vals, ks = [], []
        qv = []
        if len(meta) != len(KERNELS[name]):
            wobj, bobj = [], []
            for node in args:
                b = it.lookup(lname(node), frame) if isinstance(node, F.Name) else None
                if b is None or not b.key:
                    continue
                if "%weights" in b.key:
                    wobj.append(b.key.split("%weights")[0])
                elif b.key in it.basis_of:
                    bobj.append(it.basis_of[b.key])
            qv = [Fraction(qid[wobj[0]]), Fraction(qid[bobj[0]])]
        for (kind, _, _), node in zip(meta, args[1:1 + len(meta)]):
            if kind == "field":
                b = it.lookup(lname(node), frame)
                vals.append([num(z3.Select(it.store[b.key], d + 1)) for d in range(K)])
                ks.append(b.key)
            else:
                vals.append(num(it.ev_scalar(node, frame, g)))
                ks.append(None)
        if not z3.is_true(z3.simplify(g)):
            if z3.is_false(z3.simplify(g)):
                return
            raise Unsupported("guard not concrete in replay")
        for pos, (kind, acc, _) in enumerate(meta):
            if kind == "field" and acc in WRITES:
                it.store[ks[pos]] = arr_const(conc_kernel(name, pos, vals + qv))
    try:
        igc, _ = run_sides(None, alg_gen, psy_gen, dm, concrete={"g_effect": g_effect, "inputs": conc_in, "ints": ints})
    except (Unsupported, ValueError) as e:
        return None, f"concrete run failed: {e}"
    # plain-Python reference over the canonical argument texts
    st = {}

    def fkey(t):
        t = canon(t)
        t = re.sub(r"\((\d+)\)", r"[\1]", t)
        return f"in_{t}%data"

    def fget(t):
        return st.setdefault(fkey(t), list(fields.get(fkey(t), [Fraction(0)] * K)))

    def sget(t):
        t2 = canon(t)
        if re.match(r"^[0-9.]", t2):
            return Fraction(t2.split("_")[0])
        return st.setdefault("in_" + t2, scalars.get("in_" + t2, Fraction(0)))
    for _, calls, _ in invokes:
        for c in calls:
            nm, rest = c.split("(", 1)
            nm = nm.strip().lower()
            args = split_top(rest.rsplit(")", 1)[0])
            if nm.endswith("_type"):
                kn = nm[:-5]
                vals = [list(fget(a)) if k[0] == "field" else sget(a) for k, a in zip(KERNELS[kn], args)
                        if k[0] != "qr"]
                for k, a in zip(KERNELS[kn], args):
                    if k[0] == "qr":
                        vals += [Fraction(qid["in_" + canon(a)])] * 2
                for pos, (kind, acc, _) in enumerate(KERNELS[kn]):
                    if kind == "field" and acc in WRITES:
                        st[fkey(args[pos])] = conc_kernel(kn, pos, vals)
            else:
                kinds, wpos, formula = BUILTINS[nm]
                if formula is None:
                    st["in_" + canon(args[0])] = sum(fget(args[1]))
                else:
                    pre = [list(fget(a)) if k == "f" else sget(a) for k, a in zip(kinds, args)]
                    out = [formula([p[d] if isinstance(p, list) else p for p in pre]) for d in range(K)]
                    st[fkey(args[wpos])] = out
    bad = []
    try:
        for k in sorted(set(list(st) + list(fields) + list(scalars))):
            if k.endswith("%data"):
                exp = st.get(k, fields.get(k))
                got = [num(z3.Select(igc.store[k], d + 1)) for d in range(K)] if k in igc.store else fields.get(k)
            else:
                exp = st.get(k, scalars.get(k))
                got = num(igc.store[k]) if k in igc.store else scalars.get(k)
            if exp != got:
                bad.append((k, [str(x) for x in got] if isinstance(got, list) else str(got),
                            [str(x) for x in exp] if isinstance(exp, list) else str(exp)))
    except ValueError as e:
        return None, f"concrete state not numeric: {e}"
    return bool(bad), f"! concrete replay, mismatches (object, generated code, original invokes): {bad[:6]}"


# ---------------------------------------------------------------- worker
def work(job):
    from psyclone.generator import generate
    from psyclone.configuration import Config
    tag, invokes, dm = job
    key = {"unit": "generate", "template": tag, "params": {"dm": dm}}
    workdir = tempfile.mkdtemp(prefix="c24_")
    src = alg_text(invokes)
    try:
        write_kernels(workdir)
        path = os.path.join(workdir, "alg_mod.f90")
        with open(path, "w", encoding="utf-8") as fh:
            fh.write(src)
        Config.get().api_conf("lfric")._compute_annexed_dofs = False
        try:
            alg_gen, psy_gen = generate(path, api="dynamo0.3", kernel_paths=[workdir], distributed_memory=dm)
            alg_gen, psy_gen = str(alg_gen), str(psy_gen)
        except Exception as e:  # pylint: disable=broad-except
            nm = type(e).__name__
            if nm in ("GenerationError", "ParseError", "NoInvokesError", "FieldNotFoundError"):
                why = str(e)
                st = "refused"
                if nm == "NoInvokesError":
                    # the family always contains an invoke: not finding one loses every kernel
                    out = {"key": dict(key, params=dict(key["params"], what="NoInvokesError")), "nontrivial": True,
                           "h": tv.text_hash(src), "solver_s": 0.0, "status": "sat_replayed",
                           "diff": "generate() raises NoInvokesError for a file that contains invoke calls",
                           "replay_text": src}
                    return [out]
                return [{"key": key, "status": st, "why": f"{nm}: {why}"[:200]}]
            return [{"key": key, "status": "psyclone_error", "why": f"{nm}: {e}"[:300]}]
    finally:
        shutil.rmtree(workdir, ignore_errors=True)
    out = {"key": key, "nontrivial": True, "h": tv.text_hash(src + alg_gen + psy_gen), "solver_s": 0.0}
    text = ("! ---- original algorithm\n" + src + "! ---- generated algorithm\n" + alg_gen +
            "\n! ---- generated PSy\n" + psy_gen)
    bad = static_checks(alg_gen, psy_gen)
    if bad:
        out.update(status="sat_replayed", diff="; ".join(bad), replay_text="! " + "; ".join(bad) + "\n" + text,
                   reach="sat")
        out["key"] = dict(key, params=dict(key["params"], what="static"))
        return [out]
    t0 = time.time()
    try:
        r, model, which, why, reach, ig, ir = decide(src, alg_gen, psy_gen, dm)
    except Unsupported as e:
        out.update(status="unsupported", why=str(e))
        return [out]
    out["solver_s"] = time.time() - t0
    out["reach"] = reach
    if r == "unsat":
        out["status"] = "unsat"
        return [out]
    if r != "sat":
        out["status"] = "unknown"
        return [out]
    ok, rtxt = (True, "! " + why) if why else replay(invokes, alg_gen, psy_gen, dm, ig, ir, model)
    out["diff"] = f"final contents differ between generated code and the original invokes for {which[:4]}"
    out["key"] = dict(key, params=dict(key["params"], what="dataflow"))
    out["replay_text"] = f"! {out['diff']}\n{rtxt}\n" + text
    out["status"] = "sat_replayed" if ok else ("sat_not_reproduced" if ok is False else "sat_unreplayable")
    return [out]


def main():
    tier = core.tier()
    chk = core.Check(PROP, "translation_validation",
                     "generated algorithm layer + generated PSy layer executed together by fsym against the original "
                     "invokes interpreted from their text (kernels = shared uninterpreted functions, built-ins = "
                     "documented formulas); z3 decides equality of every field and scalar of the algorithm routine")
    cases = dict(HAND)
    cases.update(random_cases(40 if tier == "quick" else 400, 1))
    if tier == "thorough":
        cases.update(random_cases(400, 2))
    jobs = [(tag, inv, dm) for tag, inv in cases.items() for dm in (False, True)]
    results = core.pmap(work, jobs)
    flat = []
    for r in results:
        flat.extend([r] if isinstance(r, tuple) else r)
    tv.aggregate(chk, flat)
    chk.cov["bounds"] = {"K_dofs": K, "cells": 1, "invokes_per_file": "<=4", "calls_per_invoke": "<=3",
                         "files": len(cases)}
    chk.cov["rule"] = "case = (algorithm file, distributed memory); distinct by hash of source and generated texts"
    from psyclone import alg_gen as ag, psyGen
    from psyclone.parse import algorithm as pa
    chk.cov["functions_encoded"] = core.src_hash(ag.Alg.gen, psyGen.Invoke.__init__, pa.Parser.create_invoke_call,
                                                 pa.get_kernel)
    chk.assumptions += [
        "kernels are uninterpreted functions of all their argument values (one per written argument), shared by both sides",
        "built-in semantics on the reference side: the documented formulas of 13 built-ins over 1..undf (DM off) / "
        "1..last owned DoF (DM on); C20 checks those ranges and formulas against the generated loops",
        "one cell column, <= %d DoFs, all fields share undf/owned/annexed" % K,
        "LFRic stub contract of vlib/fsym/lfric.py (a field owns one data array; proxies alias it; halo calls have no "
        "data effect)",
        "operators, stencils, field vectors as whole arrays and inter-grid kernels are outside the family; quadrature: one evaluator (w1 basis) with XYoZ or face quadrature objects, identified by the object whose weights and evaluator arrays reach the kernel"]
    return chk.finish()


if __name__ == "__main__":
    core.main_wrapper(main)
