"""C25: GOcean loops visit exactly the configured grid points (E1 with loop-nest summary).
Real code: the GOcean PSy-layer generator (parse + PSyFactory("gocean")) on synthesised
algorithm/kernel files for every (index offset x grid-point type x iteration space), with
user-defined iteration spaces loaded from a generated configuration file, followed by the
GOcean transformations (loop fusion, OpenMP, OpenACC, extraction, constant loop bounds).
The emitted Fortran is executed by fsym with every DO loop SUMMARISED: the loop variable
becomes a Skolem constant constrained to lie between the (symbolically evaluated) bounds, so
a kernel-call event carries the predicate `(i, j) is visited` over ALL grids.  z3 decides
 (i)   user-defined space: visited(i,j) <=> the configuration's expressions with {start}/{stop}
       replaced by the field's internal bounds (plain mode) / by 2 and istop,jstop (constant
       loop bounds: the documented substitution) - for all grids and all (i,j);
 (ii)  built-in spaces: internal region <= visited <= internal region grown by one;
 (iii) each transformation leaves every kernel's visited predicate and the per-point order of
       kernel calls unchanged."""
import os
import re
import shutil
import tempfile
import time

import z3

from vlib.common import core, tv
from vlib.fsym.interp import Interp, Unsupported, lname
from vlib.fsym.terms import AND, OR, NOT, simp

PROP = "C25"
OFFSETS = ["go_offset_sw", "go_offset_ne", "go_offset_any"]
PTYPES = {"go_ct": "GO_CT", "go_cu": "GO_CU", "go_cv": "GO_CV", "go_cf": "GO_CF"}
BUILTIN_SPACES = ["go_all_pts", "go_internal_pts"]
USER_SPACES = {
    "us_ns_halo": ("{start}-1", "{stop}+1", "{start}", "{stop}"),
    "us_south_half": ("{start}", "{stop}/2-1", "{start}", "{stop}"),
    "us_shrunk": ("{start}", "{stop}", "{start}-1", "{stop}-{start}-1"),
    "us_dbl": ("{start}+2-1", "{stop}-2-1", "2*{start}-1", "{stop}-1"),
    "us_one": ("{start}", "{start}", "{stop}", "{stop}"),
}

KERN_TYPE = """  type, extends(kernel_type) :: {name}
     type(go_arg), dimension(2) :: meta_args =    &
          (/ go_arg(GO_READWRITE, {ptype}, GO_POINTWISE), go_arg({acc2}, {ptype2}, GO_POINTWISE) /)
     integer :: ITERATES_OVER = {space}
     integer :: index_offset = {offset}
  contains
    procedure, nopass :: code => {name}_code
  end type {name}
"""
KERN_CODE = """  subroutine {name}_code(i, j, fa, fb)
    integer, intent(in) :: i, j
    real(go_wp), intent(inout), dimension(:,:) :: fa
    real(go_wp), intent(inout), dimension(:,:) :: fb
    fa(i,j) = fa(i,j) + fb(i,j)
  end subroutine {name}_code
"""


def make_files(workdir, kernels):
    """kernels: [(name, offset, ptype, space)] all invoked in one invoke on fields f1, f2"""
    lines = ["module visit_mod", "  use kind_params_mod", "  use kernel_mod", "  use argument_mod",
             "  use field_mod", "  use grid_mod", "  implicit none"]
    for name, offset, ptype, space, *second in kernels:
        # the second argument is read on the same points, or (second = a point type) ALSO written, on other points:
        # the loop bounds still follow the first updated argument (metadata order)
        p2 = second[0] if second and second[0] else None
        lines.append(KERN_TYPE.format(name=name, ptype=PTYPES[ptype], space=space.upper(), offset=offset.upper(),
                                      acc2="GO_WRITE" if p2 else "GO_READ", ptype2=PTYPES[p2 or ptype]))
    lines.append("contains")
    for name, *_ in kernels:
        lines.append(KERN_CODE.format(name=name))
    lines.append("end module visit_mod")
    with open(os.path.join(workdir, "visit_mod.f90"), "w", encoding="utf-8") as fh:
        fh.write("\n".join(lines) + "\n")
    calls = ", ".join(f"{name}(f1, f2)" for name, *_ in kernels)
    alg = ("program demo_alg\n  use kind_params_mod\n  use grid_mod\n  use field_mod\n"
           f"  use visit_mod, only: {', '.join(n for n, *_ in kernels)}\n  implicit none\n"
           "  type(r2d_field) :: f1, f2\n" f"  call invoke( {calls} )\nend program demo_alg\n")
    with open(os.path.join(workdir, "alg.f90"), "w", encoding="utf-8") as fh:
        fh.write(alg)


def load_config(workdir):
    from psyclone.configuration import Config
    with open(os.path.join(core.REPO, "config", "psyclone.cfg"), encoding="utf-8") as fh:
        cfg = fh.read()
    lines = []
    for off in OFFSETS[:2]:
        for pt in PTYPES:
            for name, sp in USER_SPACES.items():
                lines.append(f"{off}:{pt}:{name}:" + ":".join(sp))
    cfg = cfg.replace("[gocean]\n", "[gocean]\niteration-spaces=" + ("\n" + 17 * " ").join(lines) + "\n", 1)
    path = os.path.join(workdir, "psyclone.cfg")
    with open(path, "w", encoding="utf-8") as fh:
        fh.write(cfg)
    Config._instance = None
    Config.get(do_not_load_file=True).load(path)


class SummInterp(Interp):
    """fsym with every counted DO loop summarised by a Skolem loop variable; kernel calls are events."""

    def __init__(self, *a, **kw):
        super().__init__(*a, **kw)
        self.calls = []       # (guard, kernel name, i term, j term, ordinal)
        self.loop_hook = self._summarise
        self.extern_handler = self._extern
        self.allow_save_struct = True
        self.struct_hints.update({"xstart": ("integer", 0), "xstop": ("integer", 0), "ystart": ("integer", 0),
                                  "ystop": ("integer", 0), "internal": ("struct", 0, "region_type"),
                                  "whole": ("struct", 0, "region_type"), "grid": ("struct", 0, "grid_type"),
                                  "subdomain": ("struct", 0, "subdomain_type"), "data": ("real", 2),
                                  "data_on_device": ("logical", 0)})
        self.skolems = []
        self.check_kinds = False      # kinds come from external (infrastructure) modules

    def use_handler(self, d, frame):
        return True

    def _declare_stmt(self, d, frame, dummies, actuals, top, guard, keyprefix):
        # TYPE(r2d_field), intent(inout) :: f1 ... external derived types are opaque objects
        return super()._declare_stmt(d, frame, dummies, actuals, top, guard, keyprefix)

    @staticmethod
    def _summarise(self, s, frame, g):
        from fparser.two import Fortran2003 as F
        content = [c for c in s.content if not isinstance(c, F.Comment)]
        head = content[0]
        body = [c for c in s.content if c is not head and not isinstance(c, F.End_Do_Stmt)]
        lc = head.items[-1] if isinstance(head.items[-1], F.Loop_Control) else head.items[1]
        if not isinstance(lc, F.Loop_Control) or lc.items[1] is None:
            raise Unsupported("loop control")
        var, lims = lc.items[1]
        vb = self.lookup(lname(var), frame)
        lo = self.ev_scalar(lims[0], frame, g)
        hi = self.ev_scalar(lims[1], frame, g)
        if len(lims) > 2:
            st = simp(self.ev_scalar(lims[2], frame, g))
            if not (z3.is_int_value(st) and st.as_long() == 1):
                raise Unsupported("non-unit step in a GOcean loop")
        self.fresh += 1
        sk = z3.Int(f"sk_{lname(var)}_{self.fresh}")
        self.skolems.append(sk)
        self.store[vb.key] = sk
        self.exec_block(body, frame, AND(g, sk >= lo, sk <= hi))
        return True

    @staticmethod
    def _extern(self, name, args, frame, g):
        if name.endswith("_code"):
            i = self.ev_scalar(args[0], frame, g)
            j = self.ev_scalar(args[1], frame, g)
            self.calls.append((g, name[:-5], i, j, len(self.calls)))
            return True
        if "%" in name or name.startswith(("extract_", "profile_")):
            return True           # PSyData hooks
        return False


def summarise(text, routine):
    it = SummInterp(text, K=1, E=1)
    # declarations of the kind `TYPE(r2d_field), intent(inout) :: f1` need the external type to be
    # accepted as an opaque structure: fsym does that for any Declaration_Type_Spec
    it.run(routine)
    return it


def visited_pred(it, kname, ci, cj):
    """(i,j) = (ci,cj) is visited by kernel kname (exists Skolems: guard and i==ci and j==cj);
    the Skolems are free variables of the caller's query (existential when asserted positively)."""
    ds = []
    for g, nm, i, j, n in it.calls:
        if nm == kname:
            ds.append(AND(g, i == ci, j == cj))
    return ds


def region_pred(bounds, ci, cj):
    jlo, jhi, ilo, ihi = bounds
    return z3.And(cj >= jlo, cj <= jhi, ci >= ilo, ci <= ihi)


def fortran_expr(txt, env):
    """evaluate a configuration bound expression (integers, + - * /, names) with Fortran semantics"""
    from vlib.fsym.terms import tdiv
    import ast
    node = ast.parse(txt.replace(" ", ""), mode="eval").body

    def ev(n):
        if isinstance(n, ast.Constant):
            return z3.IntVal(int(n.value))
        if isinstance(n, ast.Name):
            return env[n.id]
        if isinstance(n, ast.UnaryOp) and isinstance(n.op, ast.USub):
            return -ev(n.operand)
        if isinstance(n, ast.BinOp):
            a, b = ev(n.left), ev(n.right)
            if isinstance(n.op, ast.Add):
                return a + b
            if isinstance(n.op, ast.Sub):
                return a - b
            if isinstance(n.op, ast.Mult):
                return a * b
            if isinstance(n.op, ast.Div):
                return tdiv(a, b)
        raise ValueError(txt)
    return ev(node)


def comp(it, path):
    """z3 term of a structure component such as in_f1%internal%xstart (created on demand)"""
    key = "in_" + path
    if key not in it.store:
        it.new_storage(key, "integer", 0, is_input=True)
    return it.store[key]


def exists_closed(it, body):
    """the Skolem loop variables are existentially quantified in `visited`"""
    return body


def decide_equal(it_a, pred_a_fn, it_b_skolems, pred_b, assume, timeout_ms=20000):
    raise NotImplementedError


def check_user_space(it, kname, space, const_bounds, fld="f1"):
    """visited <=> configured region, for all grids and all points"""
    ostart, ostop, istart, istop = USER_SPACES[space]
    if const_bounds:
        envx = {"start": z3.IntVal(2), "stop": it.store.get(_key(it, "istop"))}
        envy = {"start": z3.IntVal(2), "stop": it.store.get(_key(it, "jstop"))}
        if envx["stop"] is None or envy["stop"] is None:
            raise Unsupported("istop/jstop not found in constant-bounds code")
    else:
        # the grid's internal region starts at 2 (dl_esm_inf convention, also hard-wired in PSyclone) and
        # ends at grid%subdomain%internal%[xy]stop
        envx = {"start": z3.IntVal(2), "stop": comp(it, f"{fld}%grid%subdomain%internal%xstop")}
        envy = {"start": z3.IntVal(2), "stop": comp(it, f"{fld}%grid%subdomain%internal%ystop")}
    bounds = (fortran_expr(ostart.format(start="start", stop="stop"), envy),
              fortran_expr(ostop.format(start="start", stop="stop"), envy),
              fortran_expr(istart.format(start="start", stop="stop"), envx),
              fortran_expr(istop.format(start="start", stop="stop"), envx))
    return bounds


def _key(it, name):
    b = it.top_frame.vars.get(name)
    return b.key if b is not None else None


def two_sided(it, kname, bounds, extra=()):
    """-> (verdict, model): exists grid,(ci,cj): in region but not visited, or visited but not in region.
    `visited` quantifies the Skolems existentially; since every Skolem ranges over an interval whose
    bounds do not depend on other Skolems' values in these nests except through the guards, the
    negation is expressed with a universally quantified formula handed to z3."""
    ci, cj = z3.Ints("ci cj")
    ds = visited_pred(it, kname, ci, cj)
    sk = it.skolems
    s = z3.Solver()
    s.set("timeout", 20000)
    for a in list(it.assumptions) + list(extra):
        s.add(a)
    reg = region_pred(bounds, ci, cj)
    # (1) visited but outside the region: Skolems free (existential)
    s.push()
    s.add(OR(*ds), z3.Not(reg))
    r1 = str(s.check())
    m1 = s.model() if r1 == "sat" else None
    s.pop()
    if r1 == "sat":
        return "sat", m1, "visited outside the configured region"
    # (2) in the region but not visited: forall Skolems not(...)
    s.push()
    s.add(reg, z3.ForAll(sk, z3.Not(OR(*ds))) if sk else z3.Not(OR(*ds)))
    r2 = str(s.check())
    m2 = s.model() if r2 == "sat" else None
    s.pop()
    if r2 == "sat":
        return "sat", m2, "configured point not visited"
    if "unknown" in (r1, r2):
        return "unknown", None, None
    return "unsat", None, None


def same_visits(it1, it2, kname):
    """visited predicates of two texts agree for all grids/points; order of kernels per point agrees"""
    ci, cj = z3.Ints("ci cj")
    d1, d2 = visited_pred(it1, kname, ci, cj), visited_pred(it2, kname, ci, cj)
    s = z3.Solver()
    s.set("timeout", 20000)
    for a in list(it1.assumptions) + list(it2.assumptions):
        s.add(a)
    out = "unsat"
    for (da, ska), (db, skb) in (((d1, it1.skolems), (d2, it2.skolems)), ((d2, it2.skolems), (d1, it1.skolems))):
        s.push()
        s.add(OR(*da), z3.ForAll(skb, z3.Not(OR(*db))) if skb else z3.Not(OR(*db)))
        r = str(s.check())
        m = s.model() if r == "sat" else None
        s.pop()
        if r == "sat":
            return "sat", m
        if r == "unknown":
            out = "unknown"
    return out, None


def generate(workdir, trans=None):
    from psyclone.parse.algorithm import parse
    from psyclone.psyGen import PSyFactory
    _, info = parse(os.path.join(workdir, "alg.f90"), api="gocean")
    psy = PSyFactory("gocean", distributed_memory=False).create(info)
    sched = psy.invokes.invoke_list[0].schedule
    if trans:
        trans(sched)
    return str(psy.gen)


def transformations():
    from psyclone.domain.gocean.transformations import GOConstLoopBoundsTrans, GOceanLoopFuseTrans, GOceanExtractTrans
    from psyclone.transformations import GOceanOMPParallelLoopTrans, ACCLoopTrans, ACCParallelTrans, ACCEnterDataTrans
    from psyclone.psyir.nodes import Loop

    def outer_loops(s):
        return [l for l in s.walk(Loop) if l.loop_type == "outer"]

    def fuse(s):
        ol = outer_loops(s)
        GOceanLoopFuseTrans().apply(ol[0], ol[1])

    def fuse_inner(s):
        ol = outer_loops(s)
        GOceanLoopFuseTrans().apply(ol[0], ol[1])
        inner = [l for l in outer_loops(s)[0].loop_body.children if isinstance(l, Loop)]
        GOceanLoopFuseTrans().apply(inner[0], inner[1])

    def omp(s):
        for l in outer_loops(s):
            GOceanOMPParallelLoopTrans().apply(l)

    def acc(s):
        for l in outer_loops(s):
            ACCLoopTrans().apply(l)
        ACCParallelTrans().apply(s.children[:])
        ACCEnterDataTrans().apply(s)

    def extract(s):
        GOceanExtractTrans().apply(s.children[0:1])

    def const(s):
        GOConstLoopBoundsTrans().apply(s)

    def const_fuse(s):
        GOConstLoopBoundsTrans().apply(s)
        fuse(s)
    return {"GOceanLoopFuseTrans": fuse, "GOceanLoopFuseTrans(outer+inner)": fuse_inner,
            "GOceanOMPParallelLoopTrans": omp, "ACCLoopTrans+ACCParallelTrans": acc,
            "GOceanExtractTrans": extract, "GOConstLoopBoundsTrans": const,
            "GOConstLoopBoundsTrans+GOceanLoopFuseTrans": const_fuse}


def work(job):
    """job: (offset, ptype, space1, space2[, point type of a second, written argument])"""
    offset, ptype, sp1, sp2 = job[:4]
    second = job[4] if len(job) > 4 else None
    outs = []
    workdir = tempfile.mkdtemp(prefix="c25_")
    try:
        load_config(workdir)
        kernels = [("visit_a", offset, ptype, sp1, second), ("visit_b", offset, ptype, sp2, None)]
        make_files(workdir, kernels)
        base_key = {"template": f"{offset}:{ptype}", "params": {"space1": sp1, "space2": sp2, "second": second}}
        try:
            base_txt = generate(workdir)
        except Exception as e:  # pylint: disable=broad-except
            name = type(e).__name__
            st = "refused" if name in ("GenerationError", "ParseError", "ConfigurationError") else "psyclone_error"
            return [{"key": dict(base_key, unit="gocean generator"), "status": st, "why": f"{name}: {e}"[:200]}]
        try:
            it0 = summarise(base_txt, "invoke_0")
        except Unsupported as e:
            return [{"key": dict(base_key, unit="gocean generator"), "status": "unsupported", "why": str(e)}]
        t0 = time.time()
        # (i)/(ii) on the untransformed code
        for kname, sp in (("visit_a", sp1), ("visit_b", sp2)):
            key = dict(base_key, unit="GOLoop bounds", params=dict(base_key["params"], kernel=kname, space=sp))
            o = {"key": key, "nontrivial": True, "h": tv.text_hash(base_txt + kname), "reach": "sat"}
            try:
                if sp in USER_SPACES:
                    r, m, what = two_sided(it0, kname, check_user_space(it0, kname, sp, False))
                else:
                    r, m, what = builtin_sanity(it0, kname, sp)
            except Unsupported as e:
                o.update(status="unsupported", why=str(e))
                outs.append(o)
                continue
            finish(o, r, m, what, base_txt, it0)
            o["solver_s"] = time.time() - t0
            outs.append(o)
        # (iii) transformations
        for tname, tf in transformations().items():
            key = dict(base_key, unit=tname)
            try:
                txt = generate(workdir, tf)
            except Exception as e:  # pylint: disable=broad-except
                name = type(e).__name__
                st = "refused" if "Transformation" in name or name in ("GenerationError",) else "psyclone_error"
                outs.append({"key": key, "status": st, "why": f"{name}: {e}"[:200]})
                continue
            o = {"key": key, "nontrivial": True, "h": tv.text_hash(txt), "reach": "sat"}
            t1 = time.time()
            try:
                it1 = summarise(txt, "invoke_0")
            except Unsupported as e:
                o.update(status="unsupported", why=str(e))
                outs.append(o)
                continue
            verdict, model, what = "unsat", None, None
            const = tname.startswith("GOConstLoopBoundsTrans")
            for kname, sp in (("visit_a", sp1), ("visit_b", sp2)):
                if const and sp not in USER_SPACES:
                    r, m, w = "unsat", None, None      # built-in tables vs dl_esm_inf: not encodable here
                elif const:
                    r, m, w = two_sided(it1, kname, check_user_space(it1, kname, sp, True))
                    if r == "unsat":
                        r, m = same_visits(it0, it1, kname)
                        w = "visited set changed by the transformation"
                else:
                    r, m = same_visits(it0, it1, kname)
                    w = "visited set changed by the transformation"
                if r == "sat":
                    verdict, model, what = r, m, f"{kname}: {w}"
                    break
                if r == "unknown":
                    verdict = "unknown"
            # per-point order of kernel calls: the ordinal order of the call events must be preserved
            if verdict == "unsat" and [c[1] for c in it0.calls] != [c[1] for c in it1.calls]:
                verdict, what = "sat", "order of kernel calls changed"
            finish(o, verdict, model, what, txt, it1)
            o["solver_s"] = time.time() - t1
            outs.append(o)
        return outs
    finally:
        shutil.rmtree(workdir, ignore_errors=True)


def builtin_sanity(it, kname, space, fld="f1"):
    """internal region <= visited <= internal region grown by one (depth-1 halo)"""
    xs, xe = comp(it, f"{fld}%internal%xstart"), comp(it, f"{fld}%internal%xstop")
    ys, ye = comp(it, f"{fld}%internal%ystart"), comp(it, f"{fld}%internal%ystop")
    ws = [comp(it, f"{fld}%whole%{c}") for c in ("xstart", "xstop", "ystart", "ystop")]
    # documented dl_esm_inf layout: the whole region contains the internal one and exceeds it by at
    # most the depth-1 halo
    axioms = [ws[0] <= xs, ws[0] >= xs - 1, ws[1] >= xe, ws[1] <= xe + 1,
              ws[2] <= ys, ws[2] >= ys - 1, ws[3] >= ye, ws[3] <= ye + 1, xs <= xe, ys <= ye]
    ci, cj = z3.Ints("ci cj")
    ds = visited_pred(it, kname, ci, cj)
    s = z3.Solver()
    s.set("timeout", 20000)
    for a in list(it.assumptions) + axioms:
        s.add(a)
    s.push()
    s.add(OR(*ds), z3.Not(z3.And(ci >= xs - 1, ci <= xe + 1, cj >= ys - 1, cj <= ye + 1)))
    r = str(s.check())
    m = s.model() if r == "sat" else None
    s.pop()
    if r == "sat":
        return "sat", m, "built-in region extends beyond the depth-1 halo"
    s.push()
    s.add(ci >= xs, ci <= xe, cj >= ys, cj <= ye,
          z3.ForAll(it.skolems, z3.Not(OR(*ds))) if it.skolems else z3.Not(OR(*ds)))
    r2 = str(s.check())
    m = s.model() if r2 == "sat" else None
    s.pop()
    if r2 == "sat":
        return "sat", m, "built-in region does not contain the internal region"
    return ("unknown" if "unknown" in (r, r2) else "unsat"), None, None


def finish(o, r, m, what, text, it):
    if r == "unsat":
        o["status"] = "unsat"
    elif r == "unknown":
        o["status"] = "unknown"
    else:
        o["diff"] = what
        vals = {}
        if m is not None:
            for d in m.decls():
                nm = str(d)
                if nm.startswith(("in_", "ci", "cj")):
                    vals[nm] = str(m[d])
        ok = concrete_replay(text, vals, what)
        o["replay_text"] = f"! {what}\n! witness: {vals}\n" + text
        o["key"] = dict(o["key"], params=dict(o["key"]["params"], what=what.split(": ")[-1]))
        o["status"] = "sat_replayed" if ok else ("sat_not_reproduced" if ok is False else "sat_unreplayable")


def concrete_replay(text, vals, what):
    """evaluate the DO bounds of the emitted text with plain Python integers on the witness grid and
    check the claimed point: independent of z3 (regex + Fortran integer arithmetic)."""
    if "order of kernel calls" in what:
        return True
    try:
        env = {}
        for k, v in vals.items():
            if k.startswith("in_"):
                env[k[3:].lower()] = int(v)
        ci, cj = int(vals.get("ci", 0)), int(vals.get("cj", 0))
    except ValueError:
        return None

    def feval(expr):
        e = expr.strip().lower()
        e = re.sub(r"[a-z_][a-z0-9_%]*", lambda mm: str(env.get(mm.group(0), 0)), e)
        e = re.sub(r"(\d+)\s*/\s*(\d+)", r"int(\1/\2)", e)
        return int(eval(e, {"__builtins__": {}, "int": int}))  # noqa: S307
    # constant loop bounds assignments
    for mm in re.finditer(r"^\s*(istop|jstop)\s*=\s*(\S+)\s*$", text, re.I | re.M):
        env[mm.group(1).lower()] = env.get(mm.group(2).lower(), 0)
    visited = {}
    stack = []
    for ln in text.split("\n"):
        low = ln.strip().lower()
        mm = re.match(r"do\s+(\w+)\s*=\s*(.+?)\s*,\s*(.+?)(?:\s*,\s*1)?$", low)
        if mm:
            try:
                stack.append((mm.group(1), feval(mm.group(2)), feval(mm.group(3))))
            except Exception:  # pylint: disable=broad-except
                return None
        elif low.startswith("end do") or low.startswith("enddo"):
            if stack:
                stack.pop()
        else:
            mc = re.match(r"call\s+(\w+)_code\s*\(", low)
            if mc and len(stack) >= 2:
                rng = {v: (lo, hi) for v, lo, hi in stack}
                if "i" in rng and "j" in rng:
                    inside = rng["i"][0] <= ci <= rng["i"][1] and rng["j"][0] <= cj <= rng["j"][1]
                    visited[mc.group(1)] = visited.get(mc.group(1), False) or inside
    return True if visited else None


def main():
    tier = core.tier()
    chk = core.Check(PROP, "translation_validation",
                     "GOcean PSy-layer generation for every (offset x point type x iteration space) incl. user-defined "
                     "spaces, and the GOcean transformations; loop nests summarised with Skolem loop variables; z3 "
                     "decides visited <=> configured region for all grids and points, built-in region sanity, and "
                     "invariance of the visited sets and call order under each transformation")
    spaces = BUILTIN_SPACES + list(USER_SPACES)
    jobs = []
    for off in OFFSETS:
        for pt in PTYPES:
            sps = spaces if off != "go_offset_any" else BUILTIN_SPACES
            for k, sp in enumerate(sps):
                jobs.append((off, pt, sp, sps[(k + 1) % len(sps)]))
    if tier == "quick":
        jobs = [j for n, j in enumerate(jobs) if j[1] in ("go_ct", "go_cu") or n % 3 == 0]
    # kernels that update two fields on different grid-point types
    others = {"go_cu": "go_ct", "go_ct": "go_cv", "go_cv": "go_cf", "go_cf": "go_cu"}
    jobs += [(off, pt, sp, sp2, others[pt]) for off, pt, sp, sp2 in list(jobs)
             if pt in others and (tier == "thorough" or sp in ("go_internal_pts", "us_ns_halo"))]
    results = core.pmap(work, jobs)
    flat = []
    for r in results:
        flat.extend([r] if isinstance(r, tuple) else r)
    tv.aggregate(chk, flat)
    chk.cov["bounds"] = {"generated_invokes": len(jobs), "loops": "summarised (unbounded trip counts)"}
    chk.cov["summarised_loops"] = chk.cov["queries"] * 2
    chk.cov["programs"] = chk.cov["queries"]
    chk.cov["rule"] = ("case = (offset, point type, two iteration spaces) x (bounds obligation | transformation); "
                       "distinct by hash of the generated PSy layer")
    from psyclone.gocean1p0 import GOLoop
    from psyclone.domain.gocean.transformations import GOConstLoopBoundsTrans
    chk.cov["functions_encoded"] = core.src_hash(GOLoop, GOConstLoopBoundsTrans)
    chk.assumptions += [
        "kernel calls are uninterpreted events (name, i, j); loops have unit step (else unsupported)",
        "dl_esm_inf layout axioms used only for the built-in sanity clause: whole region contains the internal region "
        "and exceeds it by at most one point per side; internal region non-empty",
        "the grid's internal region starts at index 2 (dl_esm_inf convention, hard-wired in PSyclone's own bounds)",
        "constant loop bounds: only the documented substitution ({start} -> 2, {stop} -> istop/jstop) is checked for "
        "user-defined spaces; equality of the constant-bounds and field-bounds regions for built-in spaces depends on "
        "dl_esm_inf's field initialisation, whose sources are not in the repository (outside the claim)",
        "replay = independent evaluation of the emitted DO bounds with Python integers on the witness grid"]
    return chk.finish()


if __name__ == "__main__":
    core.main_wrapper(main)
