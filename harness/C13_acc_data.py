"""C13: OpenACC data regions move what the region needs (E1 with host/device stores).
Real code: ACCKernelsTrans (where accepted) + ACCDataTrans on every consecutive range of
top-level statements of the G-R family, then FortranWriter (which computes the
copyin/copyout/copy clauses).  The clauses are read back from the emitted text.
Run A executes the routine on the host store.  Run B models separate device memory
for the data region: on entry every array that is not in a copyin/copy clause is
replaced by an ARBITRARY array (a fresh solver variable: undefined device memory); on
exit only copyout/copy arrays keep the device contents, all others get the host value
back.  z3 decides equality of every host array for all inputs and all device garbage."""
import re

import z3

from vlib.common import core, tv
from vlib.families import regions as fam
from vlib.fsym import equiv
from vlib.fsym.interp import Interp, Unsupported
from vlib.fsym.terms import ITE

PROP = "C13"
CLAUSE = re.compile(r"\b(copyin|copyout|copy|create|present)\s*\(([^)]*)\)", re.I)


def parse_clauses(text):
    out = {"copyin": set(), "copyout": set(), "copy": set(), "create": set(), "present": set()}
    for kind, names in CLAUSE.findall(text):
        for nm in names.split(","):
            nm = nm.strip().lower()
            if nm:
                out[kind.lower()].add(nm)
    return out


def device_handler(log):
    state = {"stack": []}

    def keys_of(it, frame, names):
        ks = set()
        for nm in names:
            b = it.lookup(nm.split("%")[0].split("(")[0], frame)
            if b is None:
                raise Unsupported("clause variable " + nm)
            if "%" in nm:
                ks.add(b.key + "%" + nm.split("%", 1)[1])
            else:
                ks.add(b.key)
        return ks

    def handler(it, text, frame, g):
        low = text.strip().lower()
        if not low.startswith("!$acc"):
            return
        body = low[5:].strip()
        if body.startswith("end data"):
            if not state["stack"]:
                raise Unsupported("unbalanced acc end data")
            g0, saved, out_keys = state["stack"].pop()
            log[-1]["_trace_end"] = len(it.trace)
            for key, host in saved.items():
                if key in out_keys:
                    continue
                it.store[key] = ITE(g0, host, it.store[key])
            return
        if body.startswith("data"):
            cl = parse_clauses(body)
            cl["_trace_start"] = len(it.trace)
            log.append(cl)
            in_keys = keys_of(it, frame, cl["copyin"] | cl["copy"] | cl["present"])
            out_keys = keys_of(it, frame, cl["copyout"] | cl["copy"])
            saved = {}
            for key, (tname, rank) in list(it.meta.items()):
                if rank == 0 or tname == "struct" or key not in it.store:
                    continue
                saved[key] = it.store[key]
                if key not in in_keys:
                    it.fresh += 1
                    garbage = z3.Const(f"dev_{key}_{it.fresh}", it.store[key].sort())
                    it.store[key] = ITE(g, garbage, it.store[key])
            cl["_in_keys"] = in_keys
            cl["_saved_keys"] = set(saved)
            state["stack"].append((g, saved, out_keys))
            return
        # kernels / parallel / loop / end kernels ...: executed serially
    return handler


def emulate_text(text, it):
    """Fortran text that emulates the device-store model on the host (for gfortran replay):
    garbage fill at region entry, restore at region exit, driven by the emitted clauses."""
    fr = it.top_frame
    arrays = [(nm, b) for nm, b in fr.vars.items() if b.rank > 0 and b.tname != "struct"]
    lines = text.split("\n")
    out = []
    decl_done = False
    tdecl = {"real": "real(kind=wp)", "integer": "integer", "logical": "logical"}
    fill = {"real": "-777.0_wp", "integer": "-777", "logical": ".true."}
    stack = []
    in_s = False
    for ln in lines:
        low = ln.strip().lower()
        out.append(ln)
        if low.startswith("subroutine s(") or low.startswith("subroutine s "):
            in_s = True
            for nm, b in arrays:
                out.append(f"    {tdecl[b.tname]}, allocatable, dimension({','.join(':' * b.rank)}) :: vh_{nm}")
            continue
        if not in_s:
            continue
        if low.startswith("end subroutine"):
            in_s = False
        if low.startswith("!$acc data"):
            cl = parse_clauses(low)
            ins = cl["copyin"] | cl["copy"] | cl["present"]
            outs = cl["copyout"] | cl["copy"]
            stack.append(outs)
            for nm, b in arrays:
                out.append(f"    if (allocated(vh_{nm})) deallocate(vh_{nm})")
                out.append(f"    allocate(vh_{nm}, source={nm})")
                if nm not in ins:
                    out.append(f"    {nm} = {fill[b.tname]}")
        elif low.startswith("!$acc end data"):
            outs = stack.pop()
            for nm, b in arrays:
                if nm not in outs:
                    out.append(f"    {nm} = vh_{nm}")
    return "\n".join(out)


def classify(i1, i2, cl):
    """Does the region read an array element that it has not written itself while the array
    is not copied in (class 'exposed_read'), or is the difference only undefined device
    contents copied back over host data (class 'partial_copyout')?  Decided by the solver on
    the region's event trace."""
    from vlib.fsym.terms import AND, OR, NOT
    evs = i2.trace[cl["_trace_start"]:cl.get("_trace_end", len(i2.trace))]
    assume = list(i1.assumptions) + list(i1.inbounds) + list(i1.bound_assumptions) + \
        list(i2.assumptions) + list(i2.bound_assumptions)
    s = z3.Solver()
    s.set("timeout", 10000)
    for a in assume:
        s.add(a)
    written = {}
    first_kind = {}
    for e in evs:
        if e.kind in ("R", "W") and e.idx:
            first_kind.setdefault(e.key, e.kind)
    classify.first_kind = first_kind
    for e in evs:
        if e.kind not in ("R", "W") or not e.idx or e.key not in cl.get("_saved_keys", ()):
            continue
        if e.kind == "W":
            written.setdefault(e.key, []).append(e)
            continue
        if e.key in cl["_in_keys"]:
            continue
        cover = [AND(w.guard, *[x == y for x, y in zip(w.idx, e.idx)]) for w in written.get(e.key, [])
                 if len(w.idx) == len(e.idx)]
        s.push()
        s.add(AND(e.guard, NOT(OR(*cover))))
        r = str(s.check())
        s.pop()
        if r == "sat":
            classify.last_key = e.key
            return "exposed_read", e.key.replace("in_", "").replace("save_s_", "")
    return "partial_copyout", None


def array_only(k, meta):
    return meta[1] > 0


def decide(base_txt, new_txt, routine, K, E, key):
    out = {"key": key, "status": None, "solver_s": 0.0, "nontrivial": False,
           "h": tv.text_hash(base_txt + "\0" + new_txt)}
    log = []
    try:
        i1 = equiv.build(base_txt, routine, K, E)
        i2 = Interp(new_txt, K=K, E=E, trace=True)
        i2.comment_handler = device_handler(log)
        i2.run(routine)
    except Unsupported as e:
        out.update(status="unsupported", why=str(e))
        return out
    if not log:
        out.update(status="unsupported", why="no acc data directive found in the written text")
        return out
    out["clauses"] = {k: sorted(v) for k, v in log[0].items() if v and not k.startswith("_")}
    res = equiv.compare_interps(i1, i2, obs_filter=array_only)
    out["solver_s"] = res.solver_s
    out["nontrivial"] = bool(res.nontrivial)
    out["reach"] = res.reach
    if res.verdict in ("vacuous", "unsat", "unknown"):
        out["status"] = res.verdict
        return out
    out["diff"] = f"{res.diff} with clauses {out['clauses']}"
    cls, who = classify(i1, i2, log[0])
    out["key"] = dict(key, params=dict(key["params"], array=str(res.diff).replace("in_", ""), cls=cls,
                                       exposed=who,
                                       exposed_first_write=(cls == "exposed_read" and
                                                            classify.first_kind.get(classify.last_key) == "W")))
    # replay: emulate the device store in Fortran and run both with gfortran
    try:
        emu = emulate_text(new_txt, i1)
        ok, text = equiv.replay(res, base_txt, emu, routine)
    except Exception as e:  # pylint: disable=broad-except
        ok, text = None, f"replay failed: {type(e).__name__}: {e}"
    out["replay_text"] = f"! clauses: {out['clauses']}\n! differing host array (solver): {res.diff}\n" + text
    out["status"] = "sat_replayed" if ok else ("sat_not_reproduced" if ok is False else "sat_unreplayable")
    return out


def work(case):
    from psyclone.psyir.nodes import Routine
    from psyclone.transformations import ACCDataTrans
    from psyclone.psyir.transformations import ACCKernelsTrans
    outs = []
    src = case["src"]
    try:
        base = tv.read_psyir(src)
        base_txt = tv.write_psyir(base)
    except Exception as e:  # pylint: disable=broad-except
        return [{"key": {"unit": "reader/writer", "template": case["template"], "params": {}},
                 "status": "psyclone_error", "why": str(e)[:200]}]
    n = case["nstmts"]
    for lo in range(n):
        for hi in range(lo + 1, n + 1):
            for with_kernels in (True, False):
                key = {"unit": "ACCDataTrans", "template": case["template"],
                       "params": {"lo": lo, "hi": hi, "kernels": with_kernels,
                                  "has_call": any("call " in st for st in case["stmts"][lo:hi])}}
                p = tv.read_psyir(src)
                r = [x for x in p.walk(Routine) if x.name == "s"][0]
                if with_kernels:
                    st, why = tv.safe_apply(lambda: ACCKernelsTrans().apply(r.children[lo:hi]))
                    if st != "ok":
                        outs.append({"key": key, "status": "refused", "why": "kernels: " + str(why)[:120]})
                        continue
                    st, why = tv.safe_apply(lambda: ACCDataTrans().apply(r.children[lo:lo + 1]))
                else:
                    st, why = tv.safe_apply(lambda: ACCDataTrans().apply(r.children[lo:hi]))
                if st == "refused":
                    outs.append({"key": key, "status": "refused", "why": why})
                    continue
                if st == "error":
                    outs.append({"key": key, "status": "psyclone_error", "why": why})
                    continue
                try:
                    new_txt = tv.write_psyir(p)
                except Exception as e:  # pylint: disable=broad-except
                    outs.append({"key": key, "status": "psyclone_error", "why": f"writer: {type(e).__name__}: {e}"[:300]})
                    continue
                outs.append(decide(base_txt, new_txt, case["routine"], case["K"], case["E"], key))
    return outs


INLINE_SRC = """module coef_mod
  implicit none
  integer, parameter :: wp = 8
  real(kind=wp), dimension(0:20) :: coef
end module coef_mod
module m
  use coef_mod, only: wp
  implicit none
contains
  subroutine s(a, b, n)
    integer, intent(in) :: n
    real(kind=wp), dimension(0:n), intent(inout) :: a, b
    integer :: i
    do i = 1, n
      call scalec(a(i), b(i), {arg})
    end do
  end subroutine s
  subroutine scalec(x, y, j)
    use coef_mod, only: coef
    real(kind=wp), intent(in) :: x
    real(kind=wp), intent(out) :: y
    integer, intent(in) :: j
    y = x * coef(j){extra}
  end subroutine scalec
end module m
"""


def work_inline(job):
    """history: ACCDataTrans around a loop, then InlineTrans on the call inside it (the callee imports a module
    array, whose symbol then lives in a table nested inside the region)"""
    from psyclone.psyir.nodes import Routine, Call, Loop
    from psyclone.transformations import ACCDataTrans
    from psyclone.psyir.transformations import InlineTrans, ACCKernelsTrans
    arg, extra, order, K, E = job
    src = INLINE_SRC.format(arg=arg, extra=extra)
    key = {"unit": "ACCDataTrans+InlineTrans", "template": "inline_in_region",
           "params": {"arg": arg, "extra": extra, "order": order, "has_call": True}}
    try:
        base_txt = tv.write_psyir(tv.read_psyir(src))
        p = tv.read_psyir(src)
        r = [x for x in p.walk(Routine) if x.name == "s"][0]

        def steps():
            if order == "data_first":
                ACCDataTrans().apply(r.children[0])
                InlineTrans().apply(r.walk(Call)[0])
            else:
                InlineTrans().apply(r.walk(Call)[0])
                ACCDataTrans().apply(r.children[0])
        st, why = tv.safe_apply(steps)
        if st == "refused":
            return [{"key": key, "status": "refused", "why": why}]
        if st == "error":
            return [{"key": key, "status": "psyclone_error", "why": why}]
        new_txt = tv.write_psyir(p)
    except Exception as e:  # pylint: disable=broad-except
        return [{"key": key, "status": "psyclone_error", "why": f"{type(e).__name__}: {e}"[:300]}]
    return [decide(base_txt, new_txt, "s", K, E, key)]


def main():
    tier = core.tier()
    chk = core.Check(PROP, "translation_validation",
                     "ACCKernelsTrans/ACCDataTrans on every consecutive statement range of the G-R family; "
                     "host run vs device-store run with exactly the emitted copyin/copyout/copy movements and "
                     "arbitrary initial device contents; z3 equivalence of all host arrays; gfortran replay of an "
                     "emulated device store")
    cases = fam.gen(tier, core.seed())
    K, E = (3, 3) if tier == "quick" else (4, 4)
    for c in cases:
        c["K"], c["E"] = K, E
    results = core.pmap(work, cases)
    results += core.pmap(work_inline, [(arg, extra, order, K, E) for arg in ("i", "1", "i - 1")
                                       for extra in ("", " + coef(0)") for order in ("data_first", "inline_first")])
    flat = []
    for r in results:
        flat.extend([r] if isinstance(r, tuple) else r)
    tv.aggregate(chk, flat)
    chk.cov["bounds"] = {"K": K, "E": E, "programs_generated": len(cases)}
    chk.cov["rule"] = ("case = (G-R routine, statement range, with/without kernels construct); non-trivial = the "
                       "routine changes an observable; distinct by hash of (original, transformed) text")
    chk.cov["programs"] = chk.cov["queries"]
    from psyclone.psyir.nodes.directive import RegionDirective
    from psyclone.psyir.nodes import ACCDataDirective
    chk.cov["functions_encoded"] = core.src_hash(RegionDirective.create_data_movement_deep_copy_refs, ACCDataDirective)
    chk.assumptions += [
        "device model: arrays only; copyin/copy initialise the device copy, every other array starts arbitrary; "
        "copyout/copy overwrite the whole host array at region exit; everything between data/end data runs on the "
        "device store; scalars live on the host (outside the claim)",
        "array extents and trip counts <= E/K; exact arithmetic",
        "replay runs the same model written out in Fortran (garbage = -777) through gfortran"]
    return chk.finish()


if __name__ == "__main__":
    core.main_wrapper(main)
