"""C28: PSyData regions are entered and left in matched pairs (E1, path-sensitive trace).
Real code: ProfileTrans, ExtractTrans, NanTestTrans, ReadOnlyVerifyTrans applied (validate
+ apply, no force) to every consecutive statement range of every schedule (routine body,
loop bodies, branches) of the program family - one region, and pairs of regions (nested
and sequential) - then FortranWriter, which lowers the PSyData nodes to PreStart ...
PostEnd calls.  The instrumented text is executed symbolically; every PreStart/PostEnd
call is an event with its path guard.  z3 decides whether some input makes a region
start while it is open, end while it is not open, end while a later-opened region is
still open, or remain open when the routine returns.  Region names are compared
statically.  Counterexamples are replayed by compiling the instrumented text against a
checking stub PSyData library with gfortran."""
import os
import re
import shutil
import tempfile
import time

import z3

from vlib.common import core, tv
from vlib.families import psydata_progs as fam
from vlib.fsym import equiv
from vlib.fsym.interp import Interp, Unsupported
from vlib.fsym.terms import AND, OR, ITE

PROP = "C28"
_REPLAYED = {}
_FINDINGS = core.load_findings("C28")
KINDS = ["profile", "extract", "nan_test", "read_only_verify"]


def trans_classes():
    from psyclone.psyir.transformations import ProfileTrans, ExtractTrans, NanTestTrans, ReadOnlyVerifyTrans
    return {"ProfileTrans": ProfileTrans, "ExtractTrans": ExtractTrans, "NanTestTrans": NanTestTrans,
            "ReadOnlyVerifyTrans": ReadOnlyVerifyTrans}


class PSyDataInterp(Interp):
    def __init__(self, *a, **kw):
        super().__init__(*a, **kw)
        self.allow_save_struct = True
        self.pevents = []
        self.check_kinds = False      # kinds come from external (infrastructure) modules           # (guard, handle, method, names)
        self.extern_handler = self._psydata_call

    def use_handler(self, d, frame):
        return str(d.items[2]).lower().endswith("psy_data_mod")

    @staticmethod
    def _psydata_call(self, name, args, frame, g):
        if "%" not in name:
            return False
        handle, method = name.rsplit("%", 1)
        names = tuple(str(a).strip("'\"") for a in args[:2]) if method == "prestart" else ()
        self.pevents.append((g, handle, method, names))
        return True


def obligations(it):
    """Boolean terms, each of which must be unsatisfiable."""
    depth, seq = {}, {}
    viol = []
    for n, (g, h, method, names) in enumerate(it.pevents):
        d = depth.get(h, z3.IntVal(0))
        if method == "prestart":
            viol.append(("region started while already open", h, AND(g, d >= 1)))
            depth[h] = ITE(g, d + 1, d)
            seq[h] = ITE(g, z3.IntVal(n), seq.get(h, z3.IntVal(-1)))
        elif method == "postend":
            viol.append(("region ended while not open", h, AND(g, d <= 0)))
            for h2, d2 in depth.items():
                if h2 != h:
                    viol.append(("region ended while a region opened later is still open", h,
                                 AND(g, d2 >= 1, seq[h2] > seq.get(h, z3.IntVal(-1)))))
            depth[h] = ITE(g, d - 1, d)
        else:
            # PreDeclareVariable/ProvideVariable/PreEnd/PostStart...: only inside an open region
            viol.append((f"{method} called outside an open region", h, AND(g, d <= 0)))
    for h, d in depth.items():
        viol.append(("region still open when the routine returns", h, d != 0))
    return viol


STUB = """module psydata_check_mod
  implicit none
  integer, parameter :: maxd = 64
  integer :: depth = 0
  integer :: stack(maxd)
  integer :: nviol = 0
  integer :: next_id = 0
end module psydata_check_mod
"""

STUB_KIND = """module {kind}_psy_data_mod
  use psydata_check_mod
  implicit none
  type :: {kind}_PSyDataType
    integer :: id = 0
    logical :: is_open = .false.
  contains
    procedure :: PreStart, PreEndDeclaration, PreEnd, PostStart, PostEnd
    procedure :: pd_i0, pd_r0, pd_i1, pd_r1, pd_r2, pd_l0, pd_s0
    generic :: PreDeclareVariable => pd_i0, pd_r0, pd_i1, pd_r1, pd_r2, pd_l0, pd_s0
    generic :: ProvideVariable => pd_i0, pd_r0, pd_i1, pd_r1, pd_r2, pd_l0, pd_s0
  end type {kind}_PSyDataType
contains
  subroutine PreStart(this, module_name, region_name, num_pre, num_post)
    class({kind}_PSyDataType), intent(inout), target :: this
    character(*), intent(in) :: module_name, region_name
    integer, intent(in) :: num_pre, num_post
    if (this%id == 0) then
      next_id = next_id + 1
      this%id = next_id
    end if
    if (this%is_open) then
      print *, 'PSYDATA-VIOLATION start-while-open ', module_name, ' ', region_name
      nviol = nviol + 1
    end if
    this%is_open = .true.
    depth = depth + 1
    stack(depth) = this%id
  end subroutine PreStart
  subroutine PostEnd(this)
    class({kind}_PSyDataType), intent(inout), target :: this
    if (.not. this%is_open) then
      print *, 'PSYDATA-VIOLATION end-while-not-open'
      nviol = nviol + 1
      return
    end if
    if (stack(depth) /= this%id) then
      print *, 'PSYDATA-VIOLATION end-not-innermost'
      nviol = nviol + 1
    end if
    this%is_open = .false.
    depth = depth - 1
  end subroutine PostEnd
  subroutine chk(this, what)
    class({kind}_PSyDataType), intent(inout) :: this
    character(*), intent(in) :: what
    if (.not. this%is_open) then
      print *, 'PSYDATA-VIOLATION call-outside-region ', what
      nviol = nviol + 1
    end if
  end subroutine chk
  subroutine PreEndDeclaration(this)
    class({kind}_PSyDataType), intent(inout), target :: this
    call chk(this, 'PreEndDeclaration')
  end subroutine
  subroutine PreEnd(this)
    class({kind}_PSyDataType), intent(inout), target :: this
    call chk(this, 'PreEnd')
  end subroutine
  subroutine PostStart(this)
    class({kind}_PSyDataType), intent(inout), target :: this
    call chk(this, 'PostStart')
  end subroutine
  subroutine pd_i0(this, name, v)
    class({kind}_PSyDataType), intent(inout), target :: this
    character(*), intent(in) :: name
    integer, intent(in) :: v
    call chk(this, name)
  end subroutine
  subroutine pd_l0(this, name, v)
    class({kind}_PSyDataType), intent(inout), target :: this
    character(*), intent(in) :: name
    logical, intent(in) :: v
    call chk(this, name)
  end subroutine
  subroutine pd_r0(this, name, v)
    class({kind}_PSyDataType), intent(inout), target :: this
    character(*), intent(in) :: name
    real(kind=8), intent(in) :: v
    call chk(this, name)
  end subroutine
  subroutine pd_s0(this, name, v)
    class({kind}_PSyDataType), intent(inout), target :: this
    character(*), intent(in) :: name
    real(kind=4), intent(in) :: v
    call chk(this, name)
  end subroutine
  subroutine pd_i1(this, name, v)
    class({kind}_PSyDataType), intent(inout), target :: this
    character(*), intent(in) :: name
    integer, intent(in) :: v(:)
    call chk(this, name)
  end subroutine
  subroutine pd_r1(this, name, v)
    class({kind}_PSyDataType), intent(inout), target :: this
    character(*), intent(in) :: name
    real(kind=8), intent(in) :: v(:)
    call chk(this, name)
  end subroutine
  subroutine pd_r2(this, name, v)
    class({kind}_PSyDataType), intent(inout), target :: this
    character(*), intent(in) :: name
    real(kind=8), intent(in) :: v(:,:)
    call chk(this, name)
  end subroutine
end module {kind}_psy_data_mod
"""


def stub_library():
    return STUB + "".join(STUB_KIND.format(kind=k) for k in KINDS)


def gfortran_replay(it, text, routine, model):
    try:
        driver = equiv.make_driver(it, routine, model, None)
    except (Unsupported, ValueError) as e:
        return None, f"driver generation failed: {e}"
    driver = driver.replace("  implicit none\n", "  use psydata_check_mod\n  implicit none\n", 1)
    driver = driver.replace("end program drv", "  if (depth /= 0) then\n    print *, 'PSYDATA-VIOLATION open-at-end ', depth\n"
                            "  end if\nend program drv")
    base = tempfile.mkdtemp(prefix="c28_")
    try:
        out, err = equiv.run_gfortran(stub_library() + text, driver, base)
        rep = f"! ---- driver ----\n{driver}\n! ---- instrumented ----\n{text}\n! ---- stdout ----\n{out}\n{err if out is None else ''}\n"
        if out is None:
            if err.startswith(("COMPILE-TIMEOUT", "RUN-TIMEOUT", "COMPILE-ERROR")):
                return None, "could not run: " + err[:600] + "\n" + rep
            return True, "run-time failure: " + err[:300] + "\n" + rep
        return ("PSYDATA-VIOLATION" in out), rep
    finally:
        shutil.rmtree(base, ignore_errors=True)


def schedules(routine):
    from psyclone.psyir.nodes import Schedule
    return [s for s in routine.walk(Schedule)]


def placements(routine, maxlen=3):
    """[(schedule index, lo, hi)]"""
    out = []
    for si, sch in enumerate(schedules(routine)):
        n = len(sch.children)
        for lo in range(n):
            for hi in range(lo + 1, min(n, lo + maxlen) + 1):
                out.append((si, lo, hi))
    return out


def decide(text, case, key, user_named):
    out = {"key": key, "status": None, "solver_s": 0.0, "nontrivial": True, "h": tv.text_hash(text)}
    try:
        it = PSyDataInterp(text, K=case["K"], E=case["E"])
        it.run(case["routine"])
    except Unsupported as e:
        out.update(status="unsupported", why=str(e))
        return out
    if not it.pevents:
        out.update(status="unsupported", why="no PSyData calls in the written text")
        return out
    # static: region names pairwise distinct across handles unless the user named them
    names = {}
    for g, h, method, nm in it.pevents:
        if method == "prestart":
            names.setdefault(nm, set()).add(h)
    # a name the user asked for may be shared by as many regions as the user gave it to
    dup = {nm: hs for nm, hs in names.items() if len(hs) > max(1, user_named.get(nm, 0))}
    if dup:
        nm = sorted(dup)[0]
        out.update(status="sat_replayed", diff=f"region name {nm} used by handles {sorted(dup[nm])}",
                   replay_text=f"! duplicate region name {nm}\n" + text,
                   key=dict(key, params=dict(key["params"], what="duplicate region name")))
        return out
    assume = list(it.assumptions) + list(it.bound_assumptions) + list(it.inbounds)
    if hasattr(it, "stopped"):
        assume.append(z3.Not(it.stopped))      # executions that STOP are outside the claim
    s = z3.Solver()
    s.set("timeout", 20000)
    for a in assume:
        s.add(a)
    t0 = time.time()
    reach = str(s.check())
    out["reach"] = reach
    if reach != "sat":
        out.update(status="vacuous", solver_s=time.time() - t0)
        return out
    obl = obligations(it)
    unknown = False
    for what, h, cond in obl:
        if z3.is_false(z3.simplify(cond)):
            continue
        s.push()
        s.add(cond)
        r = str(s.check())
        if r == "sat":
            model = equiv._nice_model(s, it) or s.model()
            s.pop()
            k2 = dict(key, params=dict(key["params"], what=what))
            cls = (key["unit"], what)
            if cls in _REPLAYED and core.match_finding(_FINDINGS, k2) is not None:
                # a witness of this known-finding class was already replayed by this worker
                ok, rep = True, f"(same known-finding class as an already replayed witness: {_REPLAYED[cls]})\n" + text
                out["replay_skipped"] = True
            else:
                ok, rep = gfortran_replay(it, text, case["routine"], model)
                if ok:
                    _REPLAYED[cls] = f"{key['template']} {key['params']}"
            out.update(solver_s=time.time() - t0, diff=f"{what} ({h})",
                       key=dict(key, params=dict(key["params"], what=what)),
                       replay_text=f"! {what} ({h})\n" + rep)
            out["status"] = "sat_replayed" if ok else ("sat_not_reproduced" if ok is False else "sat_unreplayable")
            return out
        if r == "unknown":
            unknown = True
        s.pop()
    out["solver_s"] = time.time() - t0
    out["status"] = "unknown" if unknown else "unsat"
    return out


def work(case):
    from psyclone.psyir.nodes import Routine, CodeBlock, Return
    outs = []
    src = case["src"]
    try:
        base = tv.read_psyir(src)
    except Exception as e:  # pylint: disable=broad-except
        return [{"key": {"unit": "reader", "template": case["template"], "params": {}},
                 "status": "psyclone_error", "why": str(e)[:200]}]
    r0 = [x for x in base.walk(Routine) if x.name == "s"][0]
    pls = placements(r0)
    T = trans_classes()

    def region_desc(routine, pl):
        sch = schedules(routine)[pl[0]]
        nodes = sch.children[pl[1]:pl[2]]
        feats = {"has_codeblock": any(n.walk(CodeBlock) for n in nodes),
                 "has_return": any(n.walk(Return) for n in nodes),
                 "in_loop": sch.ancestor(__import__("psyclone.psyir.nodes", fromlist=["Loop"]).Loop) is not None}
        return feats

    def apply_one(tname, tobj, routine, pl, options=None):
        sch = schedules(routine)[pl[0]]
        nodes = sch.children[pl[1]:pl[2]]
        return tv.safe_apply(lambda: tobj.apply(nodes, options) if options else tobj.apply(nodes))

    for tname, tcls in T.items():
        # single regions
        for pl in pls:
            p = tv.read_psyir(src)
            r = [x for x in p.walk(Routine) if x.name == "s"][0]
            key = {"unit": tname, "template": case["template"],
                   "params": dict(region_desc(r, pl), sched=pl[0], lo=pl[1], hi=pl[2], mode="single")}
            st, why = apply_one(tname, tcls(), r, pl)
            if st != "ok":
                outs.append({"key": key, "status": "refused" if st == "refused" else "psyclone_error", "why": why})
                continue
            try:
                txt = tv.write_psyir(p)
            except Exception as e:  # pylint: disable=broad-except
                outs.append({"key": key, "status": "psyclone_error", "why": f"writer: {type(e).__name__}: {e}"[:300]})
                continue
            outs.append(decide(txt, case, key, {}))
        # pairs with ONE transformation object: first region user-named, second default-named;
        # then an enclosing region around everything (nesting)
        top = [pl for pl in pls if pl[0] == 0 and pl[2] - pl[1] == 1]
        if len(top) >= 2:
            p = tv.read_psyir(src)
            r = [x for x in p.walk(Routine) if x.name == "s"][0]
            key = {"unit": tname, "template": case["template"], "params": {"mode": "reuse_named_then_default"}}
            tobj = tcls()
            st1, why1 = apply_one(tname, tobj, r, top[-1], {"region_name": ("mymod", "myregion")})
            st2, why2 = apply_one(tname, tobj, r, top[0])
            if st1 == "ok" and st2 == "ok":
                # enclose the whole body in a third region (nested)
                st3, _ = tv.safe_apply(lambda: tcls().apply(r.children[:]))
                try:
                    txt = tv.write_psyir(p)
                    outs.append(decide(txt, case, dict(key, params=dict(key["params"], nested=(st3 == "ok"))),
                                       {("mymod", "myregion"): 1}))
                except Exception as e:  # pylint: disable=broad-except
                    outs.append({"key": key, "status": "psyclone_error", "why": f"writer: {type(e).__name__}: {e}"[:300]})
            else:
                outs.append({"key": key, "status": "refused", "why": str(why1 or why2)[:160]})
    return outs


PSY_KERNEL = """module vkern_mod
  use argument_mod
  use fs_continuity_mod
  use kernel_mod
  use constants_mod
  implicit none
  type, extends(kernel_type) :: vkern_type
     type(arg_type), dimension(2) :: meta_args = (/ &
          arg_type(gh_field, gh_real, gh_readwrite, w3), &
          arg_type(gh_field, gh_real, gh_read, w2) &
          /)
     integer :: operates_on = cell_column
   contains
     procedure, nopass :: code => vkern_code
  end type vkern_type
contains
  subroutine vkern_code()
  end subroutine vkern_code
end module vkern_mod
"""


def work_psy(job):
    """PSy-layer regions (names come from PSyDataTrans.get_unique_region_name): an LFRic invoke calling one
    kernel several times; every loop gets its own region, from one re-used or from fresh transformation
    objects; the (module, region) names passed to PreStart must be pairwise distinct"""
    import re
    import shutil
    import tempfile
    from psyclone.parse.algorithm import parse
    from psyclone.psyGen import PSyFactory
    from psyclone.psyir.nodes import Loop
    tname, mode, ncalls = job
    key = {"unit": tname, "template": "psy-layer regions", "params": {"mode": mode, "ncalls": ncalls}}
    d = tempfile.mkdtemp(prefix="c28_")
    try:
        with open(os.path.join(d, "vkern_mod.f90"), "w", encoding="utf-8") as fh:
            fh.write(PSY_KERNEL)
        calls = ", ".join(f"vkern_type(f{i}, g)" for i in range(ncalls))
        with open(os.path.join(d, "alg.f90"), "w", encoding="utf-8") as fh:
            fh.write("program alg\n  use field_mod, only: field_type\n  use vkern_mod, only: vkern_type\n  implicit none\n"
                     "  type(field_type) :: g, " + ", ".join(f"f{i}" for i in range(ncalls)) +
                     f"\n  call invoke( {calls} )\nend program alg\n")
        try:
            _, info = parse(os.path.join(d, "alg.f90"), api="dynamo0.3", kernel_paths=[d])
            psy = PSyFactory("dynamo0.3", distributed_memory=False).create(info)
            sched = psy.invokes.invoke_list[0].schedule
            if tname == "LFRicExtractTrans":
                from psyclone.domain.lfric.transformations import LFRicExtractTrans as T
            else:
                T = trans_classes()[tname]
            import contextlib
            import io
            shared = T()
            with contextlib.redirect_stdout(io.StringIO()):     # (module-manager messages)
                for lp in list(sched.walk(Loop)):
                    (shared if mode == "same" else T()).apply(lp)
                txt = str(psy.gen)
        except Exception as e:  # pylint: disable=broad-except
            nm = type(e).__name__
            return [{"key": key, "status": "refused" if "Transformation" in nm or "Generation" in nm else
                     "psyclone_error", "why": f"{nm}: {e}"[:300]}]
    finally:
        shutil.rmtree(d, ignore_errors=True)
    flat = re.sub(r"&\s*\n\s*&?", "", txt)
    names = re.findall(r"%PreStart\(\s*\"([^\"]*)\"\s*,\s*\"([^\"]*)\"", flat)
    o = {"key": key, "nontrivial": True, "h": tv.text_hash(txt), "solver_s": 0.0, "reach": "sat"}
    if len(names) != ncalls:
        o.update(status="unsupported", why=f"{len(names)} PreStart calls for {ncalls} regions")
    elif len(set(names)) != len(names):
        dup = sorted(n for n in set(names) if names.count(n) > 1)
        o.update(status="sat_replayed", diff=f"two regions of one invoke share the name {dup[0]}",
                 replay_text=f"! PreStart names: {names}\n" + txt)
    else:
        o["status"] = "unsat"
    return [o]


def main():
    tier = core.tier()
    chk = core.Check(PROP, "model_checking",
                     "PSyData transformations on every statement range of every schedule; PreStart/PostEnd call "
                     "events with path guards from the symbolically executed instrumented text; z3 decides "
                     "matched/nested/closed for all inputs; gfortran replay against a checking stub library")
    cases = fam.gen(tier, core.seed())
    K, E = (3, 3) if tier == "quick" else (4, 4)
    for c in cases:
        c["K"], c["E"] = K, E
    results = core.pmap(work, cases)
    results += core.pmap(work_psy, [(t, mode, n) for t in ("ProfileTrans", "LFRicExtractTrans", "NanTestTrans",
                                                          "ReadOnlyVerifyTrans")
                                    for mode in ("same", "fresh") for n in (2, 3)])
    flat = []
    for r in results:
        flat.extend([r] if isinstance(r, tuple) else r)
    tv.aggregate(chk, flat)
    chk.cov["bounds"] = {"K": K, "E": E, "programs_generated": len(cases), "max_region_statements": 3}
    chk.cov["rule"] = ("case = (program, transformation, region placement or two-region history); distinct by hash "
                       "of the instrumented text")
    chk.cov["states"] = max(1, chk.cov["queries"])
    chk.cov["transitions"] = max(1, chk.cov["queries"])
    chk.cov["traces_validated_against_impl"] = chk.cov["sat_replayed"]
    from psyclone.psyir.transformations import PSyDataTrans
    from psyclone.psyir.nodes import PSyDataNode
    chk.cov["functions_encoded"] = core.src_hash(PSyDataTrans, PSyDataNode)
    chk.assumptions += [
        "loops unrolled to K iterations (trip <= K assumed); exact arithmetic",
        "EXIT/CYCLE/RETURN/STOP/forward GOTO executed natively by the interpreter (not via PSyclone's lowering)",
        "executions that reach a STOP statement are outside the claim (the program ends; no hook can observe it)",
        "region-name uniqueness is a static comparison of the PreStart arguments (no solver)"]
    return chk.finish()


if __name__ == "__main__":
    core.main_wrapper(main)
