"""C02: written expressions keep the grouping of the PSyIR tree (E1, expression mode).
Real code: FortranWriter() on PSyIR expression trees built with the node API (G-E).
The tree is evaluated structurally and the written text is parsed by fparser2 and
evaluated under the same grouping-sensitive semantics (vlib/fsym/groupsem.py); one
z3 query per tree asks for leaf values (and interpretations of the uninterpreted
operators) on which the two differ.  A `sat` answer is confirmed by reading the
text back with the real FortranReader and comparing the trees structurally (the
property's own observable).  Text that fparser2 rejects violates the
"standard-conforming" clause (decided by parsing, not by the solver)."""
import time

import z3

from vlib.common import core
from vlib.families import exprtrees as fam
from vlib.fsym import groupsem as G

PROP = "C02"
LOGICALS = {"p", "q", "lmask"}
ARRAYS = {"x", "y2", "lmask"}
_ENV = None


def env():
    """Symbol table with the leaf pool (built once per worker)."""
    global _ENV
    if _ENV is not None:
        return _ENV
    from psyclone.psyir.symbols import (SymbolTable, DataSymbol, INTEGER_TYPE, REAL_TYPE, BOOLEAN_TYPE,
                                        ArrayType, StructureType, Symbol, ScalarType, DataTypeSymbol)
    st = SymbolTable()
    syms = {}
    for nm in ("wp", "i_def"):
        syms[nm] = DataSymbol(nm, INTEGER_TYPE, is_constant=True, initial_value=8)
        st.add(syms[nm])
    for nm, ty in [("a", REAL_TYPE), ("b", REAL_TYPE), ("i", INTEGER_TYPE), ("j", INTEGER_TYPE),
                   ("p", BOOLEAN_TYPE), ("q", BOOLEAN_TYPE)]:
        syms[nm] = DataSymbol(nm, ty)
        st.add(syms[nm])
    syms["x"] = DataSymbol("x", ArrayType(REAL_TYPE, [10]))
    syms["y2"] = DataSymbol("y2", ArrayType(REAL_TYPE, [10, 10]))
    syms["lmask"] = DataSymbol("lmask", ArrayType(BOOLEAN_TYPE, [10]))
    stype = StructureType.create([("m", ArrayType(REAL_TYPE, [10]), Symbol.Visibility.PUBLIC, None),
                                  ("v", REAL_TYPE, Symbol.Visibility.PUBLIC, None)])
    tsym = DataTypeSymbol("s_type", stype)
    st.add(tsym)
    syms["s"] = DataSymbol("s", tsym)
    for nm in ("x", "y2", "lmask", "s"):
        st.add(syms[nm])
    _ENV = (st, syms)
    return _ENV


def build(t):
    from psyclone.psyir import nodes as N
    from psyclone.psyir.symbols import ScalarType, INTEGER_TYPE, REAL_TYPE, BOOLEAN_TYPE
    st, syms = env()
    k = t[0]
    if k == "ref":
        return N.Reference(syms[t[1]])
    if k == "lit":
        _, val, ty, prec = t
        if ty == "bool":
            return N.Literal(val, BOOLEAN_TYPE)
        intr = ScalarType.Intrinsic.INTEGER if ty == "int" else ScalarType.Intrinsic.REAL
        if prec is None:
            return N.Literal(val, INTEGER_TYPE if ty == "int" else REAL_TYPE)
        if prec == "double":
            return N.Literal(val, ScalarType(intr, ScalarType.Precision.DOUBLE))
        if isinstance(prec, int):
            return N.Literal(val, ScalarType(intr, prec))
        return N.Literal(val, ScalarType(intr, syms[prec]))
    if k == "aref":
        return N.ArrayReference.create(syms[t[1]], [build(i) for i in t[2:]])
    if k == "sref":
        _, s, comp, idx = t
        if idx is None:
            return N.StructureReference.create(syms[s], [comp])
        return N.StructureReference.create(syms[s], [(comp, [build(idx)])])
    if k == "un":
        return N.UnaryOperation.create(N.UnaryOperation.Operator[t[1]], build(t[2]))
    if k == "bin":
        return N.BinaryOperation.create(N.BinaryOperation.Operator[t[1]], build(t[2]), build(t[3]))
    if k == "intr":
        args = []
        for a, nm in zip(t[2], t[3]):
            args.append((nm, build(a)) if nm else build(a))
        return N.IntrinsicCall.create(N.IntrinsicCall.Intrinsic[t[1]], args)
    raise ValueError(t)


_W = None


def writer():
    global _W
    if _W is None:
        from psyclone.psyir.backend.fortran import FortranWriter
        _W = FortranWriter()
    return _W


def work(case):
    from psyclone.psyir.backend.fortran import FortranWriter
    from psyclone.psyir.backend.visitor import VisitorError
    from psyclone.psyir.frontend.fortran import FortranReader
    out = {"template": case["template"], "tree": case["tree"], "status": None, "solver_s": 0.0}
    try:
        tree = build(case["tree"])
    except Exception as e:  # pylint: disable=broad-except
        out.update(status="not_constructible", why=f"{type(e).__name__}: {e}"[:200])
        return out
    try:
        # written in expression context (as the right-hand side of an assignment)
        from psyclone.psyir.nodes import Assignment, Reference
        _, syms = env()
        Assignment.create(Reference(syms["lres" if False else "a"]), tree)
        text = writer()(tree)
    except (VisitorError, NotImplementedError) as e:
        out.update(status="refused", why=str(e)[:200])
        return out
    except Exception as e:  # pylint: disable=broad-except
        out.update(status="writer_error", why=f"{type(e).__name__}: {e}"[:300])
        return out
    out["text"] = text
    try:
        ptree = G.parse_expr(text)
    except SyntaxError as e:
        out.update(status="not_standard", why=str(e)[:200])
        return out
    t0 = time.time()
    # stage 1: every operator uninterpreted - the most general interpretation, so `unsat`
    # here means equal under every semantics (in particular IEEE and exact arithmetic)
    G.MODE = "uf"
    try:
        t1 = G.from_psyir(tree, LOGICALS)
        t2 = G.from_text(ptree, LOGICALS, ARRAYS, set())
    except G.GroupUnsupported as e:
        out.update(status="unsupported", why=str(e))
        return out
    finally:
        G.MODE = "fp"
    model = None
    if t1.sort() != t2.sort():
        verdict = "sat"
    elif t1.eq(t2):
        verdict = "unsat"
        out["syntactic"] = True
    else:
        s = z3.Solver()
        s.set("timeout", 20000)
        s.add(t1 != t2)
        verdict = str(s.check())
    if verdict == "sat" and t1.sort() == t2.sort():
        # stage 2: look for concrete leaf values under IEEE arithmetic (informational witness;
        # value-preserving regroupings such as (-a)*b -> -(a*b) have none)
        f1, f2 = G.from_psyir(tree, LOGICALS), G.from_text(ptree, LOGICALS, ARRAYS, set())
        s = z3.Solver()
        s.set("timeout", 3000)
        s.add(f1 != f2)
        r2 = str(s.check())
        out["fp_stage"] = r2
        if r2 == "sat":
            model = s.model()
    out["solver_s"] = time.time() - t0
    if verdict == "unsat":
        out["status"] = "unsat"
        return out
    if verdict == "unknown":
        out["status"] = "unknown"
        return out
    # replay: the property's own observable - read back and compare structurally
    st, _ = env()
    try:
        back = FortranReader().psyir_from_expression(text, st)
        same = back == tree
    except Exception as e:  # pylint: disable=broad-except
        same = False
        out["readback_error"] = f"{type(e).__name__}: {e}"[:200]
    if model is not None:
        out["witness"] = {str(d): str(model[d]) for d in model.decls()
                          if str(d).startswith("v_")}
    out["status"] = "sat_not_reproduced" if same else "sat_replayed"
    if not same:
        try:
            out["readback"] = FortranWriter()(back) if "readback_error" not in out else None
        except Exception:  # pylint: disable=broad-except
            out["readback"] = None
    return out


def shape(t):
    """Operator skeleton of a tree (for known-finding keys): leaves collapse to kind letters."""
    k = t[0]
    if k == "ref":
        return "v"
    if k == "lit":
        s = "L"
        if t[1].startswith("-"):
            s += "neg"
        if t[3] is not None:
            s += f":{t[3]}"
        return s
    if k in ("aref", "sref"):
        return "v"
    if k == "un":
        return f"{t[1]}({shape(t[2])})"
    if k == "bin":
        return f"{t[1]}({shape(t[2])},{shape(t[3])})"
    if k == "intr":
        return f"{t[1]}[{','.join(shape(a) for a in t[2])}]"
    return "?"


def features(t, out=None):
    """Predicates usable in known_findings `when`."""
    if out is None:
        out = {"neg_literal": False, "double_literal_noexp": False, "int_kind_literal": False,
               "pow_left_pow": False, "sign_left": False}
    k = t[0]
    if k == "lit":
        if t[1].startswith("-"):
            out["neg_literal"] = True
        if t[3] == "double" and "e" not in t[1].lower():
            out["double_literal_noexp"] = True
    elif k == "un":
        features(t[2], out)
    elif k == "bin":
        if t[1] == "POW" and t[2][0] == "bin" and t[2][1] == "POW":
            out["pow_left_pow"] = True
        # (a unary MINUS at the base of ** is bracketed by the writer: not part of the known finding)
        if t[1] in ("MUL", "DIV", "POW") and t[2][0] == "un" and not (t[1] == "POW" and t[2][1] == "MINUS"):
            out["sign_left"] = True
        features(t[2], out)
        features(t[3], out)
    elif k == "intr":
        for a in t[2]:
            features(a, out)
    elif k in ("aref",):
        for a in t[2:]:
            features(a, out)
    elif k == "sref" and t[3] is not None:
        features(t[3], out)
    return out


def main():
    tier = core.tier()
    chk = core.Check(PROP, "translation_validation",
                     "FortranWriter on PSyIR expression trees; tree vs fparser2-parsed text under a "
                     "grouping-sensitive semantics (FP(5,11) arithmetic, uninterpreted **, sign, logical "
                     "operators, intrinsics, kinds); z3 per tree; read-back comparison as replay")
    cases = fam.gen(tier, core.seed())
    results = core.pmap(work, cases, chunksize=64)
    seen_text = set()
    for o in results:
        if isinstance(o, tuple):
            chk.harness_error("worker exception: " + o[1][-600:])
            continue
        chk.evaluations += 1
        st = o["status"]
        key = {"unit": "FortranWriter", "template": "expr",
               "params": dict(features(o["tree"]), family=o["template"], shape=shape(o["tree"]))}
        if st in ("refused", "not_constructible"):
            chk.count("refused")
            continue
        if st == "unsupported":
            chk.count("skipped_unsupported")
            continue
        if st == "writer_error":
            chk.count("non_solver_obligations")
            chk.report(dict(key, unit="FortranWriter.internal_error"),
                       f"writer raised {o['why']} on {o['tree']}", str(o))
            continue
        if st == "not_standard":
            chk.count("non_solver_obligations")
            chk.report(dict(key, unit="FortranWriter.not_standard"),
                       f"written text '{o['text']}' is rejected by fparser2 (tree {shape(o['tree'])})",
                       f"tree: {o['tree']}\ntext: {o['text']}\n{o['why']}\n",
                       name="not_standard_" + core.hashlib.sha1(str(o["tree"]).encode()).hexdigest()[:10] + ".txt")
            continue
        chk.count("queries")
        chk.cov["solver_s"] += o["solver_s"]
        if o.get("syntactic"):
            chk.count("unsat_syntactic")
        if o["text"] not in seen_text:
            seen_text.add(o["text"])
            if o["tree"][0] in ("bin", "un", "intr"):
                chk.nontrivial.add(o["text"])
        if st == "unsat":
            chk.count("unsat")
            if chk.evaluations % 2000 == 1:
                chk.sample({"tree": str(o["tree"]), "text": o["text"], "verdict": "unsat"})
        elif st == "unknown":
            chk.count("inconclusive")
        elif st == "sat_replayed":
            chk.count("sat_replayed")
            r = chk.report(key, f"tree {o['tree']} written as '{o['text']}' which reads back as "
                           f"'{o.get('readback')}'",
                           f"tree: {o['tree']}\ntext: {o['text']}\nreadback: {o.get('readback')} "
                           f"{o.get('readback_error', '')}\nwitness: {o.get('witness')}\n",
                           name="regrouped_" + core.hashlib.sha1(str(o["tree"]).encode()).hexdigest()[:10] + ".txt")
            chk.sample({"tree": str(o["tree"]), "text": o["text"], "verdict": "sat, read-back differs: " + r}, 10)
        elif st == "sat_not_reproduced":
            chk.count("sat_not_reproduced")
            chk.harness_error(f"solver says regrouped but read-back equal: {o['tree']} -> {o['text']}")
    chk.cov["bounds"] = {"depth_exhaustive": 2, "depth_sampled": 4, "trees": len(cases), "fp_format": "FPSort(5,11)"}
    chk.cov["programs"] = chk.cov["queries"]
    chk.cov["rule"] = ("case = PSyIR expression tree; non-trivial = has at least one operator; distinct by written text")
    from psyclone.psyir.backend.fortran import FortranWriter
    chk.cov["functions_encoded"] = core.src_hash(FortranWriter.binaryoperation_node, FortranWriter.unaryoperation_node,
                                                 FortranWriter.literal_node)
    chk.assumptions += [
        "fparser2's expression grammar is the reference for how Fortran groups the written text",
        "grouping-sensitive semantics: numeric values in FPSort(5,11)/RNE; **, unary sign, logical operators, "
        "intrinsics, array/structure accesses and literal kinds uninterpreted",
        "trees: exhaustive to depth 2 over two numeric and two logical leaves, leaves then decorated with "
        "literals/array/structure accesses at random (VERIF_SEED); depth 3-4 sampled",
        "REM operator has no Fortran spelling (writer refuses): outside the claim"]
    return chk.finish()


if __name__ == "__main__":
    core.main_wrapper(main)
