"""C01: reading and re-writing Fortran preserves behaviour (E1).
Real code: FortranReader().psyir_from_source + FortranWriter() on every G-F program.
The original text and the written text are both executed symbolically by fsym (native
semantics for SELECT CASE, WHERE, array notation, named/optional arguments, code
blocks) and one z3 query per program decides equality of every observable for all
inputs.  By-products that are part of the property's statement and are decided
without the solver: reader/writer internal errors and written text that gfortran
rejects."""
import os
import shutil
import subprocess
import tempfile

from vlib.common import core, tv
from vlib.families import frontend as fam
from vlib.fsym.interp import Unsupported, Interp

PROP = "C01"


def gfortran_syntax(src):
    d = tempfile.mkdtemp(prefix="c01_")
    try:
        with open(os.path.join(d, "u.f90"), "w", encoding="utf-8") as fh:
            fh.write(src)
        try:
            p = subprocess.run(["gfortran", "-fsyntax-only", "-ffree-line-length-none", "u.f90"], cwd=d,
                               capture_output=True, text=True, timeout=300)
        except subprocess.TimeoutExpired:
            return None, "timeout"
        return p.returncode == 0, p.stderr[-1500:]
    finally:
        shutil.rmtree(d, ignore_errors=True)


def work(case):
    key = {"unit": "reader+writer", "template": case["template"], "params": case["params"]}
    src = case["src"]
    # the original must be acceptable to the oracle interpreter and to gfortran, else the
    # case says nothing about PSyclone
    try:
        Interp(src, K=case["K"], E=case["E"]).run(case["routine"])
    except Unsupported as e:
        return [{"key": key, "status": "unsupported", "why": "original: " + str(e)}]
    try:
        psyir = tv.read_psyir(src)
    except Exception as e:  # pylint: disable=broad-except
        return [{"key": dict(key, unit="FortranReader"), "status": "internal_error",
                 "why": f"{type(e).__name__}: {e}"[:400], "replay_text": src}]
    try:
        txt = tv.write_psyir(psyir)
    except Exception as e:  # pylint: disable=broad-except
        return [{"key": dict(key, unit="FortranWriter"), "status": "internal_error",
                 "why": f"{type(e).__name__}: {e}"[:400], "replay_text": src}]
    out = tv.decide(src, txt, case["routine"], case["K"], case["E"], key, check_oob=True)
    if out["status"] == "unsupported" and not out.get("why", "").startswith("original"):
        ok, err = gfortran_syntax(txt)
        if ok is False:
            ok0, _ = gfortran_syntax(src)
            if ok0:
                out = {"key": dict(key, unit="FortranWriter"), "status": "does_not_compile",
                       "why": err[-400:], "replay_text": "! ---- original ----\n" + src +
                       "\n! ---- written ----\n" + txt + "\n! ---- gfortran ----\n" + err}
    out["ncodeblocks"] = txt.count("\n") and sum(1 for _ in psyir.walk(
        __import__("psyclone.psyir.nodes", fromlist=["CodeBlock"]).CodeBlock))
    return [out]


def main():
    tier = core.tier()
    chk = core.Check(PROP, "translation_validation",
                     "FortranReader + FortranWriter on the G-F construct family; original vs written text "
                     "executed by fsym; z3 equivalence of all observables; gfortran replay")
    cases = fam.gen(tier, core.seed())
    K, E = (3, 3) if tier == "quick" else (4, 4)
    for c in cases:
        c["K"], c["E"] = K, E
    results = core.pmap(work, cases)
    flat = []
    special = []
    for r in results:
        for o in ([r] if isinstance(r, tuple) else r):
            if isinstance(o, dict) and o.get("status") in ("internal_error", "does_not_compile"):
                special.append(o)
            else:
                flat.append(o)
    tv.aggregate(chk, flat)
    for o in special:
        chk.evaluations += 1
        chk.count("non_solver_obligations")
        what = (f"{o['key']['unit']} {o['status'].replace('_', ' ')} on {o['key']['template']} "
                f"{o['key']['params']}: {o['why'][:200]}")
        chk.report(o["key"], what, o.get("replay_text", ""))
    chk.cov["bounds"] = {"K": K, "E": E, "programs_generated": len(cases)}
    chk.cov["rule"] = ("case = G-F program; non-trivial = the program changes an observable; distinct by hash of "
                       "(original, written) text")
    chk.cov["programs"] = chk.cov["queries"]
    chk.cov["codeblock_programs"] = sum(1 for o in flat if isinstance(o, dict) and o.get("ncodeblocks"))
    from psyclone.psyir.frontend.fparser2 import Fparser2Reader
    from psyclone.psyir.backend.fortran import FortranWriter
    chk.cov["functions_encoded"] = core.src_hash(Fparser2Reader, FortranWriter)
    chk.assumptions += [
        "array extents and loop trip counts <= E/K (assumed in the query)",
        "exact integer/real arithmetic (the property's exactly-representable domain)",
        "the original program is conforming (subscripts in bounds, conformable shapes) - assumed; the written "
        "program must then be in bounds too (checked)",
        "program quantifier = enumerated G-F family; input quantifier = solver",
        "reader/writer internal errors and gfortran rejections are decided by running the real code, not by the solver"]
    return chk.finish()


if __name__ == "__main__":
    core.main_wrapper(main)
