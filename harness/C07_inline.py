"""C07: inlining preserves the caller (E1).
Real code: InlineTrans().validate/apply on every Call of the G-I family (no force).
The original is executed with real call semantics (actual-argument locations fixed at
the call, callee body run on them), the inlined routine as straight-line code; one z3
query per call decides equality of every observable of the caller for all inputs,
including the index variables used in actual arguments."""
from vlib.common import core, tv
from vlib.families import calls as fam

PROP = "C07"


def specs():
    from psyclone.psyir.transformations import InlineTrans
    from psyclone.psyir.nodes import Call, IntrinsicCall
    return [("InlineTrans", InlineTrans,
             lambda n: isinstance(n, Call) and not isinstance(n, IntrinsicCall)
             and n.ancestor(__import__("psyclone.psyir.nodes", fromlist=["Routine"]).Routine).name == "s",
             None)]


def describe(node):
    try:
        return node.debug_string().strip()[:60]
    except Exception:  # pylint: disable=broad-except
        return type(node).__name__


def work(case):
    return tv.run_apps(case, specs(), case["K"], case["E"], describe=describe, check_oob=True)


def main():
    tier = core.tier()
    chk = core.Check(PROP, "translation_validation",
                     "InlineTrans validate+apply on every call of the G-I caller/callee family; "
                     "fsym+z3 equivalence of all caller observables; gfortran replay")
    cases = fam.gen(tier, core.seed())
    K, E = (3, 3) if tier == "quick" else (4, 4)
    for c in cases:
        c["K"], c["E"] = K, E
    results = core.pmap(work, cases)
    flat = []
    for r in results:
        flat.extend([r] if isinstance(r, tuple) else r)
    tv.aggregate(chk, flat)
    chk.cov["bounds"] = {"K": K, "E": E, "programs_generated": len(cases)}
    chk.cov["rule"] = ("case = (G-I template, parameters, call site); non-trivial = the original changes an "
                       "observable; distinct by hash of (original, inlined) text")
    chk.cov["programs"] = chk.cov["queries"]
    from psyclone.psyir.transformations import InlineTrans
    chk.cov["functions_encoded"] = core.src_hash(InlineTrans)
    chk.assumptions += [
        "array extents and loop trip counts <= E/K (assumed in the query)",
        "exact integer/real arithmetic",
        "the original program is conforming: subscripts in bounds, no aliasing between a modified dummy "
        "and another dummy/actual (Fortran's argument-association rules) EXCEPT where the template says so",
        "program quantifier = enumerated G-I family; input quantifier = solver"]
    return chk.finish()


if __name__ == "__main__":
    core.main_wrapper(main)
