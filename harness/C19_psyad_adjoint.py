"""C19: PSyAD adjoints are exact transposes (E1 over exact reals).
Real code: psyclone.psyad.tl2ad.generate_adjoint_str(tl_src, active_vars) on every
tangent-linear kernel of the G-TL family.  The TL routine A and the generated adjoint A*
are both executed symbolically (fsym): the active variables' values x (for A) and y (for
A*) and all passive coefficients are solver variables.  z3 decides
    <A x, y> = <x, A* y>         (sum over every active variable and element)
for all x, y and passive data, and that both routines leave passive data untouched.
If the bilinear identity is too hard for the non-linear solver it is decided
coefficient-wise: x = e_i, y = e_j with the passive data symbolic (after a solver-checked
linearity lemma for A and A*)."""
import time

import z3

from vlib.common import core, tv
from vlib.families import tlkernels as fam
from vlib.fsym import equiv
from vlib.fsym.interp import Interp, Unsupported
from vlib.fsym.terms import select, AND, ITE

PROP = "C19"
R = z3.RealSort()


def run(src, routine, K, E, concrete=None):
    it = Interp(src, K=K, E=E)
    if concrete:
        it.concrete_inputs = concrete
    it.run(routine)
    return it


def active_elems(it, active, ext):
    """[(key, index tuple or (), guard)] for every element of every active dummy"""
    out = []
    fr = it.top_frame
    for nm in active:
        b = fr.vars.get(nm)
        if b is None or b.key is None or not b.key.startswith("in_"):
            continue            # active locals are not part of the interface
        if b.rank == 0:
            out.append((b.key, (), z3.BoolVal(True)))
        else:
            lb, ub = b.bounds[0]
            n = ext if isinstance(ext, int) else it.E
            for k in range(1, n + 1):
                kk = z3.IntVal(k)
                out.append((b.key, (kk,), z3.And(kk >= lb, kk <= ub)))
    return out


def val(term, idx):
    return select(term, list(idx)) if idx else term


def decide(case, tl_src, ad_src, key):
    """extent n is enumerated concretely (0..E, or the literal extent); everything else symbolic"""
    ext = int(case["ext"]) if case["ext"].isdigit() else None
    sizes = [ext] if ext else list(range(0, case["E"] + 1))
    total = {"key": key, "solver_s": 0.0, "nontrivial": True, "h": tv.text_hash(tl_src + ad_src),
             "status": "unsat", "nqueries": 0, "mode": "bilinear"}
    for n in sizes:
        o = decide_n(case, tl_src, ad_src, key, n)
        total["solver_s"] += o.get("solver_s", 0.0)
        total["nqueries"] += 1
        if o.get("mode") == "coefficient-wise":
            total["mode"] = "coefficient-wise"
        if o["status"] == "unsat":
            continue
        if o["status"] in ("sat_replayed", "sat_not_reproduced", "sat_unreplayable", "unsupported"):
            o["solver_s"] = total["solver_s"]
            o["nqueries"] = total["nqueries"]
            if o["status"].startswith("sat"):
                o["key"] = dict(o["key"], params=dict(o["key"]["params"], n=n))
            return o
        if o["status"] == "vacuous":
            total["vacuous_n"] = total.get("vacuous_n", 0) + 1     # kernel not conforming for this extent
            continue
        total["status"] = o["status"]       # unknown: keep looking for a definite answer
    if total.get("vacuous_n", 0) == len(sizes):
        total["status"] = "vacuous"
    return total


def decide_n(case, tl_src, ad_src, key, n):
    K = max(case["K"], n)
    ext = n
    E = max(n, 1)
    out = {"key": key, "solver_s": 0.0, "nontrivial": True, "h": tv.text_hash(tl_src + ad_src)}
    conc = {"in_n": z3.IntVal(n)}
    try:
        i1 = run(tl_src, "kern", K, E, concrete=conc)
        i2 = run(ad_src, "adj_kern", K, E, concrete=conc)
    except Unsupported as e:
        out.update(status="unsupported", why=str(e))
        return out
    active = case["active"]
    elems = active_elems(i1, active, ext)
    akeys = sorted({i1.top_frame.vars[nm].key for nm in active
                    if nm in i1.top_frame.vars and str(i1.top_frame.vars[nm].key).startswith("in_")})
    # y: rename the adjoint run's active inputs
    sub = []
    ysym = {}
    for k in akeys:
        if k not in i2.inputs:
            out.update(status="unsupported", why=f"adjoint has no input {k}")
            return out
        y = z3.Const("y_" + k, i2.inputs[k].sort())
        ysym[k] = y
        sub.append((i2.inputs[k], y))
    lhs = z3.RealVal(0)
    rhs = z3.RealVal(0)
    for k, idx, g in elems:
        ax = val(i1.store[k], idx)
        x = val(i1.inputs[k], idx)
        y = val(ysym[k], idx)
        aty = z3.substitute(val(i2.store[k], idx), *sub)
        lhs = lhs + ITE(g, ax * y, z3.RealVal(0))
        rhs = rhs + ITE(g, x * aty, z3.RealVal(0))
    assume = list(i1.assumptions) + list(i1.inbounds) + list(i1.bound_assumptions)
    assume += [z3.substitute(a, *sub) for a in list(i2.assumptions) + list(i2.bound_assumptions) +
               list(i2.nonzero_conds)]
    s = z3.Solver()
    s.set("timeout", 15000)
    for a in assume:
        s.add(a)
    t0 = time.time()
    reach = str(s.check())
    out["reach"] = reach
    if reach != "sat":
        out.update(status="vacuous", solver_s=time.time() - t0)
        return out
    # passive data untouched by both routines
    for it_, nm in ((i1, "TL"), (i2, "adjoint")):
        for k in it_.inputs:
            if not k.startswith("in_") or k in akeys or k not in it_.store:
                continue
            if it_.store[k].eq(it_.inputs[k]):
                continue
            s.push()
            a, b = it_.store[k], it_.inputs[k]
            if z3.is_array(a):
                j = z3.Int("pidx")
                s.add(z3.Select(a, j) != z3.Select(b, j))
            else:
                s.add(a != b)
            r = str(s.check())
            s.pop()
            if r == "sat":
                out.update(status="sat_replayed", solver_s=time.time() - t0,
                           diff=f"{nm} routine modifies passive variable {k}",
                           key=dict(key, params=dict(key["params"], what="passive modified")),
                           replay_text=f"! {nm} routine modifies passive {k}\n{tl_src}\n{ad_src}")
                return out
    # the adjoint must stay inside the declared bounds whenever the TL kernel does
    nz = {c.get_id() for c in i2.nonzero_conds}
    oob = [z3.substitute(c, *sub) for c in i2.inbounds if c.get_id() not in nz]
    if oob:
        s.push()
        s.add(z3.Not(z3.And(*oob)))
        r = str(s.check())
        model = s.model() if r == "sat" else None
        s.pop()
        if r == "sat":
            ok, text = gfortran_replay(case, tl_src, ad_src, i1, i2, model, elems, akeys, ysym, "bilinear", n)
            out.update(solver_s=time.time() - t0, diff="adjoint accesses an array out of bounds",
                       key=dict(key, params=dict(key["params"], what="adjoint out of bounds")),
                       replay_text=text)
            out["status"] = "sat_replayed" if ok else ("sat_not_reproduced" if ok is False else "sat_unreplayable")
            return out
    diff = z3.simplify(lhs - rhs, som=True, hoist_mul=False, arith_lhs=True)
    if z3.is_rational_value(diff) and diff.numerator_as_long() == 0:
        r, model = "unsat", None
        out["by_normalisation"] = True
    else:
        s.push()
        s.add(diff != 0)
        r = str(s.check())
        model = s.model() if r == "sat" else None
        s.pop()
    mode = "bilinear"
    if r == "unknown":
        r, model = coefficientwise(case, tl_src, ad_src, i1, i2, elems, akeys, assume, K, E, conc)
        mode = "coefficient-wise"
    out["solver_s"] = time.time() - t0
    out["mode"] = mode
    if r == "unsat":
        out["status"] = "unsat"
        return out
    if r == "unknown":
        out["status"] = "unknown"
        return out
    # replay with gfortran: evaluate both inner products on the witness
    ok, text = gfortran_replay(case, tl_src, ad_src, i1, i2, model, elems, akeys, ysym, mode, n)
    out["diff"] = "<A x, y> /= <x, A* y>"
    out["replay_text"] = text
    out["status"] = "sat_replayed" if ok else ("sat_not_reproduced" if ok is False else "sat_unreplayable")
    return out


def coefficientwise(case, tl_src, ad_src, i1, i2, elems, akeys, assume, K, E, conc0):
    """Linearity lemma for A and A* (A(x) = sum_i x_i A(e_i), checked by the solver on the
    symbolic run against concrete-basis runs), then M[j][i] = N[i][j] for all i, j."""
    basis = [(k, idx) for k, idx, g in elems]

    def unit(it, which):
        conc = dict(conc0)
        for k in akeys:
            t = it.inputs[k]
            if z3.is_array(t):
                arr = z3.K(z3.IntSort(), z3.RealVal(0))
                if which[0] == k:
                    arr = z3.Store(arr, which[1][0], z3.RealVal(1))
                conc[k] = arr
            else:
                conc[k] = z3.RealVal(1 if which == (k, ()) else 0)
        return conc
    cols_a, cols_n = {}, {}
    try:
        for bi in basis:
            ia = run(tl_src, "kern", K, E, concrete=unit(i1, bi))
            cols_a[bi] = {bj: val(ia.store[bj[0]], bj[1]) for bj in basis}
            ib = run(ad_src, "adj_kern", K, E, concrete=unit(i2, bi))
            cols_n[bi] = {bj: val(ib.store[bj[0]], bj[1]) for bj in basis}
    except Unsupported:
        return "unknown", None
    s = z3.Solver()
    s.set("timeout", 15000)
    for a in assume:
        s.add(a)
    guards = {(k, idx): g for k, idx, g in elems}
    # linearity lemmas
    for it_, cols in ((i1, cols_a), (i2, cols_n)):
        for bj in basis:
            lin = z3.RealVal(0)
            for bi in basis:
                lin = lin + ITE(guards[bi], val(it_.inputs[bi[0]], bi[1]) * cols[bi][bj], z3.RealVal(0))
            s.push()
            s.add(guards[bj], val(it_.store[bj[0]], bj[1]) != lin)
            r = str(s.check())
            s.pop()
            if r != "unsat":
                return "unknown", None
    for bi in basis:
        for bj in basis:
            s.push()
            s.add(guards[bi], guards[bj], cols_a[bi][bj] != cols_n[bj][bi])
            r = str(s.check())
            if r == "sat":
                m = s.model()
                s.pop()
                return "sat", ("basis", bi, bj, m)
            s.pop()
            if r == "unknown":
                return "unknown", None
    return "unsat", None


def gfortran_replay(case, tl_src, ad_src, i1, i2, model, elems, akeys, ysym, mode, nval):
    """driver: x, y and passive data from the witness; prints both inner products"""
    import shutil
    import tempfile
    from fractions import Fraction
    basis_info = None
    if mode == "coefficient-wise":
        _, bi, bj, model = model
        basis_info = (bi, bj)
    fr = i1.top_frame
    lines = ["program drv", "  use kern_mod", "  use adj_kern_mod", "  implicit none"]
    sets = []
    ext = nval
    for d in fr.dummies:
        b = fr.vars[d]
        ts = "integer" if b.tname == "integer" else "real(kind=8)"
        if b.rank == 0:
            lines.append(f"  {ts} :: {d}, x_{d}, y_{d}")
        else:
            lines.append(f"  {ts} :: {d}({max(nval, 0)}), x_{d}({max(nval, 0)}), y_{d}({max(nval, 0)})")
    lines.append("  real(kind=8) :: ip1, ip2")

    def lit(v, tname="real"):
        return equiv._flit(v, tname)
    for d in fr.dummies:
        b = fr.vars[d]
        act = b.key in akeys
        if b.rank == 0:
            if basis_info and act:
                xv = 1 if basis_info[0] == (b.key, ()) else 0
                yv = 1 if basis_info[1] == (b.key, ()) else 0
            else:
                xv = equiv.mval(model, i1.inputs[b.key]) if b.key in i1.inputs else 0
                yv = equiv.mval(model, ysym[b.key]) if act else xv
            if d == "n":
                xv = yv = nval
            sets.append(f"  x_{d} = {lit(xv, b.tname)}")
            sets.append(f"  y_{d} = {lit(yv, b.tname)}")
        else:
            for k in range(1, nval + 1):
                kk = z3.IntVal(k)
                if basis_info and act:
                    xv = 1 if basis_info[0] == (b.key, (kk,)) or (basis_info[0][0] == b.key and
                                                                 str(basis_info[0][1][0]) == str(k)) else 0
                    yv = 1 if (basis_info[1][0] == b.key and str(basis_info[1][1][0]) == str(k)) else 0
                else:
                    xv = equiv.mval(model, z3.Select(i1.inputs[b.key], kk))
                    yv = equiv.mval(model, z3.Select(ysym[b.key], kk)) if act else xv
                sets.append(f"  x_{d}({k}) = {lit(xv, b.tname)}")
                sets.append(f"  y_{d}({k}) = {lit(yv, b.tname)}")
    lines += sets
    args = ", ".join(fr.dummies)
    for d in fr.dummies:
        lines.append(f"  {d} = x_{d}")
    lines.append(f"  call kern({args})")
    lines.append("  ip1 = 0.0d0")
    for d in fr.dummies:
        b = fr.vars[d]
        if b.key in akeys:
            lines.append(f"  ip1 = ip1 + {'sum(' + d + ' * y_' + d + ')' if b.rank else d + ' * y_' + d}")
    for d in fr.dummies:
        lines.append(f"  {d} = y_{d}")
    lines.append(f"  call adj_kern({args})")
    lines.append("  ip2 = 0.0d0")
    for d in fr.dummies:
        b = fr.vars[d]
        if b.key in akeys:
            lines.append(f"  ip2 = ip2 + {'sum(' + d + ' * x_' + d + ')' if b.rank else d + ' * x_' + d}")
    lines += ["  print *, 'OBS-BEGIN'", "  print *, ip1", "  print *, ip2", "end program drv"]
    driver = "\n".join(lines) + "\n"
    base = tempfile.mkdtemp(prefix="c19_")
    try:
        outp, err = equiv.run_gfortran(tl_src + "\n" + ad_src, driver, base)
        text = f"! ---- driver ----\n{driver}\n! ---- TL ----\n{tl_src}\n! ---- adjoint ----\n{ad_src}\n! ---- stdout ----\n{outp}\n{err if outp is None else ''}\n"
        if outp is None:
            if str(err).startswith("RUNTIME-ERROR"):
                return True, "run-time error (bounds check): " + str(err)[:300] + "\n" + text
            return None, "could not run: " + str(err)[:500] + "\n" + text
        nums = equiv.parse_numbers(outp.split("OBS-BEGIN")[-1])
        if len(nums) != 2 or any(isinstance(x, str) for x in nums):
            return None, text
        a, b = nums
        return abs(a - b) > 1e-9 * max(1.0, abs(a), abs(b)), text
    finally:
        shutil.rmtree(base, ignore_errors=True)


def work(case):
    from psyclone.psyad.tl2ad import generate_adjoint_str
    key = {"unit": "generate_adjoint_str", "template": case["template"], "params": case["params"]}
    try:
        psyad_in = case["src"]
        if case.get("assumed"):
            # PSyAD is given the same kernel with assumed-shape dummies; the explicit extent is put back into the
            # adjoint afterwards (the kernel is conforming for extent n, so both declarations mean the same)
            import re as _re
            psyad_in = _re.sub(r"\b([abc])\(n\)", r"\1(:)", psyad_in)
        ad_src, _ = generate_adjoint_str(psyad_in, case["active"])
        if case.get("assumed"):
            ad_src = _re.sub(r"dimension\(:\)", "dimension(n)", ad_src, flags=_re.I)
    except Exception as e:  # pylint: disable=broad-except
        name = type(e).__name__
        if name in ("TangentLinearError", "NotImplementedError", "TransformationError"):
            return [{"key": key, "status": "refused", "why": f"{name}: {e}"[:200]}]
        return [{"key": key, "status": "psyclone_error", "why": f"{name}: {e}"[:300]}]
    src = case["src"]
    if case.get("imported"):
        src, ad_src = localise(src), localise(ad_src)
    return [decide(case, src, ad_src, key)]


def localise(text):
    """the imported passive coefficient `kk` becomes an extra intent(in) dummy, in the tangent-linear and the
    adjoint text alike (fsym and the gfortran driver need it declared)"""
    import re
    text = re.sub(r"^[ \t]*use consts_mod, only\s*:\s*kk[ \t]*\n", "", text, flags=re.I | re.M)

    def sub(m):
        return (f"{m.group(1)}subroutine {m.group(2)}({m.group(3)}, kk)\n{m.group(1)}  real(kind=r_def), intent(in) :: kk\n")
    return re.sub(r"^([ \t]*)subroutine (\w+)\(([^)]*)\)[ \t]*\n", sub, text, flags=re.I | re.M)


def main():
    tier = core.tier()
    chk = core.Check(PROP, "translation_validation",
                     "generate_adjoint_str on the G-TL kernel family; TL routine and generated adjoint executed "
                     "symbolically over exact reals; z3 decides <Ax,y> = <x,A*y> for all x, y and passive data "
                     "(bilinear query, else coefficient-wise after a linearity lemma); gfortran replay")
    cases = fam.gen(tier, core.seed())
    K, E = (4, 4) if tier == "quick" else (5, 5)
    for c in cases:
        c["K"], c["E"] = K, E
    results = core.pmap(work, cases)
    flat = []
    for r in results:
        flat.extend([r] if isinstance(r, tuple) else r)
    tv.aggregate(chk, flat)
    chk.cov["bounds"] = {"K": K, "E_symbolic_extent": E, "literal_extent": 10, "programs_generated": len(cases)}
    chk.cov["modes"] = {m: sum(1 for o in flat if isinstance(o, dict) and o.get("mode") == m)
                        for m in ("bilinear", "coefficient-wise")}
    chk.cov["rule"] = ("case = TL kernel (loop header x statement, straight-line, branch on passive data, combinations); "
                       "distinct by hash of (TL, adjoint) text")
    chk.cov["programs"] = chk.cov["queries"]
    from psyclone.psyad import AdjointVisitor
    from psyclone.psyad.transformations import AssignmentTrans
    chk.cov["functions_encoded"] = core.src_hash(AdjointVisitor, AssignmentTrans)
    chk.assumptions += [
        "exact real arithmetic; symbolic extents n <= E and trip counts <= K (assumed); literal loops fully unrolled",
        "the TL kernel is conforming (subscripts in bounds, no division by zero) - assumed",
        "inner product = sum over every element of every active dummy argument (active locals are internal)",
        "the PSyAD-generated test harness program is not executed (only the adjoint routine is validated)"]
    return chk.finish()


if __name__ == "__main__":
    core.main_wrapper(main)
