"""C08: loops reported parallelisable carry no dependence (E1 trace + E4).
Real code: DependencyTools().can_loop_be_parallelised(loop) on every loop of the G-D
family (each call under a wall-clock alarm: the property also says the analysis
terminates).  When the verdict is True the loop is executed symbolically (K iterations
from a symbolic pre-state, event trace on) and z3 is asked for an input on which two
distinct iterations touch the same location with at least one write - excluding, as the
property does, scalars that every iteration unconditionally writes before reading (that
exemption is itself two solver queries over the trace guards)."""
import signal
import time

import z3

from vlib.common import core, tv
from vlib.families import deps as fam
from vlib.fsym.interp import Interp, Unsupported, parse
from vlib.fsym.terms import AND, OR, NOT, simp

PROP = "C08"
ALARM_S = 40


class _Timeout(Exception):
    pass


def _alarm(signum, frame):
    raise _Timeout()


def verdict_of(loop):
    from psyclone.psyir.tools import DependencyTools
    old = signal.signal(signal.SIGALRM, _alarm)
    signal.alarm(ALARM_S)
    try:
        dt = DependencyTools()
        return bool(dt.can_loop_be_parallelised(loop)), [str(m) for m in dt.get_all_messages()][:3]
    except _Timeout:
        return "hang", []
    except Exception as e:  # pylint: disable=broad-except
        return "error", [f"{type(e).__name__}: {e}"[:200]]
    finally:
        signal.alarm(0)
        signal.signal(signal.SIGALRM, old)


def do_constructs(tree):
    from fparser.two import Fortran2003 as F
    from fparser.two.utils import walk
    return walk(tree, (F.Block_Nonlabel_Do_Construct, F.Block_Label_Do_Construct))


def iteration_events(it, loop_id):
    """{(outer prefix, k): [events in order]} for the instances of loop `loop_id`; the ITER
    marker event carries the iteration guard."""
    groups = {}
    for e in it.trace:
        pos = None
        for p, (lid, k, _) in enumerate(e.iters):
            if lid == loop_id:
                pos = p
        if pos is None:
            continue
        prefix = tuple((lid, k) for lid, k, _ in e.iters[:pos])
        groups.setdefault((prefix, e.iters[pos][1]), []).append(e)
    return groups


def analyse(it, loop_id, timeout_ms=20000):
    """-> dict(status=..., key=..., model=...)"""
    groups = iteration_events(it, loop_id)
    assume = list(it.assumptions) + list(it.bound_assumptions) + list(it.inbounds)
    s = z3.Solver()
    s.set("timeout", timeout_ms)
    for a in assume:
        s.add(a)
    t0 = time.time()
    res = {"queries": 0, "unsat": 0, "unknown": 0, "exempt": [], "conflict": None, "reach": None}
    iterg = {}
    for gk, evs in groups.items():
        for e in evs:
            if e.kind == "ITER":
                iterg[gk] = e.guard
                break
    # reachability twin: two iterations of one instance can both run
    pairs = [(g1, g2) for g1 in groups for g2 in groups if g1[0] == g2[0] and g1[1] < g2[1]]
    if not pairs:
        res["reach"] = "no-two-iterations"
        res["solver_s"] = time.time() - t0
        return res
    s.push()
    s.add(OR(*[AND(iterg.get(a, z3.BoolVal(True)), iterg.get(b, z3.BoolVal(True))) for a, b in pairs]))
    res["reach"] = str(s.check())
    s.pop()
    if res["reach"] != "sat":
        res["solver_s"] = time.time() - t0
        return res
    keys = []
    for evs in groups.values():
        for e in evs:
            if e.kind in ("R", "W") and e.key not in keys:
                keys.append(e.key)
    loopvar_key = None
    for evs in groups.values():
        for e in evs:
            if e.kind == "ITER":
                loopvar_key = e.key
    for key in keys:
        if key == loopvar_key:
            continue
        written = any(e.kind == "W" and e.key == key for evs in groups.values() for e in evs)
        if not written:
            continue
        scalar = all(len(e.idx) == 0 for evs in groups.values() for e in evs if e.key == key)
        if scalar:
            # exemption: every iteration unconditionally writes the scalar before reading it
            read_first, not_written = [], []
            for gk, evs in groups.items():
                wg = []
                for e in evs:
                    if e.key != key or e.kind not in ("R", "W"):
                        continue
                    if e.kind == "R":
                        read_first.append(AND(e.guard, NOT(OR(*wg))))
                    else:
                        wg.append(e.guard)
                not_written.append(AND(iterg.get(gk, z3.BoolVal(True)), NOT(OR(*wg))))
            ex = True
            for cond in (OR(*read_first), OR(*not_written)):
                if z3.is_false(simp(cond)):
                    continue
                s.push()
                s.add(cond)
                r = str(s.check())
                res["queries"] += 1
                s.pop()
                if r == "unsat":
                    res["unsat"] += 1
                elif r == "unknown":
                    res["unknown"] += 1
                    ex = False
                else:
                    ex = False
            if ex:
                res["exempt"].append(key)
                continue
        conds = []
        for a, b in pairs:
            for e1 in groups[a]:
                if e1.key != key or e1.kind not in ("R", "W"):
                    continue
                for e2 in groups[b]:
                    if e2.key != key or e2.kind not in ("R", "W"):
                        continue
                    if e1.kind == "R" and e2.kind == "R":
                        continue
                    if len(e1.idx) != len(e2.idx):
                        continue
                    conds.append((AND(e1.guard, e2.guard, *[x == y for x, y in zip(e1.idx, e2.idx)]),
                                  (a, b, e1, e2)))
        if not conds:
            continue
        s.push()
        s.add(OR(*[c for c, _ in conds]))
        r = str(s.check())
        res["queries"] += 1
        if r == "sat":
            m = s.model()
            which = None
            for c, info in conds:
                if z3.is_true(m.eval(c, model_completion=True)):
                    which = info
                    break
            res["conflict"] = {"key": key, "model": m, "info": which}
            s.pop()
            break
        if r == "unsat":
            res["unsat"] += 1
        else:
            res["unknown"] += 1
        s.pop()
    res["solver_s"] = time.time() - t0
    return res


def concrete_replay(src, routine, K, loop_index, it, model, exempt):
    """Re-run the interpreter with every input fixed to the model's value: all guards and
    subscripts simplify to literals; Bernstein's conditions are then checked on plain sets."""
    conc = {}
    for k, t in it.inputs.items():
        if z3.is_expr(t):
            conc[k] = model.eval(t, model_completion=True)
    tree = parse(src)
    it2 = Interp(src, K=K, E=3, trace=True, tree=tree)
    it2.concrete_inputs = conc
    it2.run(routine)
    loop_id = it2.stmt_ids[id(do_constructs(tree)[loop_index])][0]
    groups = iteration_events(it2, loop_id)
    sets = {}
    for gk, evs in groups.items():
        rd, wr = set(), set()
        for e in evs:
            if e.kind not in ("R", "W") or e.key in exempt:
                continue
            g = z3.simplify(z3.substitute(e.guard)) if False else z3.simplify(e.guard)
            if not z3.is_true(g):
                if not z3.is_false(g):
                    return None, f"guard of {e} not concrete: {g}"
                continue
            idx = []
            for x in e.idx:
                v = z3.simplify(x)
                if not z3.is_int_value(v):
                    return None, f"subscript of {e} not concrete: {v}"
                idx.append(v.as_long())
            (rd if e.kind == "R" else wr).add((e.key, tuple(idx)))
        sets[gk] = (rd, wr)
    loopvar = None
    for evs in groups.values():
        for e in evs:
            if e.kind == "ITER":
                loopvar = e.key
    for a in sets:
        for b in sets:
            if a[0] != b[0] or a[1] >= b[1]:
                continue
            ra, wa = sets[a]
            rb, wb = sets[b]
            hit = (wa & wb) | (wa & rb) | (ra & wb)
            hit = {h for h in hit if h[0] != loopvar}
            if hit:
                return True, f"iterations {a[1]} and {b[1]} both touch {sorted(hit)[:3]} (at least one write)"
    return False, "no conflicting pair in the concrete run"


def work(case):
    outs = []
    src = case["src"]
    base_key = {"template": case["template"], "params": case["params"]}
    try:
        psyir = tv.read_psyir(src)
    except Exception as e:  # pylint: disable=broad-except
        return [{"key": dict(base_key, unit="reader"), "status": "psyclone_error", "why": str(e)[:200]}]
    from psyclone.psyir.nodes import Loop
    loops = psyir.walk(Loop)
    verdicts = []
    for li, lp in enumerate(loops):
        v, msgs = verdict_of(lp)
        verdicts.append((li, lp.variable.name, v, msgs))
    it = None
    for li, var, v, msgs in verdicts:
        key = dict(base_key, unit="DependencyTools.can_loop_be_parallelised",
                   params=dict(case["params"], loop=li, var=var))
        if v == "hang":
            outs.append({"key": dict(key, unit="DependencyTools.termination"), "status": "hang",
                         "replay_text": f"! can_loop_be_parallelised did not return within {ALARM_S}s for loop {li} ({var})\n" + src})
            continue
        if v == "error":
            outs.append({"key": key, "status": "psyclone_error", "why": "; ".join(msgs)})
            continue
        if not v:
            outs.append({"key": key, "status": "refused", "why": "; ".join(msgs)[:160]})
            continue
        try:
            if it is None:
                tree = parse(src)
                it = Interp(src, K=case["K"], E=3, trace=True, tree=tree)
                it.run(case["routine"])
                dos = do_constructs(tree)
            loop_id = it.stmt_ids[id(dos[li])][0]
            res = analyse(it, loop_id)
        except Unsupported as e:
            outs.append({"key": key, "status": "unsupported", "why": str(e)})
            continue
        o = {"key": key, "solver_s": res["solver_s"], "nqueries": res["queries"], "reach": res["reach"],
             "exempt": res["exempt"], "nontrivial": True, "h": tv.text_hash(src + str(li))}
        if res["reach"] != "sat":
            o["status"] = "vacuous"
        elif res["conflict"] is not None:
            c = res["conflict"]
            ok, text = concrete_replay(src, case["routine"], case["K"], li, it, c["model"], res["exempt"])
            a, b, e1, e2 = c["info"] if c["info"] else (None, None, None, None)
            o["diff"] = (f"{c['key']}: {e1.kind} in iteration {a[1]} (stmt {e1.stmt}) vs {e2.kind} in iteration "
                         f"{b[1]} (stmt {e2.stmt})") if e1 is not None else c["key"]
            o["replay_text"] = (f"! loop {li} ({var}) reported parallelisable\n! solver: {o['diff']}\n"
                                f"! concrete replay: {text}\n" +
                                "".join(f"! {k} = {c['model'].eval(t, model_completion=True)}\n"
                                        for k, t in list(it.inputs.items())[:40] if z3.is_expr(t) and t.sort() == z3.IntSort())
                                + src)
            o["status"] = "sat_replayed" if ok else ("sat_not_reproduced" if ok is False else "sat_unreplayable")
            o["conflict_key"] = c["key"]
            o["key"] = dict(key, params=dict(key["params"], conflict=c["key"].replace("in_", ""),
                                             kinds=(e1.kind + e2.kind) if e1 is not None else "?"))
        elif res["unknown"]:
            o["status"] = "unknown"
        else:
            o["status"] = "unsat"
        outs.append(o)
    return outs


def main():
    tier = core.tier()
    chk = core.Check(PROP, "other",
                     "can_loop_be_parallelised verdicts on the G-D family; for every True verdict z3 searches the "
                     "unrolled event trace for two distinct iterations touching one location with a write "
                     "(scalar exemption decided by two further queries); hangs detected by an alarm")
    cases = fam.gen(tier, core.seed())
    K = 3 if tier == "quick" else 4
    for c in cases:
        c["K"] = K
    results = core.pmap(work, cases)
    flat = []
    for r in results:
        flat.extend([r] if isinstance(r, tuple) else r)
    hangs = [o for o in flat if isinstance(o, dict) and o.get("status") == "hang"]
    tv.aggregate(chk, [o for o in flat if not (isinstance(o, dict) and o.get("status") == "hang")])
    for o in hangs:
        chk.evaluations += 1
        chk.count("non_solver_obligations")
        chk.report(o["key"], f"dependency analysis does not terminate on {o['key']['template']} {o['key']['params']}",
                   o["replay_text"])
    chk.cov["bounds"] = {"K_iterations": K, "alarm_s": ALARM_S, "programs_generated": len(cases)}
    chk.cov["rule"] = ("case = (G-D program, loop); evaluated = verdict True and decided by the solver; refused = "
                       "verdict False (always acceptable); distinct by (program text, loop)")
    chk.cov["explanation"] += ("; any two iterations of a longer loop are covered when subscripts depend only on the "
                               "iteration variable and loop-invariant data (offsets < K), else the bound K applies")
    from psyclone.psyir.tools import DependencyTools
    chk.cov["functions_encoded"] = core.src_hash(DependencyTools)
    chk.assumptions += [
        "K iterations of the analysed loop are unrolled from a symbolic pre-state (trip <= K assumed)",
        "the program is conforming (subscripts in bounds) - assumed",
        "only the soundness direction is asserted: a False verdict is always acceptable",
        "replay = re-execution with every input fixed to the witness values and a set-based Bernstein check"]
    return chk.finish()


if __name__ == "__main__":
    core.main_wrapper(main)
