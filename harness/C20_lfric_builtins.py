"""C20: LFRic built-ins compute their documented operation (E1 + LFRic stubs + documentation oracle).
Real code: the LFRic PSy-layer generator (parse + PSyFactory("dynamo0.3")) on an algorithm
file synthesised for every entry of BUILTIN_MAP, for distributed memory on/off x annexed-DoF
computation on/off x (no transformation | DynamoOMPParallelLoopTrans | Dynamo0p3OMPLoopTrans +
OMPParallelTrans).  The oracle is read at run time from doc/user_guide/dynamo0p3.rst: the
signature line `**X_plus_Y** (**field3**, *field1*, *field2*)` and the formula
`field3(:) = field1(:) + field2(:)`; the documented DoF range is all DoFs without distributed
memory, owned DoFs with it, owned+annexed when COMPUTE_ANNEXED_DOFS is set.
Both the generated invoke (with the LFRic stub contract of vlib/fsym/lfric.py) and the
documented formula restricted to the documented range are executed symbolically; z3 decides,
for all field/scalar values and all DoF counts up to K, that every written field agrees at
every DoF (changed inside the range, untouched outside) and every reduction agrees."""
import os
import re
import shutil
import tempfile
import time

import z3

from vlib.common import core, tv
from vlib.fsym import equiv
from vlib.fsym.interp import Interp, Unsupported
from vlib.fsym.lfric import LfricInterp

PROP = "C20"
SIG = re.compile(r"^\*\*([A-Za-z_0-9]+)\*\* \((.*)\)\s*$")


def doc_builtins():
    path = os.path.join(core.REPO, "doc", "user_guide", "dynamo0p3.rst")
    lines = open(path, encoding="utf-8").read().split("\n")
    out = {}
    for i, l in enumerate(lines):
        m = SIG.match(l)
        if not m or "_" not in m.group(1) and m.group(1) not in ("operator",):
            continue
        args = []
        for a in m.group(2).split(","):
            a = a.strip()
            args.append((a.strip("*"), a.startswith("**")))
        forms = []
        j = i + 1
        while j < len(lines) and j < i + 14:
            if SIG.match(lines[j]):
                break
            if lines[j].startswith("  ") and "=" in lines[j] and not lines[j].strip().startswith(".."):
                forms.append(lines[j].strip())
            j += 1
        out[m.group(1).lower()] = (m.group(1), args, forms)
    return out


def arg_kinds(name):
    """[(form, datatype)] from the real built-in metadata"""
    from psyclone.configuration import Config
    Config.get()
    from psyclone.domain.lfric.lfric_builtins import BUILTIN_MAP
    md = BUILTIN_MAP[name].metadata()
    out = []
    for a in md.meta_args:
        out.append((a.form, a.datatype))
    return out


def alg_text(casename, kinds):
    decl, actual = [], []
    nf = ns = 0
    for form, dt in kinds:
        if form == "gh_field":
            nf += 1
            nm = f"f{nf}"
            decl.append(f"  type({'integer_field_type' if dt == 'gh_integer' else 'field_type'}) :: {nm}")
        else:
            ns += 1
            nm = f"s{ns}"
            decl.append(f"  {'integer(i_def)' if dt == 'gh_integer' else 'real(r_def)'} :: {nm}")
        actual.append(nm)
    return ("program single_invoke\n  use constants_mod, only: r_def, i_def\n  use field_mod, only: field_type\n"
            "  use integer_field_mod, only: integer_field_type\n  implicit none\n" + "\n".join(decl) +
            f"\n  call invoke( {casename}({', '.join(actual)}) )\nend program single_invoke\n"), actual


def doc_program(docargs, kinds, formula):
    """the documented formula on 1..rr as a Fortran routine"""
    f = formula
    f = re.sub(r"kind\s*=\s*[ir]_<prec>", "kind=8", f)
    f = f.replace("(:)", "(1:rr)")
    decls = []
    for (nm, _), (form, dt) in zip(docargs, kinds):
        ty = "integer" if dt == "gh_integer" else "real(kind=8)"
        if form == "gh_field":
            decls.append(f"  {ty}, dimension(nn), intent(inout) :: {nm}")
        else:
            decls.append(f"  {ty}, intent(inout) :: {nm}")
    names = ", ".join(nm for nm, _ in docargs)
    return (f"subroutine doc({names}, nn, rr)\n  integer, intent(in) :: nn, rr\n" + "\n".join(decls) +
            f"\n  {f}\nend subroutine doc\n")


def generate(workdir, dm, annexed, omp):
    from psyclone.parse.algorithm import parse
    from psyclone.psyGen import PSyFactory
    from psyclone.configuration import Config
    from psyclone.psyir.nodes import Loop
    from psyclone.transformations import DynamoOMPParallelLoopTrans, Dynamo0p3OMPLoopTrans, OMPParallelTrans
    Config.get().api_conf("lfric")._compute_annexed_dofs = bool(annexed)
    try:
        _, info = parse(os.path.join(workdir, "alg.f90"), api="dynamo0.3")
        psy = PSyFactory("dynamo0.3", distributed_memory=dm).create(info)
        sched = psy.invokes.invoke_list[0].schedule
        if omp == "parallel_do":
            for l in sched.walk(Loop):
                DynamoOMPParallelLoopTrans().apply(l)
        elif omp in ("do", "do_reprod"):
            for l in sched.walk(Loop):
                Dynamo0p3OMPLoopTrans().apply(l, {"reprod": omp == "do_reprod"})
                OMPParallelTrans().apply(l.parent.parent)
        return str(psy.gen)
    finally:
        Config.get().api_conf("lfric")._compute_annexed_dofs = False


def work(job):
    name, dm, annexed, omp, K = job
    key = {"unit": "LFRic builtin PSy layer", "template": name,
           "params": {"dm": dm, "annexed": annexed, "omp": omp}}
    docs = doc_builtins()
    if name not in docs:
        return [{"key": key, "status": "unsupported", "why": "no documentation entry"}]
    casename, docargs, forms = docs[name]
    kinds = arg_kinds(name)
    if len(kinds) != len(docargs):
        return [{"key": key, "status": "sat_replayed", "diff": "documented signature and metadata disagree on arity",
                 "replay_text": f"{docargs} vs {kinds}", "nontrivial": True, "h": name, "solver_s": 0.0}]
    if len(forms) != 1 or "RAND" in forms[0] or "do df" in forms[0]:
        return [{"key": key, "status": "unsupported", "why": "formula not an array statement: " + str(forms)}]
    workdir = tempfile.mkdtemp(prefix="c20_")
    try:
        alg, actuals = alg_text(casename, kinds)
        with open(os.path.join(workdir, "alg.f90"), "w", encoding="utf-8") as fh:
            fh.write(alg)
        try:
            psy_txt = generate(workdir, dm, annexed, omp)
        except Exception as e:  # pylint: disable=broad-except
            nm = type(e).__name__
            st = "refused" if "Transformation" in nm else "psyclone_error"
            return [{"key": key, "status": st, "why": f"{nm}: {e}"[:300]}]
    finally:
        shutil.rmtree(workdir, ignore_errors=True)
    out = {"key": key, "nontrivial": True, "h": tv.text_hash(psy_txt), "solver_s": 0.0}
    t0 = time.time()
    try:
        ip = LfricInterp(psy_txt, K=K, E=K)
        ip.run("invoke_0")
    except Unsupported as e:
        out.update(status="unsupported", why="psy: " + str(e))
        return [out]
    # first field object determines the space (all fields of a built-in share it)
    fkeys = []
    conc = {}
    first_field = None
    for (dn, _), (form, dt), act in zip(docargs, kinds, actuals):
        if form == "gh_field":
            dkey = f"in_{act}%data"
            if dkey not in ip.inputs:
                out.update(status="unsupported", why=f"field data {dkey} not accessed by the PSy layer")
                return [out]
            conc["in_" + dn.lower()] = ip.inputs[dkey]
            first_field = first_field or f"in_{act}"
            fkeys.append((dn.lower(), dkey, True))
        else:
            skey = f"in_{act}"
            if skey not in ip.inputs and skey not in ip.store:
                out.update(status="unsupported", why=f"scalar {skey} not declared by the PSy layer")
                return [out]
            conc["in_" + dn.lower()] = ip.inputs.get(skey, z3.Const(skey, ip.store[skey].sort()))
            fkeys.append((dn.lower(), skey, False))
    undf = ip.fint(first_field, "undf")
    owned = ip.fint(first_field, "owned")
    annex = ip.fint(first_field, "annexed")
    is_reduction = "SUM(" in forms[0].upper()
    # documented ranges: all DoFs without distributed memory; owned DoFs with it (reductions always);
    # owned + annexed DoFs for field updates when COMPUTE_ANNEXED_DOFS is set
    rng = undf if not dm else (annex if (annexed and not is_reduction) else owned)
    # all fields of one built-in live on the same function space
    same_space = []
    for dn, dkey, isf in fkeys:
        if isf:
            ok = dkey[:-5]
            for what in ("undf", "owned", "annexed"):
                same_space.append(ip.fint(ok, what) == ip.fint(first_field, what))
    conc["in_nn"] = undf
    conc["in_rr"] = rng
    try:
        idoc = Interp(doc_program(docargs, kinds, forms[0]), K=K, E=K)
        idoc.concrete_inputs = conc
        idoc.run("doc")
    except Unsupported as e:
        out.update(status="unsupported", why="doc formula: " + str(e))
        return [out]
    assume = list(ip.assumptions) + list(ip.bound_assumptions) + list(ip.inbounds) + same_space + \
        list(idoc.assumptions) + list(idoc.bound_assumptions) + list(idoc.inbounds) + [undf <= K]
    s = z3.Solver()
    s.set("timeout", 20000)
    for a in assume:
        s.add(a)
    out["reach"] = str(s.check())
    if out["reach"] != "sat":
        out.update(status="vacuous", solver_s=time.time() - t0)
        return [out]
    df0 = z3.Int("df0")
    verdict, model, which = "unsat", None, None
    for dn, pkey, isf in fkeys:
        a = ip.store.get(pkey)
        b = idoc.store.get("in_" + dn)
        if a is None or b is None:
            continue
        s.push()
        if isf:
            s.add(df0 >= 1, df0 <= undf, z3.Select(a, df0) != z3.Select(b, df0))
        else:
            if a.sort() != b.sort():
                s.pop()
                continue
            s.add(a != b)
        s.set("timeout", 3000)
        r = str(s.check())
        s.set("timeout", 20000)
        if r == "sat":
            verdict, model, which = "sat", s.model(), dn
            s.pop()
            break
        if r == "unknown":
            if equiv._abstract_unsat(assume, [], (z3.Select(a, df0) != z3.Select(b, df0)) if isf else (a != b), 20000):
                r = "unsat"
            else:
                r = str(s.check())
                if r == "sat":
                    verdict, model, which = "sat", s.model(), dn
                    s.pop()
                    break
                if r == "unknown":
                    verdict = "unknown"
        s.pop()
    out["solver_s"] = time.time() - t0
    if verdict != "sat":
        out["status"] = verdict
        return [out]
    ok, text = concrete_replay(psy_txt, docargs, kinds, actuals, forms[0], ip, model, which, dm, annexed, K)
    out["diff"] = f"documented argument {which} differs"
    out["key"] = dict(key, params=dict(key["params"], arg=which))
    out["replay_text"] = text
    out["status"] = "sat_replayed" if ok else ("sat_not_reproduced" if ok is False else "sat_unreplayable")
    return [out]


SPACES = {"a": ["a1", "a2", "a3"], "b": ["b1", "b2", "b3"], "c": ["c1", "c2"]}
SEQS = {
    "seq1": [("x_plus_y", ["a3", "a1", "a2"]), ("inc_x_plus_y", ["a3", "a1"]), ("setval_c", ["b1", "s1"]),
             ("ax_plus_ay", ["b3", "s2", "b1", "b2"]), ("inc_a_times_x", ["s3", "c1"])],
    "seq2": [("setval_c", ["a1", "s1"]), ("x_minus_y", ["b3", "b1", "b2"]), ("inc_x_minus_y", ["b3", "b1"]),
             ("a_times_x", ["c2", "s2", "c1"]), ("inc_a_plus_x", ["s3", "c2"])],
    "seq3": [("x_times_y", ["a3", "a1", "a2"]), ("setval_x", ["a2", "a3"]), ("inc_ax_plus_y", ["s1", "a1", "a2"]),
             ("a_plus_x", ["c2", "s3", "c1"]), ("inc_x_divideby_a", ["b1", "s2"]), ("setval_c", ["b2", "s3"])],
    # a reduction whose result a later built-in of the same invoke uses (fusing them would use partial sums)
    "seq4": [("x_innerproduct_y", ["s1", "a1", "a2"]), ("setval_x", ["a3", "a1"]), ("inc_a_times_x", ["s1", "a3"])],
    "seq5": [("sum_x", ["s2", "b1"]), ("inc_a_plus_x", ["s2", "b2"]), ("setval_x", ["b3", "b2"])],
}


def fuse_plan(plan):
    from psyclone.domain.lfric.transformations import LFRicLoopFuseTrans
    from psyclone.psyir.nodes import Loop

    def go(sched):
        if plan == "none":
            return
        loops = [c for c in sched.children if isinstance(c, Loop)]
        idx = list(range(len(loops) - 1))
        if plan == "backwards":
            idx = idx[::-1]
        for i in idx:
            loops = [c for c in sched.children if isinstance(c, Loop)]
            if i + 1 >= len(loops):
                continue
            def grp(lp):
                kern = lp.kernels()[0]
                return [a.name for a in kern.arguments.args if a.is_field][0][0]
            try:
                if grp(loops[i]) != grp(loops[i + 1]):
                    continue
                # the user asserts that the ANY_SPACE arguments of the two loops share a space
                LFRicLoopFuseTrans().apply(loops[i], loops[i + 1], {"same_space": True})
            except Exception:  # pylint: disable=broad-except
                continue
    return go


def work_multi(job):
    """several built-ins on fields of different spaces in one invoke, optionally fused"""
    from psyclone.parse.algorithm import parse
    from psyclone.psyGen import PSyFactory
    from psyclone.configuration import Config
    seqname, dm, annexed, plan, K = job
    key = {"unit": "LFRic builtin PSy layer", "template": seqname,
           "params": {"dm": dm, "annexed": annexed, "fuse": plan}}
    docs = doc_builtins()
    seq = SEQS[seqname]
    fields = [f for fs in SPACES.values() for f in fs]
    alg = ("program multi\n  use constants_mod, only: r_def, i_def\n  use field_mod, only: field_type\n"
           "  implicit none\n  type(field_type) :: " + ", ".join(fields) + "\n  real(r_def) :: s1, s2, s3\n"
           "  call invoke( " + ", ".join(f"{docs[n][0]}({', '.join(a)})" for n, a in seq) + " )\nend program multi\n")
    workdir = tempfile.mkdtemp(prefix="c20m_")
    try:
        with open(os.path.join(workdir, "alg.f90"), "w", encoding="utf-8") as fh:
            fh.write(alg)
        Config.get().api_conf("lfric")._compute_annexed_dofs = bool(annexed)
        try:
            _, info = parse(os.path.join(workdir, "alg.f90"), api="dynamo0.3")
            psy = PSyFactory("dynamo0.3", distributed_memory=dm).create(info)
            fuse_plan(plan)(psy.invokes.invoke_list[0].schedule)
            psy_txt = str(psy.gen)
        except Exception as e:  # pylint: disable=broad-except
            return [{"key": key, "status": "psyclone_error", "why": f"{type(e).__name__}: {e}"[:300]}]
        finally:
            Config.get().api_conf("lfric")._compute_annexed_dofs = False
    finally:
        shutil.rmtree(workdir, ignore_errors=True)
    out = {"key": key, "nontrivial": True, "h": tv.text_hash(psy_txt), "solver_s": 0.0}
    t0 = time.time()
    try:
        ip = LfricInterp(psy_txt, K=K, E=K)
        ip.run("invoke_0")
    except Unsupported as e:
        out.update(status="unsupported", why="psy: " + str(e))
        return [out]
    used = sorted({a for _, args in seq for a in args if not a.startswith("s")})
    space_of = {f: sp for sp, fs in SPACES.items() for f in fs}
    conc, assume_space = {}, []
    rngs = {}
    for sp, fs in SPACES.items():
        fs_used = [f for f in fs if f in used and f"in_{f}%data" in ip.inputs]
        if not fs_used:
            continue
        ff = "in_" + fs_used[0]
        undf, owned, annex = ip.fint(ff, "undf"), ip.fint(ff, "owned"), ip.fint(ff, "annexed")
        for f in fs_used[1:]:
            for what in ("undf", "owned", "annexed"):
                assume_space.append(ip.fint("in_" + f, what) == ip.fint(ff, what))
        conc[f"in_nn_{sp}"] = undf
        conc[f"in_rr_{sp}"] = undf if not dm else (annex if annexed else owned)
        rngs[sp] = undf
        assume_space.append(undf <= K)
    stmts = []
    for n, args in seq:
        casename, docargs, forms = docs[n]
        f = forms[0]
        sp = space_of[[a for a in args if not a.startswith("s")][0]]
        for (dn, _), act in sorted(zip(docargs, args), key=lambda t: -len(t[0][0])):
            f = re.sub(rf"(?<![A-Za-z0-9_]){re.escape(dn)}(?![A-Za-z0-9_])", "@" + act + "@", f)
        f = f.replace("@", "").replace("(:)", f"(1:rr_{sp})")
        stmts.append("  " + f)
    decls = []
    for f in used:
        decls.append(f"  real(kind=8), dimension(nn_{space_of[f]}), intent(inout) :: {f}")
        if f"in_{f}%data" not in ip.inputs:
            out.update(status="unsupported", why=f"field {f} not accessed")
            return [out]
        conc["in_" + f] = ip.inputs[f"in_{f}%data"]
    for sc in ("s1", "s2", "s3"):
        decls.append(f"  real(kind=8), intent(inout) :: {sc}")
        conc["in_" + sc] = ip.inputs.get("in_" + sc, z3.Real("in_" + sc))
    sps = sorted(rngs)
    doc = (f"subroutine doc({', '.join(used)}, s1, s2, s3, {', '.join(f'nn_{s}, rr_{s}' for s in sps)})\n"
           f"  integer, intent(in) :: {', '.join(f'nn_{s}, rr_{s}' for s in sps)}\n" + "\n".join(decls) + "\n" +
           "\n".join(stmts) + "\nend subroutine doc\n")
    try:
        idoc = Interp(doc, K=K, E=K)
        idoc.concrete_inputs = conc
        idoc.run("doc")
    except Unsupported as e:
        out.update(status="unsupported", why="doc formula: " + str(e))
        return [out]
    assume = list(ip.assumptions) + list(ip.bound_assumptions) + list(ip.inbounds) + assume_space + \
        list(idoc.assumptions) + list(idoc.bound_assumptions) + list(idoc.inbounds)
    s = z3.Solver()
    s.set("timeout", 20000)
    for a in assume:
        s.add(a)
    out["reach"] = str(s.check())
    if out["reach"] != "sat":
        out.update(status="vacuous", solver_s=time.time() - t0)
        return [out]
    df0 = z3.Int("df0")
    verdict, which, model = "unsat", None, None
    for f in used:
        a, b = ip.store[f"in_{f}%data"], idoc.store["in_" + f]
        s.push()
        s.add(df0 >= 1, df0 <= rngs[space_of[f]], z3.Select(a, df0) != z3.Select(b, df0))
        r = str(s.check())
        if r == "unknown" and equiv._abstract_unsat(assume, [df0 >= 1, df0 <= rngs[space_of[f]]],
                                                    z3.Select(a, df0) != z3.Select(b, df0), 20000):
            r = "unsat"
        if r == "sat":
            verdict, which, model = "sat", f, s.model()
            s.pop()
            break
        if r == "unknown":
            verdict = "unknown"
        s.pop()
    out["solver_s"] = time.time() - t0
    if verdict != "sat":
        out["status"] = verdict
        return [out]
    # replay: concrete re-execution of the generated invoke and of the documented statements (fsym
    # concrete mode on both; the documented side is plain array statements)
    conc_in = {k: model.eval(t, model_completion=True) for k, t in ip.inputs.items() if z3.is_expr(t)}
    ic = LfricInterp(psy_txt, K=K, E=K)
    ic.concrete_inputs = conc_in
    for (okey, what), v in ip.field_ints.items():
        ic.field_ints[(okey, what)] = model.eval(v, model_completion=True)
    ok = None
    try:
        ic.run("invoke_0")
        d0 = model.eval(df0, model_completion=True)
        got = z3.simplify(z3.Select(ic.store[f"in_{which}%data"], d0))
        exp = z3.simplify(model.eval(z3.Select(idoc.store["in_" + which], d0), model_completion=True))
        ok = not got.eq(exp)
        detail = f"field {which} at DoF {d0}: generated code gives {got}, documented sequence gives {exp}"
    except Unsupported as e:
        detail = f"concrete run failed: {e}"
    loops = [l.strip() for l in psy_txt.split("\n") if l.strip().startswith(("DO ", "loop"))]
    out["diff"] = f"field {which} differs from the documented sequence"
    out["key"] = dict(key, params=dict(key["params"], field=which))
    out["replay_text"] = f"! {detail}\n! loops: {loops}\n" + psy_txt + "\n! documented sequence:\n" + doc
    out["status"] = "sat_replayed" if ok else ("sat_not_reproduced" if ok is False else "sat_unreplayable")
    return [out]


def concrete_replay(psy_txt, docargs, kinds, actuals, formula, ip, model, which, dm, annexed, K):
    """re-run the generated invoke with every input fixed to the witness (fsym concrete mode) and
    evaluate the documented formula in plain Python on the same witness"""
    from fractions import Fraction
    conc = {k: model.eval(t, model_completion=True) for k, t in ip.inputs.items() if z3.is_expr(t)}
    ic = LfricInterp(psy_txt, K=K, E=K)
    ic.concrete_inputs = conc
    # field_ints are created lazily: preload them
    for (okey, what), v in ip.field_ints.items():
        ic.field_ints[(okey, what)] = model.eval(v, model_completion=True)
    try:
        ic.run("invoke_0")
    except Unsupported as e:
        return None, f"concrete run failed: {e}"
    ff = None
    vals = {}
    for (dn, _), (form, dt), act in zip(docargs, kinds, actuals):
        if form == "gh_field":
            ff = ff or f"in_{act}"
    n = model.eval(ip.fint(ff, "undf"), model_completion=True).as_long()
    own = model.eval(ip.fint(ff, "owned"), model_completion=True).as_long()
    ann = model.eval(ip.fint(ff, "annexed"), model_completion=True).as_long()
    rr = n if not dm else (ann if (annexed and "sum(" not in formula.lower()) else own)

    def num(t):
        v = z3.simplify(t)
        if z3.is_int_value(v):
            return v.as_long()
        if z3.is_rational_value(v):
            return Fraction(v.numerator_as_long(), v.denominator_as_long())
        raise ValueError(str(v))
    env_in, env_out = {}, {}
    try:
        for (dn, _), (form, dt), act in zip(docargs, kinds, actuals):
            if form == "gh_field":
                key = f"in_{act}%data"
                env_in[dn.lower()] = [num(z3.Select(conc[key], z3.IntVal(k))) for k in range(1, n + 1)]
                env_out[dn.lower()] = [num(z3.Select(ic.store[key], z3.IntVal(k))) for k in range(1, n + 1)]
            else:
                key = f"in_{act}"
                env_in[dn.lower()] = num(conc[key]) if key in conc else 0
                env_out[dn.lower()] = num(ic.store[key])
    except (ValueError, KeyError) as e:
        return None, f"witness not fully concrete: {e}"
    lhs, rhs = formula.split("=", 1)
    target = lhs.strip().split("(")[0].lower()
    expr = re.sub(r",\s*kind\s*=\s*[ir]_<prec>", "", rhs.strip().lower())

    def py(e, k):
        e = re.sub(r"([a-z_][a-z0-9_]*)\(:\)", lambda m: f"E['{m.group(1)}'][{k}]", e)
        e = re.sub(r"(?<![\w'\[])([a-z_][a-z0-9_]*)(?![\w'(\]])", lambda m: (f"E['{m.group(1)}']"
                   if m.group(1) in env_in else m.group(1)), e)
        return e
    import math

    def SIGN(a, b):
        return abs(a) if b >= 0 else -abs(a)
    fn = {"sign": SIGN, "max": max, "min": min, "int": lambda x: int(x) if x >= 0 else -int(-x),
          "real": lambda x: Fraction(x), "abs": abs}
    bad = []
    try:
        if "sum(" in expr:
            inner = expr[expr.index("sum(") + 4:expr.rindex(")")]
            exp = sum(eval(py(inner, k), {"E": env_in, **fn}) for k in range(rr))  # noqa: S307
            if env_out[target] != exp:
                bad.append((target, env_out[target], exp))
        else:
            for k in range(n):
                exp = eval(py(expr, k), {"E": env_in, **fn}) if k < rr else env_in[target][k]  # noqa: S307
                if env_out[target][k] != exp:
                    bad.append((target, k + 1, env_out[target][k], exp))
    except Exception as e:  # pylint: disable=broad-except
        return None, f"python evaluation of the documented formula failed: {type(e).__name__}: {e}"
    text = (f"! documented: {formula}   range 1..{rr} of {n} DoFs (owned {own}, annexed {ann})\n"
            f"! inputs : {env_in}\n! outputs: {env_out}\n! mismatches (arg, dof, got, expected): {bad[:5]}\n" + psy_txt)
    return bool(bad), text


def main():
    tier = core.tier()
    chk = core.Check(PROP, "translation_validation",
                     "generated LFRic PSy layer for every built-in x DM x annexed x OpenMP variant, executed "
                     "symbolically with the LFRic stub contract, against the user guide's formula executed on the "
                     "documented DoF range; z3 decides agreement of every documented argument for all values and all "
                     "DoF counts <= K")
    from psyclone.domain.lfric.lfric_builtins import BUILTIN_MAP
    K = 3 if tier == "quick" else 4
    names = sorted(BUILTIN_MAP)
    configs = [(False, False, None), (True, False, None), (True, True, None), (True, False, "parallel_do")]
    if tier == "thorough":
        configs += [(False, False, "parallel_do"), (True, True, "parallel_do"), (True, False, "do"),
                    (False, True, None), (True, True, "do"), (False, False, "do")]
    jobs = [(n, dm, ax, omp, K) for n in names for dm, ax, omp in configs]
    # reproducible OpenMP reductions (thread-local partial sums): the reduction built-ins in every tier
    red = [n for n in names if "innerproduct" in n or "sum_" in n]
    jobs += [(n, dm, ax, "do_reprod", K) for n in (red if tier == "quick" else names)
             for dm, ax in ((False, False), (True, False))]
    results = core.pmap(work, jobs)
    mjobs = [(sq, dm, ax, plan, K + 1) for sq in SEQS for dm, ax in ((False, False), (True, False), (True, True))
             for plan in ("none", "forwards", "backwards")
             if not (sq in ("seq4", "seq5") and ax)]          # (reductions always run over owned DoFs)
    results += core.pmap(work_multi, mjobs)
    flat = []
    for r in results:
        flat.extend([r] if isinstance(r, tuple) else r)
    tv.aggregate(chk, flat)
    chk.cov["bounds"] = {"K_dofs": K, "builtins": len(names), "configs": len(configs)}
    chk.cov["programs"] = chk.cov["queries"]
    chk.cov["rule"] = "case = (built-in, distributed memory, annexed, OpenMP variant); distinct by hash of the PSy layer"
    from psyclone.domain.lfric import lfric_builtins
    chk.cov["functions_encoded"] = core.src_hash(lfric_builtins.LFRicBuiltIn, lfric_builtins.LFRicXPlusYKern)
    chk.assumptions += [
        "LFRic stub contract of vlib/fsym/lfric.py (field data 1..undf, 0 <= owned <= annexed <= undf, proxies alias "
        "fields, get_sum = value on one rank, set_dirty/clean have no effect on data)",
        "all fields of a built-in are on the same function space; undf <= K (DoF loops unrolled)",
        "OpenMP directives are executed serially (reduction(+:x) = serial sum); reprod reductions unsupported",
        "setval_random is outside the claim (no formula); exact arithmetic",
        "replay = concrete re-execution + the documented formula evaluated in plain Python on the witness"]
    return chk.finish()


if __name__ == "__main__":
    core.main_wrapper(main)
