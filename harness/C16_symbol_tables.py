"""C16: symbol tables keep names unique and lookups scoped (E3, CrossHair).
One CrossHair condition per (operation, pre-state variant): the real SymbolTable methods
are executed symbolically with integer selectors as solver variables that choose the names
(from a pool with case variants and _N-suffixed names) of the symbols in the outer scope, the
nested scope and the other table, and the name/flag arguments of the operation.  The
post-condition is the well-formedness of every table afterwards (normalised names unique, keys
consistent, tags point into the table), the operation's own contract (a generated name clashes
with nothing visible nor with the other table; lookup returns the innermost symbol; merge adds
each symbol exactly once) and 'a rejected operation changes nothing'.  One step from every
enumerated well-formed pre-state; counterexamples are re-run in plain CPython."""
import os
import re
import subprocess
import sys
import time
from concurrent.futures import ThreadPoolExecutor

from vlib.common import core

PROP = "C16"


def variants(tier):
    """fixed part of the pre-state per condition: what stays symbolic is sized so that CrossHair can
    exhaust the paths (about 600 per condition) within the per-condition budget"""
    from harness.xh.c16_steps import NONE
    v = {}
    two = [{"o2": NONE, "i2": NONE}, {"o2": 2, "i2": NONE}, {"o2": NONE, "i2": 3}, {"o2": 6, "i2": 1}]
    v["new_symbol"] = [dict(t, shadow=sh) for t in two for sh in (0, 1)]
    for name in ("add", "rename_symbol", "lookup", "remove", "find_or_create_tag"):
        v[name] = two
    v["next_available_name"] = [{"o2": NONE, "i2": NONE, "i1": i1, "t2": t2, "shadow": sh}
                                for t2 in (6, 3, NONE) for sh in (0, 1) for i1 in (NONE, 1)]
    v["merge"] = [{"i1": NONE, "i2": NONE, "o2": o2, "t2": t2} for o2 in (NONE, 1, 2, 6) for t2 in (6, 3, NONE, 0)]
    v["merge_inner"] = [{"i2": NONE, "o2": o2, "t2": t2} for o2 in (NONE, 3) for t2 in (NONE, 5)]
    if tier == "quick":
        # one round on 16 cores: the conditions around name generation and merging first
        v = {"next_available_name": v["next_available_name"][:6], "merge": v["merge"][:2],
             "merge_inner": v["merge_inner"][:2],
             "new_symbol": v["new_symbol"][:2], "add": v["add"][3:4], "rename_symbol": v["rename_symbol"][3:4],
             "lookup": v["lookup"][3:4], "find_or_create_tag": v["find_or_create_tag"][1:2]}
    return v


def run_condition(args):
    path, line, timeout, name, vi = args
    env = dict(os.environ, PYTHONPATH=core.VERIF + os.pathsep + os.environ.get("PYTHONPATH", ""), PSYCLONE_CONFIG=os.environ["PSYCLONE_CONFIG"])
    cmd = [sys.executable, "-m", "crosshair", "check", "--report_all",
           "--per_condition_timeout", str(timeout), "--per_path_timeout", str(max(5, timeout // 4)),
           f"{path}:{line}"]
    t0 = time.time()
    try:
        r = subprocess.run(cmd, capture_output=True, text=True, env=env, cwd=core.VERIF, timeout=timeout * 3 + 120)
        out = r.stdout + r.stderr
    except subprocess.TimeoutExpired:
        out = "TIMEOUT"
    return name, vi, out, time.time() - t0


def classify(out):
    if "Confirmed over all paths" in out:
        return "confirmed", None
    m = re.search(r"error: (false|.*?) when calling (\w+)\((.*?)\)", out)
    if m:
        return "counterexample", m.group(3)
    if "Not confirmed" in out:
        return "not_confirmed", None
    if "Unable to meet precondition" in out:
        return "precondition_unmet", None
    return "other", out[-300:]


def main():
    from harness.xh import c16_steps as S
    from psyclone.psyir.symbols import SymbolTable
    tier = core.tier()
    chk = core.Check(PROP, "model_checking",
                     "inductive step: one symbol-table operation from each enumerated well-formed pre-state (outer "
                     "scope, nested scope, other table); names and flags chosen by symbolic selectors; decided per "
                     "condition by CrossHair (z3)")
    os.makedirs(os.path.join(core.VERIF, "scratch"), exist_ok=True)
    path = os.path.join(core.VERIF, "scratch", "c16_gen.py")
    var = variants(tier)
    where = S.generate(path, var)
    timeout = 120 if tier == "quick" else 400
    jobs = [(path, line, timeout, name, vi) for (name, vi), line in where.items()]
    with ThreadPoolExecutor(max_workers=core.nworkers()) as ex:
        results = list(ex.map(run_condition, jobs))
    stat = {}
    for name, vi, out, dt in results:
        kind, detail = classify(out)
        stat[kind] = stat.get(kind, 0) + 1
        chk.count("queries")
        chk.evaluations += 1
        chk.cov["solver_s"] += dt
        chk.nontrivial.add((name, vi))
        fixed = var[name][vi]
        chk.sample({"operation": name, "fixed": fixed, "crosshair": kind, "s": round(dt, 1)}, limit=12)
        if kind == "confirmed":
            chk.count("unsat")
        elif kind in ("not_confirmed", "precondition_unmet"):
            chk.count("inconclusive")
            chk.cov.setdefault("inconclusive_list", []).append({"operation": name, "fixed": fixed, "crosshair": kind})
        elif kind == "other":
            chk.count("inconclusive")
            chk.cov["by_products"].append({"cond": [name, vi], "output": detail})
        else:
            fn, argn = S.STEPS[name]
            free = [a for a in argn if a not in fixed]
            try:
                vals = {}
                for k, part in enumerate(detail.split(",")):
                    if "=" in part:
                        kk, vv = part.split("=")
                        vals[kk.strip()] = int(vv.strip())
                    else:
                        vals[free[k]] = int(part.strip())
                full = [fixed[a] if a in fixed else vals[a] for a in argn]
                ok = fn(*full)
            except Exception as e:  # pylint: disable=broad-except
                ok = f"exception {type(e).__name__}: {e}"
            if ok is True:
                chk.count("sat_not_reproduced")
                chk.harness_error(f"CrossHair counterexample {name}({detail}) does not reproduce")
                continue
            chk.count("sat_replayed")
            params = dict(zip(argn, full))
            params["names"] = {a: (S.POOL[v] if v < S.NP else None) for a, v in params.items()
                               if a not in ("shadow",)}
            chk.report({"unit": "SymbolTable." + name, "template": "step", "params": params},
                       f"{name} with {params['names']} shadow={params.get('shadow')}: contract violated ({ok})",
                       f"from harness.xh import c16_steps as S\nassert S.STEPS[{name!r}][0](*{full}) is True\n",
                       name=f"{name}_{'_'.join(map(str, full))}.txt")
    chk.cov["crosshair"] = stat
    chk.cov["states"] = len(jobs)
    chk.cov["transitions"] = len(jobs)
    chk.cov["traces_validated_against_impl"] = chk.cov["sat_replayed"]
    chk.cov["bounds"] = {"name_pool": S.POOL, "per_condition_timeout": timeout,
                         "pre_state": "outer scope <= 2 symbols (first tagged), nested scope <= 2, other table <= 2"}
    chk.cov["functions_encoded"] = core.src_hash(SymbolTable.new_symbol, SymbolTable.next_available_name,
                                                 SymbolTable.add, SymbolTable.rename_symbol, SymbolTable.lookup,
                                                 SymbolTable.merge, SymbolTable.remove, SymbolTable.find_or_create_tag)
    chk.cov["rule"] = "one condition per (operation, fixed part of the pre-state); the rest of the pre-state is symbolic"
    chk.assumptions += [
        "inductive step from enumerated well-formed pre-states (one operation); histories of any length are covered "
        "only as far as the invariant (per-table uniqueness, key consistency, tags) is inductive",
        "names range over a pool of 8 (case variants a/A, a_1/A_1, work/Work_1, ...); selectors are solver variables "
        "(CrossHair realises them when they index the pool, so a condition is confirmed by exhausting its paths)",
        "'Not confirmed' / 'Unable to meet precondition' are inconclusive, not passes"]
    return chk.finish()


if __name__ == "__main__":
    core.main_wrapper(main)
