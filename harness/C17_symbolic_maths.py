"""C17: SymbolicMaths verdicts vs Fortran integer arithmetic (E4).
The real SymbolicMaths.equal / never_equal / expand and DependencyTools.
_get_dependency_distance (SymPyWriter + solve_equal_for) are called on concrete
integer expressions; each verdict becomes the hypothesis of a z3 query over ALL
integer valuations (truncating division, MOD by sign cases, MIN/MAX, arrays as
z3 arrays).  Only soundness is asserted; 'don't know' is always acceptable."""
import signal
import time

import z3

from vlib.common import core
from vlib.families import intexpr as fam
from vlib.fsym.terms import tdiv, tmod, ITE

PROP = "C17"
BATCH = 12


class Timeout(Exception):
    pass


def _alarm(signum, frame):
    raise Timeout()


# ------------------------------------------------------------------ z3 evaluation of the AST
class Ev:
    def __init__(self, real=False):
        self.real = real
        self.nonzero = []
        self.exact = []
        self.modpos = []
        S = z3.RealSort() if real else z3.IntSort()
        self.S = S
        self.arr = z3.Array("in_a", S, S) if not real else z3.Function("a_r", S, S)
        I = z3.IntSort()
        self.carr = (z3.Array("in_c%w", I, z3.ArraySort(I, z3.ArraySort(I, I))) if not real else
                     z3.Function("cw_r", S, S, S, S))

    def var(self, n):
        return z3.Real("r_" + n) if self.real else z3.Int("in_" + n)

    def ev(self, e):
        k = e[0]
        if k == "v":
            return self.var(e[1])
        if k == "n":
            return z3.RealVal(e[1]) if self.real else z3.IntVal(e[1])
        if k == "neg":
            return -self.ev(e[1])
        if k in "+-*":
            a, b = self.ev(e[1]), self.ev(e[2])
            return a + b if k == "+" else a - b if k == "-" else a * b
        if k == "/":
            a, b = self.ev(e[1]), self.ev(e[2])
            self.nonzero.append(b != 0)
            if not self.real:
                self.exact.append(tmod(a, b) == 0)
            return a / b if self.real else tdiv(a, b)
        if k == "pow":
            a = self.ev(e[1])
            r = a
            for _ in range(e[2] - 1):
                r = r * a
            return r
        if k == "mod":
            a, b = self.ev(e[1]), self.ev(e[2])
            self.nonzero.append(b != 0)
            if self.real:
                # sympy's Mod on reals: a - b*floor(a/b)
                return a - b * z3.ToReal(z3.ToInt(a / b))
            self.modpos.append(z3.And(a >= 0, b > 0))
            return tmod(a, b)
        if k in ("min", "max"):
            a, b = self.ev(e[1]), self.ev(e[2])
            return ITE(a < b, a, b) if k == "min" else ITE(a > b, a, b)
        if k == "arr":
            x = self.ev(e[2])
            return self.arr(x) if self.real else z3.Select(self.arr, x)
        if k == "sarr":
            x, y, z = self.ev(e[1]), self.ev(e[2]), self.ev(e[3])
            return self.carr(x, y, z) if self.real else z3.Select(z3.Select(z3.Select(self.carr, x), y), z)
        raise ValueError(k)


def pyeval(e, env, arr):
    k = e[0]
    if k == "v":
        return env[e[1]]
    if k == "n":
        return e[1]
    if k == "neg":
        return -pyeval(e[1], env, arr)
    if k in ("+", "-", "*", "/", "mod", "min", "max"):
        a, b = pyeval(e[1], env, arr), pyeval(e[2], env, arr)
        if k == "+":
            return a + b
        if k == "-":
            return a - b
        if k == "*":
            return a * b
        if k == "min":
            return min(a, b)
        if k == "max":
            return max(a, b)
        q = abs(a) // abs(b)
        q = q if (a >= 0) == (b > 0) else -q
        return q if k == "/" else a - q * b
    if k == "pow":
        return pyeval(e[1], env, arr) ** e[2]
    if k == "arr":
        return arr(pyeval(e[2], env, arr))
    if k == "sarr":
        return arr.c3(pyeval(e[1], env, arr), pyeval(e[2], env, arr), pyeval(e[3], env, arr))
    raise ValueError(k)


def pyeval_rat(e, env, arr):
    """the same expression over the rationals (exact division); None if it has MOD/MIN/MAX or divides by zero"""
    from fractions import Fraction
    k = e[0]
    if k == "v":
        return Fraction(env[e[1]])
    if k == "n":
        return Fraction(e[1])
    if k == "neg":
        v = pyeval_rat(e[1], env, arr)
        return None if v is None else -v
    if k in ("+", "-", "*", "/"):
        a, b = pyeval_rat(e[1], env, arr), pyeval_rat(e[2], env, arr)
        if a is None or b is None:
            return None
        if k == "/":
            return None if b == 0 else a / b
        return a + b if k == "+" else a - b if k == "-" else a * b
    if k == "pow":
        v = pyeval_rat(e[1], env, arr)
        return None if v is None else v ** e[2]
    if k in ("arr", "sarr"):
        idx = [pyeval_rat(x, env, arr) for x in e[1:] if isinstance(x, tuple)]
        if any(i is None or i.denominator != 1 for i in idx):
            return None
        return Fraction(arr(int(idx[0])) if k == "arr" else arr.c3(*[int(i) for i in idx]))
    return None


def eval_text_rat(text, env, arr):
    """rational value of a Fortran expression text (every variable typed REAL so that `/` is exact); None if
    the text uses anything but + - * / ** and a(...) with integral index"""
    from fractions import Fraction
    import re as _re
    if _re.search(r"mod|min|max|abs|%", text, _re.I):
        return None
    t = _re.sub(r"a\(", "A_(", text)
    try:
        val = eval(t.replace("**", "^^").replace("^^", "**"),   # noqa: S307  arithmetic over Fractions only
                   {"__builtins__": {}, "A_": lambda x: Fraction(arr(int(x))), **{k: Fraction(v) for k, v in env.items()}})
    except Exception:  # pylint: disable=broad-except
        return None
    return val if isinstance(val, Fraction) else Fraction(val)


def solve(cons, timeout_ms=8000, box=None):
    s = z3.Solver()
    s.set("timeout", timeout_ms)
    for c in cons:
        s.add(c)
    if box:
        for v in box:
            s.add(v >= -8, v <= 8)
    t0 = time.time()
    r = str(s.check())
    return r, (s.model() if r == "sat" else None), time.time() - t0


def query(cons, vars_):
    r, m, t = solve(cons)
    boxed = False
    if r == "unknown":
        r, m, t2 = solve(cons, box=vars_)
        t += t2
        boxed = True
    return r, m, t, boxed


def model_env(m, extra_vars=()):
    env = {}
    for n in fam.VARS + fam.MEMBERS + list(extra_vars):
        v = m.eval(z3.Int("in_" + n), model_completion=True)
        env[n] = v.as_long()
    A = z3.Array("in_a", z3.IntSort(), z3.IntSort())

    def arr(x):
        return m.eval(z3.Select(A, z3.IntVal(x)), model_completion=True).as_long()
    I = z3.IntSort()
    C = z3.Array("in_c%w", I, z3.ArraySort(I, z3.ArraySort(I, I)))
    arr.c3 = lambda x, y, z: m.eval(z3.Select(z3.Select(z3.Select(C, z3.IntVal(x)), z3.IntVal(y)), z3.IntVal(z)),
                                    model_completion=True).as_long()
    arr.m = m
    return env, arr


def src_for(pairs):
    lines = ["subroutine s(i, j, n, m, a, c, pa, pa_x, " + ", ".join(f"p{k}, q{k}" for k in range(len(pairs))) + ")",
             "  type :: ct", "    integer :: w(8)", "  end type ct",
             "  type :: t1", "    integer :: x_y", "    integer :: z", "  end type t1",
             "  type :: t2", "    integer :: y", "  end type t2",
             "  integer :: i, j, n, m", "  integer, dimension(:) :: a", "  type(ct) :: c(8,8)",
             "  type(t1) :: pa", "  type(t2) :: pa_x"]
    for k in range(len(pairs)):
        lines.append(f"  integer :: p{k}, q{k}")
    for k, p in enumerate(pairs):
        lines.append(f"  p{k} = {fam.txt(p['e1'])}")
        lines.append(f"  q{k} = {fam.txt(p['e2'])}")
    lines.append("end subroutine s")
    return "\n".join(lines) + "\n"


def fsym_term(text):
    """z3 term of an integer expression text over i,j,n,m,a (via fsym)."""
    from vlib.fsym.interp import Interp
    src = ("subroutine s(i, j, n, m, a, c, r)\n  type :: ct\n    integer :: w(8)\n  end type ct\n"
           "  integer :: i, j, n, m, r\n  integer, dimension(:) :: a\n  type(ct) :: c(8,8)\n"
           f"  r = {text}\nend subroutine s\n")
    it = Interp(src)
    it.run("s")
    fsym_term.exact = [tmod(x, y) == 0 for x, y in it.int_divs]
    fsym_term.nonzero = [y != 0 for x, y in it.int_divs]
    fsym_term.modpos = [z3.And(x >= 0, y > 0) for x, y in it.int_mods]
    return it.store["in_r"]


def work(batch):
    from psyclone.core import SymbolicMaths
    from psyclone.psyir.frontend.fortran import FortranReader
    from psyclone.psyir.backend.fortran import FortranWriter
    from psyclone.psyir.nodes import Assignment
    from psyclone.psyir.tools.dependency_tools import DependencyTools
    kind, pairs = batch
    outs = []
    src = src_for(pairs)
    psyir = FortranReader().psyir_from_source(src)
    asg = psyir.walk(Assignment)
    sm = SymbolicMaths.get()
    writer = FortranWriter()
    signal.signal(signal.SIGALRM, _alarm)
    vars_ = [z3.Int("in_" + n) for n in fam.VARS + fam.MEMBERS]
    for k, p in enumerate(pairs):
        r1, r2 = asg[2 * k].rhs, asg[2 * k + 1].rhs
        ev = Ev()
        z1, z2 = ev.ev(p["e1"]), ev.ev(p["e2"])
        base = list(ev.nonzero)
        t1, t2 = fam.txt(p["e1"]), fam.txt(p["e2"])

        def record(unit, verdict, cons, check, extra=None):
            """verdict holds -> cons must be unsat."""
            key = {"unit": unit, "template": p["template"],
                   "params": dict(p["params"], e1=t1, e2=t2, **(extra or {}))}
            r, m, t, boxed = query(base + cons, vars_)
            o = {"key": key, "status": r, "solver_s": t, "boxed": boxed, "verdict": verdict}
            if r == "sat":
                env, arr = model_env(m, extra_vars=(["d"] if unit.endswith("distance") else []))
                ok, detail = check(env, arr)
                o["status"] = "sat_replayed" if ok else ("sat_unreplayable" if ok is None else "sat_not_reproduced")
                o["witness"] = {"env": env, "detail": detail}
                # classification: does the counterexample need a division with a remainder?
                exact = list(ev.exact) + list((extra or {}).get("_exact", []))
                if unit.endswith("distance"):
                    exact += [z3.substitute(c, (z3.Int("in_i"), z3.Int("in_i") + extra["d"]))
                              for c in ev.exact]
                key["params"]["exact_div_sound"] = False
                key["params"]["mod_nonneg_sound"] = False
                key["params"]["real_diff_int_const"] = False
                if exact:
                    rr, _, _ = solve(base + cons + exact, 20000)
                    key["params"]["exact_div_sound"] = rr == "unsat"
                modpos = list(ev.modpos) + list((extra or {}).get("_modpos", []))
                if modpos and not key["params"]["exact_div_sound"]:
                    rr, _, _ = solve(base + cons + exact + modpos, 20000)
                    key["params"]["mod_nonneg_sound"] = rr == "unsat"
                if (not key["params"]["exact_div_sound"] and not key["params"]["mod_nonneg_sound"]
                        and unit in ("SymbolicMaths.equal", "SymbolicMaths.expand")):
                    # the universal classification query can time out on products of quotients: decide the class
                    # at the witness itself - over the rationals (exact division) both sides agree there, so the
                    # discrepancy comes from integer division
                    if unit == "SymbolicMaths.equal":
                        ra, rb = pyeval_rat(p["e1"], env, arr), pyeval_rat(p["e2"], env, arr)
                    else:
                        ra, rb = pyeval_rat(p["e2"], env, arr), eval_text_rat((extra or {}).get("out", ""), env, arr)
                    if ra is not None and rb is not None and ra == rb:
                        key["params"]["exact_div_sound"] = True
                        key["params"]["class_by_witness"] = True
                if unit == "SymbolicMaths.never_equal":
                    # the known defect class: over the rationals the difference is a non-zero
                    # INTEGER constant (that is the only case in which the pinned code answers True)
                    evr = Ev(real=True)
                    q1, q2 = evr.ev(p["e1"]), evr.ev(p["e2"])
                    r0, m0, _ = solve(evr.nonzero, 4000)
                    if r0 == "sat":
                        c0 = m0.eval(q1 - q2, model_completion=True)
                        if z3.is_rational_value(c0) and c0.denominator_as_long() == 1 \
                                and c0.numerator_as_long() != 0:
                            rr, _, _ = solve(evr.nonzero + [q1 - q2 != c0], 8000)
                            key["params"]["real_diff_int_const"] = rr == "unsat"
            key["params"].pop("_exact", None)
            key["params"].pop("_modpos", None)
            outs.append(o)

        if kind == "pair":
            # ---- equal / never_equal
            try:
                signal.alarm(30)
                eq = sm.equal(r1, r2)
                ne = sm.never_equal(r1, r2)
                signal.alarm(0)
            except Timeout:
                outs.append({"key": {"unit": "SymbolicMaths", "template": p["template"],
                                     "params": {"e1": t1, "e2": t2}}, "status": "timeout"})
                continue
            except Exception as e:  # pylint: disable=broad-except
                signal.alarm(0)
                outs.append({"key": {"unit": "SymbolicMaths", "template": p["template"],
                                     "params": {"e1": t1, "e2": t2}},
                             "status": "psyclone_error", "why": f"{type(e).__name__}: {e}"[:200]})
                continue
            if eq:
                record("SymbolicMaths.equal", True, [z1 != z2],
                       lambda env, arr: ((a := pyeval(p["e1"], env, arr)) != (b := pyeval(p["e2"], env, arr)),
                                         f"e1={a} e2={b}"))
            else:
                outs.append({"key": None, "status": "noverdict"})
            if ne:
                record("SymbolicMaths.never_equal", True, [z1 == z2],
                       lambda env, arr: ((a := pyeval(p["e1"], env, arr)) == (b := pyeval(p["e2"], env, arr)),
                                         f"e1={a} e2={b}"))
            # ---- expand (on e2, the bigger one)
            try:
                signal.alarm(30)
                cp = asg[2 * k + 1].copy()
                cp_parent = asg[2 * k + 1].parent
                # expand needs a scope: work on the real tree node
                sm.expand(asg[2 * k + 1].rhs)
                newtxt = writer(asg[2 * k + 1].rhs)
                signal.alarm(0)
            except Timeout:
                outs.append({"key": {"unit": "SymbolicMaths.expand", "template": p["template"],
                                     "params": {"e": t2}}, "status": "timeout"})
                continue
            except Exception as e:  # pylint: disable=broad-except
                signal.alarm(0)
                outs.append({"key": {"unit": "SymbolicMaths.expand", "template": p["template"],
                                     "params": {"e": t2}},
                             "status": "psyclone_error", "why": f"{type(e).__name__}: {e}"[:200]})
                continue
            try:
                zexp = fsym_term(newtxt)
            except Exception as e:  # pylint: disable=broad-except
                outs.append({"key": {"unit": "SymbolicMaths.expand", "template": p["template"],
                                     "params": {"e": t2, "out": newtxt}},
                             "status": "unsupported", "why": str(e)[:100]})
                continue

            def chk_expand(env, arr, newtxt=newtxt):
                a = pyeval(p["e2"], env, arr)
                b = eval_text(newtxt, env, arr)
                if a is None or b is None:
                    return None, f"e={a} expanded={b} text={newtxt} (not evaluable)"
                return a != b, f"e={a} expanded={b} text={newtxt}"
            # expansion may legitimately introduce no new denominators; assume the original's
            base = base + list(fsym_term.nonzero)
            record("SymbolicMaths.expand", True, [z2 != zexp], chk_expand,
                   extra={"out": newtxt, "_exact": list(fsym_term.exact), "_modpos": list(fsym_term.modpos)})
        else:
            # ---- dependency distance: read index e1(i), written index e2(i)
            try:
                signal.alarm(30)
                d = DependencyTools._get_dependency_distance("i", r1, r2)
                signal.alarm(0)
            except Timeout:
                outs.append({"key": {"unit": "distance", "template": "index",
                                     "params": {"e1": t1, "e2": t2}}, "status": "timeout"})
                continue
            except Exception as e:  # pylint: disable=broad-except
                signal.alarm(0)
                outs.append({"key": {"unit": "distance", "template": "index", "params": {"e1": t1, "e2": t2}},
                             "status": "psyclone_error", "why": f"{type(e).__name__}: {e}"[:200]})
                continue
            if d is None:
                outs.append({"key": None, "status": "noverdict"})
                continue
            d = int(d)
            # reported solution must be a solution: for all i: read(i) == written(i+d)
            iv = z3.Int("in_i")
            z2s = z3.substitute(z2, (iv, iv + d))
            nz = [z3.substitute(c, (iv, iv + d)) for c in ev.nonzero]

            def chk_dist(env, arr, d=d):
                a = pyeval(p["e1"], env, arr)
                env2 = dict(env, i=env["i"] + d)
                b = pyeval(p["e2"], env2, arr)
                return a != b, f"read({env['i']})={a} written({env['i']}+{d})={b}"
            base = base + nz
            record("DependencyTools._get_dependency_distance", d, [z1 != z2s], chk_dist,
                   extra={"d": d})
    signal.alarm(0)
    return outs


def eval_text(text, env, arr):
    """Concrete Fortran-semantics evaluation of an expression text, independent of z3:
    via fsym with concrete inputs."""
    t = fsym_term(text)
    subs = [(z3.Int("in_" + n), z3.IntVal(v)) for n, v in env.items()]
    t = z3.substitute(t, *subs)
    # array reads: replace selects on in_a by model values iteratively
    A = z3.Array("in_a", z3.IntSort(), z3.IntSort())
    for _ in range(10):
        t = z3.simplify(t)
        if z3.is_int_value(t):
            return t.as_long()
        sels = _find_selects(t)
        if not sels:
            break
        reps = []
        for sl in sels:
            ix = z3.simplify(sl.arg(1))
            if z3.is_int_value(ix) and sl.arg(0).eq(A):
                reps.append((sl, z3.IntVal(arr(ix.as_long()))))
        if not reps:
            break
        t = z3.substitute(t, *reps)
    t = z3.simplify(t)
    if not z3.is_int_value(t) and hasattr(arr, "m") and "in_c%w" in str(t):
        # reads of the structure component: the witness' own array (indices are concrete by now)
        t = z3.simplify(arr.m.eval(t, model_completion=True))
    return t.as_long() if z3.is_int_value(t) else None


def _find_selects(t, acc=None):
    acc = [] if acc is None else acc
    if z3.is_select(t):
        inner = _find_selects(t.arg(1), [])
        if inner:
            acc.extend(inner)
        else:
            acc.append(t)
        return acc
    for c in t.children():
        _find_selects(c, acc)
    return acc


def main():
    from psyclone.core import SymbolicMaths
    from psyclone.psyir.tools.dependency_tools import DependencyTools
    tier = core.tier()
    chk = core.Check(PROP, "other",
                     "verdict-vs-SMT-oracle: each True verdict of SymbolicMaths.equal/never_equal, each "
                     "expand() result and each integer distance from _get_dependency_distance is the "
                     "hypothesis of a z3 query over all integer valuations (Fortran truncating division/MOD)")
    pairs = fam.gen_pairs(tier, core.seed())
    idx = fam.index_pairs(tier, core.seed())
    batches = [("pair", pairs[i:i + BATCH]) for i in range(0, len(pairs), BATCH)] + \
              [("index", idx[i:i + BATCH]) for i in range(0, len(idx), BATCH)]
    results = core.pmap(work, batches)
    nover = 0
    for r in results:
        if isinstance(r, tuple):
            chk.harness_error("worker exception: " + r[1][-600:])
            continue
        for o in r:
            chk.evaluations += 1
            st = o["status"]
            if st == "noverdict":
                nover += 1
                continue
            if st in ("timeout", "psyclone_error", "unsupported"):
                chk.cov["by_products"].append({k: o.get(k) for k in ("key", "status", "why")})
                if st == "unsupported":
                    chk.count("skipped_unsupported")
                continue
            chk.count("queries")
            chk.cov["solver_s"] += o["solver_s"]
            kp = o["key"]["params"]
            chk.nontrivial.add(o["key"]["unit"] + kp.get("e1", "") + "|" + kp.get("e2", kp.get("e", "")))
            if o.get("boxed"):
                chk.count("boxed_queries")
            if st == "unsat":
                chk.count("unsat")
                chk.sample({"unit": o["key"]["unit"], "e1": kp.get("e1"), "e2": kp.get("e2"),
                            "verdict_of_psyclone": o["verdict"], "smt": "unsat"}, limit=8)
            elif st == "unknown":
                chk.count("inconclusive")
            elif st == "sat_replayed":
                chk.count("sat_replayed")
                w = o["witness"]
                chk.report(o["key"], f"{o['key']['unit']} unsound for e1={kp.get('e1')} e2={kp.get('e2')} "
                           f"out={kp.get('out')} at {w['env']}: {w['detail']}",
                           f"unit: {o['key']['unit']}\ne1 = {kp.get('e1')}\ne2 = {kp.get('e2')}\n"
                           f"psyclone verdict: {o['verdict']}\nwitness: {w}\n"
                           f"replay: evaluate both with Fortran integer semantics at the witness\n")
            elif st == "sat_not_reproduced":
                chk.count("sat_not_reproduced")
                chk.harness_error(f"model not reproduced: {o['key']} {o.get('witness')}")
    chk.cov["no_verdict"] = nover
    chk.cov["bounds"] = {"expr_depth": 2 if tier == "quick" else 3, "pairs": len(pairs),
                         "index_pairs": len(idx), "box_for_unknown": "[-8,8]"}
    chk.cov["rule"] = "distinct (unit, e1, e2) with a positive verdict from PSyclone"
    chk.cov["functions_encoded"] = core.src_hash(SymbolicMaths.equal, SymbolicMaths.never_equal,
                                                 SymbolicMaths.expand, SymbolicMaths.solve_equal_for,
                                                 DependencyTools._get_dependency_distance)
    chk.assumptions += ["integers are mathematical (no overflow); denominators != 0",
                        "array accesses a(e) are an arbitrary function of the index",
                        "only soundness of positive verdicts is asserted",
                        "expression quantifier = enumerated G-E family; valuation quantifier = solver"]
    return chk.finish()


if __name__ == "__main__":
    core.main_wrapper(main)
