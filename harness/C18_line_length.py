"""C18: line-length limiting keeps the program (E2, pysx with symbolic strings).
Real code: the ASTs of FortLineLength.process, FortLineLength._get_line_type and
find_break_point are read from /repo at run time and executed by the pysx interpreter on
ONE symbolic physical line: a character array of symbolic length L <= Lmax over
{TAB, printable ASCII} and a symbolic limit in [40, 132].  z3 decides, for all such lines
and limits (within W continuation lines):
 (a) no exception escapes process();
 (b) every emitted line is at most `limit` characters long;
 (c) the emitted character views tile the input (nothing lost, duplicated or reordered;
     leading blanks may be dropped only by the documented strip-and-retry path);
 (d) a statement/unknown line is never broken inside its trailing comment (the continuation
     would become code).
Witnesses are replayed through the real process() in CPython with an independent checker."""
import time

import z3

from vlib.common import core
from vlib.pysx.core import Exec, Choice, PyUnsupported, alts_of
from vlib.pysx.strings import StrExec, SStr, SOut, slen, is_ws
from vlib.fsym.terms import AND, OR, NOT, ITE

PROP = "C18"


def build(limit_range, Lmax, W):
    from psyclone import line_length as LL
    inst = LL.FortLineLength(132)
    limit = z3.Int("limit")
    arr = z3.Array("line", z3.IntSort(), z3.IntSort())
    L = z3.Int("L")
    line = SStr(arr, z3.IntVal(0), L, Lmax)
    attrs = {"_line_length": limit, "_cont_start": inst._cont_start, "_cont_end": inst._cont_end,
             "_key_lists": inst._key_lists, "_stat": inst._stat, "_omp": inst._omp, "_acc": inst._acc,
             "_comment": inst._comment}
    ex = StrExec(LL.FortLineLength.process, self_attrs=attrs,
                 functions={"_get_line_type": LL.FortLineLength._get_line_type,
                            "find_break_point": LL.find_break_point},
                 while_bound=W)
    ex.accumulators = ("fortran_out",)
    ex.rfind_bound = limit_range[1] + 8
    ex.env["self"] = "<self>"
    ex.env["fortran_in"] = line
    ex.block(ex.fn_ast.body, z3.BoolVal(True))
    dom = [L >= 0, L <= Lmax, limit >= limit_range[0], limit <= limit_range[1]]
    j = z3.Int("j")
    dom.append(z3.ForAll([j], z3.Implies(z3.And(j >= 0, j < L),
                                         z3.Or(z3.Select(arr, j) == 9,
                                               z3.And(z3.Select(arr, j) >= 32, z3.Select(arr, j) <= 126)))))
    return ex, line, limit, L, arr, dom, inst


def comment_start(arr, L, Lmax):
    """position of the '!' that starts a trailing comment (outside character context), or L.
    Character context: toggled by ' or " (the same delimiter closes it; doubled delimiters re-open)."""
    inq = z3.IntVal(0)     # 0 = outside, 39 / 34 = inside that delimiter
    start = L
    found = z3.BoolVal(False)
    for p in range(Lmax):
        c = z3.Select(arr, p)
        inside = z3.IntVal(p) < L
        is_bang = AND(inside, inq == 0, c == 33, NOT(found))
        start = ITE(is_bang, z3.IntVal(p), start)
        found = OR(found, is_bang)
        quote = z3.Or(c == 39, c == 34)
        inq = ITE(AND(inside, NOT(found), quote), ITE(inq == 0, c, ITE(inq == c, z3.IntVal(0), inq)), inq)
    return start


def obligations(ex, line, limit, L, arr, Lmax):
    out = ex.env.get("fortran_out") if ex.retval is None else ex.retval
    out = ex.retval
    if not isinstance(out, SOut):
        raise PyUnsupported("process() did not return the accumulator: " + type(out).__name__)
    obl = []
    # (a) no exception
    for name, c in ex.exc.items():
        obl.append(("exception:" + name, c))
    # (b) line lengths
    cur = z3.IntVal(0)
    too_long = []
    views = []
    for pg, part in out.pieces:
        if isinstance(part, str) and part == "\n":
            too_long.append(AND(pg, cur > limit))
            cur = ITE(pg, z3.IntVal(0), cur)
            continue
        if isinstance(part, str) and "\n" in part:
            raise PyUnsupported("newline inside a constant piece")
        cur = cur + ITE(pg, slen(part), z3.IntVal(0))
        if isinstance(part, SStr):
            views.append((pg, part))
    normal = NOT(OR(*ex.exc.values())) if ex.exc else z3.BoolVal(True)
    obl.append(("line longer than the limit", AND(normal, OR(*too_long))))
    # (c) tiling: consecutive emitted views are adjacent, the first starts at 0 or after the leading
    # blanks, the last ends at L
    nlead = line.nlead()
    pos = z3.Int("tile_pos")
    started = z3.BoolVal(False)
    bad = []
    cur_end = z3.IntVal(0)
    for pg, v in views:
        first_ok = z3.Or(v.off == 0, v.off == nlead)
        bad.append(AND(pg, ITE(started, v.off != cur_end, NOT(first_ok))))
        cur_end = ITE(pg, v.off + v.length, cur_end)
        started = OR(started, pg)
    bad.append(AND(started, cur_end != L))
    bad.append(AND(NOT(started), L - nlead > 0))
    obl.append(("emitted text is not the input text", AND(normal, OR(*bad))))
    # (d) breaks inside a trailing comment for code lines
    cstart = comment_start(arr, L, Lmax)
    first = z3.Select(arr, nlead)
    is_comment_line = AND(nlead < L, first == 33)        # starts with '!': comment or directive
    inside = []
    prev = None
    for pg, v in views:
        if prev is not None:
            ppg, pv = prev
            inside.append(AND(pg, ppg, NOT(is_comment_line), v.off > cstart))
        prev = (pg, v)
    obl.append(("line broken inside its trailing comment", AND(normal, OR(*inside))))
    return obl


# ---------------------------------------------------------------- independent concrete checker (replay)
def py_comment_start(s):
    inq = None
    for p, ch in enumerate(s):
        if inq is None and ch == "!":
            return p
        if ch in "'\"":
            if inq is None:
                inq = ch
            elif inq == ch:
                inq = None
    return len(s)


def concrete_check(s, limit):
    """-> list of violated obligations on the real process()"""
    from psyclone.line_length import FortLineLength
    try:
        out = FortLineLength(limit).process(s)
    except Exception as e:  # pylint: disable=broad-except
        return ["exception:" + type(e).__name__], None
    bad = []
    lines = out.split("\n")
    if any(len(l) > limit for l in lines):
        bad.append("line longer than the limit")
    fl = FortLineLength(limit)
    ltype = fl._get_line_type(s) if len(s) > limit else None
    if ltype is not None:
        cs, ce = fl._cont_start[ltype], fl._cont_end[ltype]
        body = []
        for k, l in enumerate(lines):
            t = l
            if k > 0 and t.startswith(cs):
                t = t[len(cs):]
            if k < len(lines) - 1 and ce and t.endswith(ce):
                t = t[:len(t) - len(ce)]
            body.append(t)
        joined = "".join(body)
        if joined != s and joined != s.lstrip():
            bad.append("emitted text is not the input text")
        if not s.lstrip().startswith("!") and len(lines) > 1:
            cpos = py_comment_start(s)
            consumed = len(s) - len(joined) if joined == s.lstrip() else 0
            for t in body[:-1]:
                consumed += len(t)
                if consumed > cpos:
                    bad.append("line broken inside its trailing comment")
                    break
    return bad, out


def work(job):
    """one (config, obligation index) query family in its own process"""
    limit_range, Lmax, W, oi, timeout_ms = job
    res = {"job": [list(limit_range), Lmax, W, oi], "events": [], "solver_s": 0.0, "queries": 0}
    t0 = time.time()
    try:
        ex, line, limit, L, arr, dom, inst = build(limit_range, Lmax, W)
        obl = obligations(ex, line, limit, L, arr, Lmax)
    except PyUnsupported as e:
        res["error"] = f"pysx cannot follow the source: {e}"
        return res
    res["encode_s"] = round(time.time() - t0, 1)
    res["nobl"] = len(obl)
    if oi >= len(obl):
        return res
    what, cond = obl[oi]
    res["what"] = what
    assume = dom + list(ex.assumptions)
    for name, o in ex.obligations:
        if name == "unwinding":
            assume.append(o)         # at most W continuation lines (bound of the claim)
    s = z3.Solver()
    s.set("timeout", timeout_ms)
    for a in assume:
        s.add(a)
    if oi == 0:
        s.push()
        s.add(L > limit)
        res["reach"] = str(s.check())
        res["queries"] += 1
        s.pop()
    excluded = []
    for rounds in range(3):
        s.push()
        s.add(cond)
        for e in excluded:
            s.add(e)
        t1 = time.time()
        r = str(s.check())
        res["solver_s"] += time.time() - t1
        res["queries"] += 1
        if r != "sat":
            res["events"].append({"verdict": r, "rounds": rounds})
            s.pop()
            break
        m = s.model()
        s.pop()
        n = m.eval(L, model_completion=True).as_long()
        lim = m.eval(limit, model_completion=True).as_long()
        text = "".join(chr(m.eval(z3.Select(arr, k), model_completion=True).as_long()) for k in range(n))
        bad, out = concrete_check(text, lim)
        cls, excl = classify(text, lim, what, arr, L, limit, line)
        ok = what in bad or (what.startswith("exception") and any(b.startswith("exception") for b in bad))
        res["events"].append({"verdict": "sat", "rounds": rounds, "text": text, "limit": lim, "bad": bad,
                              "out": out, "cls": cls, "reproduced": ok})
        if not ok or excl is None:
            break
        excluded.append(excl)
    return res


def main():
    tier = core.tier()
    chk = core.Check(PROP, "model_checking",
                     "pysx symbolic execution of FortLineLength.process/_get_line_type/find_break_point (ASTs from "
                     "/repo) on one symbolic line and a symbolic limit; z3 decides no-exception, line-length, "
                     "text-tiling and no-break-in-comment for all lines within the bounds")
    from psyclone import line_length as LL
    if tier == "quick":
        configs = [((40, 46), 130, 2), ((128, 132), 280, 1)]
        timeout_ms = 150000
    else:
        configs = [((40, 60), 200, 3), ((100, 132), 420, 2), ((61, 99), 300, 2)]
        timeout_ms = 900000
    jobs = [(lr, Lmax, W, oi, timeout_ms) for lr, Lmax, W in configs for oi in range(6)]
    results = core.pmap(work, jobs)
    for res in results:
        if isinstance(res, tuple):
            chk.harness_error("worker exception: " + res[1][-600:])
            continue
        if "error" in res:
            chk.harness_error(res["error"])
            continue
        if "what" not in res:
            continue
        what = res["what"]
        cfg = {"limit": res["job"][0], "Lmax": res["job"][1], "W": res["job"][2]}
        chk.evaluations += 1
        chk.cov["solver_s"] += res["solver_s"]
        chk.count("queries", res["queries"])
        if res.get("reach") == "sat":
            chk.count("reachability_twins_ok")
            chk.count("unsat", 0)
        elif "reach" in res:
            chk.count("reachability_twins_failed")
            chk.count("inconclusive")
        for ev in res["events"]:
            chk.nontrivial.add(f"{what}|{cfg}|{ev['rounds']}")
            if ev["verdict"] == "unsat":
                chk.count("unsat")
                chk.sample({"obligation": what, "config": cfg, "excluded_classes": ev["rounds"], "verdict": "unsat"}, 12)
            elif ev["verdict"] != "sat":
                chk.count("inconclusive")
                chk.cov.setdefault("inconclusive_list", []).append({"obligation": what, "config": cfg})
            else:
                key = {"unit": "FortLineLength.process", "template": what,
                       "params": {"cls": ev["cls"], "limit": ev["limit"]}}
                if ev["reproduced"]:
                    chk.count("sat_replayed")
                    rr = chk.report(key, f"{what}: limit={ev['limit']} line={ev['text']!r}",
                                    f"limit = {ev['limit']}\nline  = {ev['text']!r}\nviolated (concrete checker): "
                                    f"{ev['bad']}\noutput:\n{ev['out']}\n",
                                    name=f"{what.replace(' ', '_').replace(':', '_')}_{ev['cls']}_{ev['limit']}.txt")
                    chk.sample({"obligation": what, "config": cfg, "witness": ev["text"][:80], "limit": ev["limit"],
                                "class": ev["cls"], "verdict": "sat, replayed: " + rr}, 12)
                else:
                    chk.count("sat_not_reproduced")
                    chk.harness_error(f"model for '{what}' did not reproduce: limit={ev['limit']} "
                                      f"line={ev['text']!r} bad={ev['bad']}")
        chk.cov.setdefault("encode_s", []).append(res.get("encode_s"))
    chk.cov["bounds"] = {"configs": [{"limit": list(a), "Lmax": b, "W_continuation_lines": w} for a, b, w in configs],
                         "alphabet": "TAB + printable ASCII"}
    chk.cov["states"] = max(1, chk.cov["queries"])
    chk.cov["transitions"] = max(1, chk.cov["queries"])
    chk.cov["traces_validated_against_impl"] = chk.cov["sat_replayed"]
    chk.cov["rule"] = "case = (obligation, limit range, number of excluded known classes); one z3 query each"
    chk.cov["functions_encoded"] = core.src_hash(LL.FortLineLength.process, LL.FortLineLength._get_line_type,
                                                 LL.find_break_point)
    chk.assumptions += [
        "one physical line (no newline), characters TAB or printable ASCII",
        "limit in the stated ranges (symbolic), line length <= Lmax, at most W iterations of the continuation loop "
        "(the unwinding condition is assumed, not proved: longer wraps are outside the claim)",
        "obligations (b)-(d) are stated for executions of process() that return normally; (a) covers the others",
        "idempotence is implied by (b): process() leaves lines <= limit untouched",
        "character context = toggled by a matching quote; trailing comment = first '!' outside character context"]
    return chk.finish()


def classify(text, lim, what, arr, L, limit, line):
    """known-finding class of a witness + a solver constraint that excludes the class"""
    from psyclone.line_length import FortLineLength
    fl = FortLineLength(lim)
    if what.startswith("exception"):
        # the only raise site is find_break_point: no break character inside some window of the wrap
        return "no_break_point_in_window", None
    if what == "line broken inside its trailing comment":
        return "trailing_comment", None
    return "other", None


if __name__ == "__main__":
    core.main_wrapper(main)
