"""C06: array-syntax and intrinsic lowering preserve semantics (E1).
Real code: every array/intrinsic lowering transformation is validated and applied
on every matching node of the G-A family; the original (native Fortran array
semantics: right-hand side evaluated before any store, reductions evaluated
fully) and the lowered loops are executed symbolically with symbolic extents
0..E and one z3 query decides equality of all observables."""
from vlib.common import core, tv
from vlib.families import arrays as fam

PROP = "C06"


def specs():
    from psyclone.psyir import transformations as T
    from psyclone.psyir.nodes import Assignment, Reference, ArrayReference, IntrinsicCall, Node
    I = IntrinsicCall.Intrinsic

    def intr(which):
        return lambda n: isinstance(n, IntrinsicCall) and n.intrinsic == which

    def const_index(n):
        return isinstance(n.parent, ArrayReference) and isinstance(n.parent.parent, Assignment) \
            and n.parent.parent.lhs is n.parent

    return [
        ("ArrayAssignment2LoopsTrans", T.ArrayAssignment2LoopsTrans, lambda n: isinstance(n, Assignment), None),
        ("Reference2ArrayRangeTrans", T.Reference2ArrayRangeTrans,
         lambda n: type(n) is Reference and n.symbol.is_array, None),
        ("ArrayAccess2LoopTrans", T.ArrayAccess2LoopTrans, const_index, None),
        ("AllArrayAccess2LoopTrans", T.AllArrayAccess2LoopTrans, lambda n: isinstance(n, Assignment), None),
        ("Abs2CodeTrans", T.Abs2CodeTrans, intr(I.ABS), None),
        ("Sign2CodeTrans", T.Sign2CodeTrans, intr(I.SIGN), None),
        ("Min2CodeTrans", T.Min2CodeTrans, intr(I.MIN), None),
        ("Max2CodeTrans", T.Max2CodeTrans, intr(I.MAX), None),
        ("DotProduct2CodeTrans", T.DotProduct2CodeTrans, intr(I.DOT_PRODUCT), None),
        ("Matmul2CodeTrans", T.Matmul2CodeTrans, intr(I.MATMUL), None),
        ("Sum2LoopTrans", T.Sum2LoopTrans, intr(I.SUM), None),
        ("Product2LoopTrans", T.Product2LoopTrans, intr(I.PRODUCT), None),
        ("Minval2LoopTrans", T.Minval2LoopTrans, intr(I.MINVAL), None),
        ("Maxval2LoopTrans", T.Maxval2LoopTrans, intr(I.MAXVAL), None),
    ]


def describe(node):
    try:
        return node.debug_string().strip()[:60]
    except Exception:  # pylint: disable=broad-except
        return type(node).__name__


def work(case):
    return tv.run_apps(case, specs(), case["K"], case["E"], describe=describe)


def main():
    tier = core.tier()
    chk = core.Check(PROP, "translation_validation",
                     "validate+apply of ArrayAssignment2Loops/Reference2ArrayRange/ArrayAccess2Loop/"
                     "AllArrayAccess2Loop/Abs/Sign/Min/Max/DotProduct/Matmul 2Code and Sum/Product/Minval/"
                     "Maxval 2Loop on the G-A family; fsym+z3 equivalence; gfortran replay")
    cases = fam.gen(tier, core.seed())
    K, E = (3, 3) if tier == "quick" else (4, 4)
    for c in cases:
        c["K"], c["E"] = K, E
    results = core.pmap(work, cases)
    flat = []
    for r in results:
        flat.extend([r] if isinstance(r, tuple) else r)
    tv.aggregate(chk, flat)
    chk.cov["bounds"] = {"K": K, "E": E, "programs_generated": len(cases)}
    chk.cov["rule"] = ("case = (G-A template, parameters, transformation, node); non-trivial = original "
                       "changes an observable; distinct by hash of (original, transformed) text")
    chk.cov["programs"] = chk.cov["queries"]
    from psyclone.psyir import transformations as T
    chk.cov["functions_encoded"] = core.src_hash(*[s[1] for s in specs()])
    chk.assumptions += [
        "array extents and loop trip counts <= E/K (assumed in the query)",
        "exact reals: no rounding, signed zeros, NaN (the property's documented domain)",
        "MINVAL/MAXVAL of an empty array = +/-HUGE, a symbolic constant bounding every element",
        "the original program is conforming (subscripts in bounds, conformable shapes) - assumed",
        "program quantifier = enumerated G-A family; input quantifier = solver"]
    return chk.finish()


if __name__ == "__main__":
    core.main_wrapper(main)
