"""C12, LFRic non-local path: module variables used by the kernels of an extracted invoke.
Real code: CallTreeUtils.get_in_out_parameters(..., collect_non_local_symbols=True) (the call made by
LFRicExtractTrans) -> get_non_local_read_write_info -> _resolve_calls_and_unknowns, with the real
ModuleManager resolving the synthesised kernel and helper modules.
Oracle: the kernel bodies (same text, LFRic metadata stripped) are executed by fsym from a driver
that calls them the way the invoke does (one loop over cells per kernel, K iterations); z3 decides for
every module variable whether some execution reads it before any write inside the region (required
input) and whether some execution writes it (required output)."""
import itertools
import os
import shutil
import tempfile
import time

import z3

from vlib.common import core, tv
from vlib.fsym.interp import Interp, Unsupported, parse
from vlib.fsym.terms import AND, NOT, OR

SHARED = """module shared_mod
  implicit none
  real :: sa, sb, sc
  real :: sarr(4)
  integer :: icount
  real(kind=8) :: sd
contains
  subroutine bump()
    sb = sb + 1.0
  end subroutine bump
  subroutine bump_d()
    sd = sd + 1.0d0
  end subroutine bump_d
  subroutine reset_c()
    sc = 0.0
  end subroutine reset_c
  function get_c(n)
    integer, intent(in) :: n
    real :: get_c
    get_c = sc + n
  end function get_c
end module shared_mod
"""

# body fragments of a kernel: (tag, [statements]) over fld(map(1)), nlayers and the shared variables
FRAGS = {
    "read_sa": ["fld(map(1)) = fld(map(1)) + sa"],
    "write_sa": ["sa = 2.0"],
    "rw_sa": ["sa = sa + 1.0"],
    "wr_sa": ["sa = 3.0", "fld(map(1)) = sa"],
    "condw_sa": ["if (nlayers > 3) then", "  sa = 0.0", "end if", "fld(map(1)) = fld(map(1)) * sa"],
    "call_bump": ["call bump()"],
    "read_sb": ["fld(map(1)) = sb"],
    "write_sb": ["sb = 0.5"],
    "reset_c": ["call reset_c()"],
    "func_c": ["fld(map(1)) = get_c(nlayers)"],
    "write_sc": ["sc = 4.0"],
    "arr_w1": ["sarr(1) = 1.0"],
    "arr_r2": ["fld(map(1)) = sarr(2)"],
    "arr_rw": ["sarr(nlayers) = sarr(1) + 1.0"],
    "count": ["icount = icount + 1"],
    "count_w": ["icount = 0"],
    "none": ["fld(map(1)) = 0.0"],
    "call_bumpd": ["call bump_d()"],
    "read_sd": ["fld(map(1)) = sd"],
}

# first access of each fragment to a shared variable (PSyclone decides 'written first' per routine)
FIRST = {"read_sa": {"sa": "R"}, "write_sa": {"sa": "W"}, "rw_sa": {"sa": "R"}, "wr_sa": {"sa": "W"},
         "condw_sa": {"sa": "W"}, "call_bump": {}, "read_sb": {"sb": "R"}, "write_sb": {"sb": "W"}, "reset_c": {},
         "func_c": {}, "write_sc": {"sc": "W"}, "arr_w1": {"sarr": "W"}, "arr_r2": {"sarr": "R"},
         "arr_rw": {"sarr": "R"}, "count": {"icount": "R"}, "count_w": {"icount": "W"}, "none": {},
         "call_bumpd": {}, "read_sd": {"sd": "R"}}


def first_is_write(kernels, var):
    """every kernel routine that names `var` directly accesses it with a write first (callees: bump reads sb
    first, reset_c writes sc first, get_c reads sc)"""
    seen = []
    for k in kernels:
        for f in k:
            if var in FIRST[f]:
                seen.append(FIRST[f][var])
                break
    callee_reads = {"sb": "call_bump", "sc": "func_c", "sd": "call_bumpd"}
    if var in callee_reads and any(callee_reads[var] in k for k in kernels):
        return False
    return bool(seen) and all(x == "W" for x in seen)


KERNEL = """module {name}_mod
{uses}
  implicit none
{meta}
contains
  subroutine {name}_code(nlayers, fld, ndf, undf, map)
    use shared_mod, only: sa, sb, sc, sd, sarr, icount, bump, bump_d, reset_c, get_c
    implicit none
    integer, intent(in) :: nlayers
    integer, intent(in) :: ndf
    integer, intent(in) :: undf
    integer, intent(in), dimension(ndf) :: map
    real, intent(inout), dimension(undf) :: fld
{body}
  end subroutine {name}_code
end module {name}_mod
"""
META = """  type, extends(kernel_type) :: {name}_type
     type(arg_type), dimension(1) :: meta_args = (/ &
          arg_type(gh_field, gh_real, gh_readwrite, w3) &
          /)
     integer :: operates_on = cell_column
   contains
     procedure, nopass :: code => {name}_code
  end type {name}_type
"""
USES = "  use argument_mod\n  use fs_continuity_mod\n  use kernel_mod\n  use constants_mod"


def kernel_text(name, frags, lfric):
    # (fparser1, used for the metadata, needs an ordinary first executable statement)
    body = "    fld(map(1)) = fld(map(1))\n" + "\n".join("    " + l for f in frags for l in FRAGS[f])
    return KERNEL.format(name=name, uses=USES if lfric else "", meta=META.format(name=name) if lfric else "",
                         body=body)


def cases(tier):
    singles = [[f] for f in FRAGS]
    pairs = [["read_sa", "write_sa"], ["write_sa", "read_sa"], ["rw_sa", "write_sa"], ["call_bump", "read_sb"],
             ["write_sb", "call_bump"], ["reset_c", "func_c"], ["func_c", "write_sc"], ["arr_w1", "arr_r2"],
             ["count_w", "count"], ["condw_sa", "none"], ["call_bumpd", "read_sd"]]
    kernels = singles + pairs
    out = []
    # invokes of two kernels: every ordered pair of a selection; three kernels for some
    sel = kernels if tier == "thorough" else [k for i, k in enumerate(kernels)]
    for a, b in itertools.product(sel, sel):
        va = {f.split("_")[-1] for f in a}
        vb = {f.split("_")[-1] for f in b}
        related = va & vb or {"bump", "sb"} <= va | vb or {"c", "sc"} & (va | vb) and {"c", "sc"} & va and {"c", "sc"} & vb
        if tier == "quick" and not related:
            continue
        out.append([a, b])
    if tier == "thorough":
        for a, b, c in itertools.product(pairs[:6], singles[:6], pairs[:4]):
            out.append([a, b, c])
    return out


def driver_text(nk):
    calls = "\n".join(f"    do cell = 1, ncell\n      call k{i}_code(nlayers, f{i}, ndf, undf, map(:,cell))\n    end do"
                      for i in range(nk))
    uses = "\n".join(f"    use k{i}_mod, only: k{i}_code" for i in range(nk))
    flds = ", ".join(f"f{i}" for i in range(nk))
    decl = "\n".join(f"    real, intent(inout) :: f{i}(undf)" for i in range(nk))
    return (f"module driver_mod\n  implicit none\ncontains\n  subroutine driver({flds}, nlayers, ncell, ndf, undf, map)\n"
            f"{uses}\n    integer, intent(in) :: nlayers, ncell, ndf, undf\n    integer, intent(in) :: map(ndf, ncell)\n"
            f"{decl}\n    integer :: cell\n{calls}\n  end subroutine driver\nend module driver_mod\n")


def oracle(nk, kernels, K):
    src = SHARED + "".join(kernel_text(f"k{i}", fr, False) for i, fr in enumerate(kernels)) + driver_text(nk)
    it = Interp(src, K=K, E=K, trace=True, tree=parse(src))
    it.run("driver")
    shared = {"g_" + v: v for v in ("sa", "sb", "sc", "sd", "sarr", "icount")}
    s = z3.Solver()
    s.set("timeout", 10000)
    for a in list(it.assumptions) + list(it.bound_assumptions) + list(it.inbounds):
        s.add(a)
    need_in, need_out, written = {}, {}, {}
    nq = unk = 0
    for e in it.trace:
        if e.kind not in ("R", "W") or e.key not in shared:
            continue
        name = shared[e.key]
        if e.kind == "W":
            written.setdefault(e.key, []).append(e)
            if name not in need_out:
                s.push()
                s.add(e.guard)
                r = str(s.check())
                nq += 1
                s.pop()
                if r == "sat":
                    need_out[name] = f"write at statement {e.stmt}"
                elif r == "unknown":
                    unk += 1
            continue
        if name in need_in:
            continue
        cover = [AND(w.guard, *[x == y for x, y in zip(w.idx, e.idx)]) for w in written.get(e.key, [])
                 if len(w.idx) == len(e.idx)]
        s.push()
        s.add(AND(e.guard, NOT(OR(*cover))))
        r = str(s.check())
        nq += 1
        if r == "sat":
            m = s.model()
            need_in[name] = (f"read of {name}({','.join(str(m.eval(x, model_completion=True)) for x in e.idx)}) "
                             f"not preceded by a write (nlayers={m.eval(z3.Int('in_nlayers'), model_completion=True)})")
        elif r == "unknown":
            unk += 1
        s.pop()
    return need_in, need_out, nq, unk, src


_DIR = {}


def _proc_dir():
    """one scratch directory per worker process under the base directory the parent made (fparser1
    remembers where it found a module file, so the path must not change between jobs of one process)"""
    pid = os.getpid()
    if pid not in _DIR:
        base = os.environ.get("C12NL_BASE") or tempfile.gettempdir()
        _DIR[pid] = tempfile.mkdtemp(prefix="p%d_" % pid, dir=base)
    return _DIR[pid]


def run_all(tier, K):
    """-> flat list of outcomes"""
    base = tempfile.mkdtemp(prefix="c12nl_")
    os.environ["C12NL_BASE"] = base
    try:
        results = core.pmap(work, [(k, K) for k in cases(tier)])
    finally:
        shutil.rmtree(base, ignore_errors=True)
    flat = []
    for r in results:
        flat.extend([r] if isinstance(r, tuple) else r)
    return flat


def work(job):
    from psyclone.parse.algorithm import parse as aparse
    from psyclone.psyGen import PSyFactory
    from psyclone.psyir.tools import CallTreeUtils
    from psyclone.parse import ModuleManager
    kernels, K = job
    nk = len(kernels)
    tag = " | ".join("+".join(k) for k in kernels)
    key = {"unit": "CallTreeUtils.get_in_out_parameters(non-local)", "template": tag, "params": {}}
    workdir = _proc_dir()
    try:
        for i, fr in enumerate(kernels):
            with open(os.path.join(workdir, f"k{i}_mod.f90"), "w", encoding="utf-8") as fh:
                fh.write(kernel_text(f"k{i}", fr, True))
        with open(os.path.join(workdir, "shared_mod.f90"), "w", encoding="utf-8") as fh:
            fh.write(SHARED)
        uses = "\n".join(f"  use k{i}_mod, only: k{i}_type" for i in range(nk))
        alg = ("program alg\n  use field_mod, only: field_type\n" + uses + "\n  implicit none\n  type(field_type) :: " +
               ", ".join(f"f{i}" for i in range(nk)) + "\n  call invoke( " +
               ", ".join(f"k{i}_type(f{i})" for i in range(nk)) + " )\nend program alg\n")
        with open(os.path.join(workdir, "alg.f90"), "w", encoding="utf-8") as fh:
            fh.write(alg)
        ModuleManager._instance = None
        mm = ModuleManager.get()
        mm.add_search_path(workdir)
        mm.add_search_path(os.path.join(core.REPO, "src", "psyclone", "tests", "test_files", "dynamo0p3",
                                        "infrastructure"))
        try:
            _, info = aparse(os.path.join(workdir, "alg.f90"), api="dynamo0.3", kernel_paths=[workdir])
            psy = PSyFactory("dynamo0.3", distributed_memory=False).create(info)
            sched = psy.invokes.invoke_list[0].schedule
            import contextlib
            import io
            with contextlib.redirect_stdout(io.StringIO()):
                rw = CallTreeUtils().get_in_out_parameters(list(sched.children), collect_non_local_symbols=True)
        except Exception as e:  # pylint: disable=broad-except
            return [{"key": key, "status": "psyclone_error", "why": f"{type(e).__name__}: {e}"[:300]}]
        rep_in = {str(sig).lower() for mod, sig in rw.read_list if mod == "shared_mod"}
        rep_out = {str(sig).lower() for mod, sig in rw.write_list if mod == "shared_mod"}
        t0 = time.time()
        try:
            need_in, need_out, nq, unk, src = oracle(nk, kernels, K)
        except Unsupported as e:
            return [{"key": key, "status": "unsupported", "why": str(e)}]
        o = {"key": key, "solver_s": time.time() - t0, "nontrivial": bool(need_in or need_out),
             "h": tv.text_hash(src), "reach": "sat", "nqueries": nq}
        miss_in = {v: w for v, w in need_in.items() if v not in rep_in}
        miss_out = {v: w for v, w in need_out.items() if v not in rep_out}
        if miss_in or miss_out:
            kind = "input" if miss_in else "output"
            var = sorted(miss_in or miss_out)[0]
            o["diff"] = f"missing non-local {kind} {var}@shared_mod: {(miss_in or miss_out)[var]}"
            cond = any(f.startswith("condw") for k in kernels for f in k)
            o["key"] = dict(key, params={"kind": kind, "var": var, "nonlocal": True, "conditional_write": cond,
                                         "first_is_write": first_is_write(kernels, var)})
            o["replay_text"] = (f"! invoke of kernels {tag}\n! reported non-local inputs : {sorted(rep_in)}\n"
                                f"! reported non-local outputs: {sorted(rep_out)}\n! required inputs : {need_in}\n"
                                f"! required outputs: {need_out}\n" + src)
            ok = confirm(sched, kind, var)
            o["status"] = "sat_replayed" if ok else ("sat_not_reproduced" if ok is False else "sat_unreplayable")
        elif unk:
            o["status"] = "unknown"
        else:
            o["status"] = "unsat"
        return [o]
    finally:
        ModuleManager._instance = None
        for f in os.listdir(workdir):
            os.remove(os.path.join(workdir, f))


def confirm(sched, kind, var):
    """the real LFRicExtractTrans on the same nodes: the ExtractNode's variable lists"""
    import contextlib
    import io
    try:
        from psyclone.domain.lfric.transformations import LFRicExtractTrans
        from psyclone.psyir.nodes import ExtractNode
        with contextlib.redirect_stdout(io.StringIO()):
            LFRicExtractTrans().apply(list(sched.children), {"create_driver": False})
            node = sched.walk(ExtractNode)[0]
            rw = node._read_write_info if hasattr(node, "_read_write_info") else None
            if rw is None:
                from psyclone.psyir.tools import CallTreeUtils
                rw = CallTreeUtils().get_in_out_parameters(node.children, collect_non_local_symbols=True)
        lst = rw.read_list if kind == "input" else rw.write_list
        return not any(mod == "shared_mod" and str(sig).lower() == var for mod, sig in lst)
    except Exception:  # pylint: disable=broad-except
        return None
