"""C14: PSyIR tree stays well-formed under child-list edits (E3, CrossHair).
One CrossHair condition per (parent pre-state, operation): the real ChildrenList /
Node methods are executed symbolically with the index (and item selectors) as
solver variables; the postcondition is the local invariant + 'a rejected operation
changes nothing'.  Counterexamples are re-executed in plain CPython before being
reported."""
import os
import re
import subprocess
import sys
import time
from concurrent.futures import ThreadPoolExecutor

from vlib.common import core

PROP = "C14"
QUICK_PARENTS = ["schedule2", "loop", "ifelse", "call2", "assignment", "ompparallel", "binop"]
QUICK_OPS = ["insert", "addchild", "pop", "delitem", "setitem", "extend", "extend_same", "extend_attached", "remove",
             "replace", "setchildren"]


def run_condition(args):
    path, line, timeout, p, o = args
    env = dict(os.environ, PYTHONPATH=core.VERIF + os.pathsep + os.environ.get("PYTHONPATH", ""), PSYCLONE_CONFIG=os.environ["PSYCLONE_CONFIG"])
    cmd = [sys.executable, "-m", "crosshair", "check", "--report_all",
           "--per_condition_timeout", str(timeout), "--per_path_timeout", str(max(5, timeout // 4)),
           f"{path}:{line}"]
    t0 = time.time()
    try:
        r = subprocess.run(cmd, capture_output=True, text=True, env=env, cwd=core.VERIF,
                           timeout=timeout * 3 + 120)
        out = r.stdout + r.stderr
    except subprocess.TimeoutExpired:
        out = "TIMEOUT"
    return p, o, out, time.time() - t0


def classify(out):
    if "Confirmed over all paths" in out:
        return "confirmed", None
    m = re.search(r"error: (false|.*?) when calling (\w+)\((.*?)\)", out)
    if m:
        return "counterexample", m.group(3)
    if "Not confirmed" in out:
        return "not_confirmed", None
    if "Unable to meet precondition" in out:
        return "precondition_unmet", None
    return "other", out[-300:]


def parse_args(argstr):
    vals = {}
    for part in argstr.split(","):
        if "=" in part:
            k, v = part.split("=")
            vals[k.strip()] = int(v.strip())
        else:
            vals[len(vals)] = int(part.strip())
    if "idx" not in vals:
        vals = {"idx": vals[0], "ik": vals[1], "ik2": vals[2]}
    return vals


def main():
    from harness.xh import c14_steps as S
    from psyclone.psyir.nodes.node import ChildrenList, Node
    tier = core.tier()
    chk = core.Check(PROP, "model_checking",
                     "inductive step: one child-list operation from each well-formed local pre-state, "
                     "index and item selectors symbolic, decided per condition by CrossHair (z3)")
    os.makedirs(os.path.join(core.VERIF, "scratch"), exist_ok=True)
    path = os.path.join(core.VERIF, "scratch", "c14_gen.py")
    where = S.generate(path)
    if tier == "quick":
        conds = [(p, o) for p in QUICK_PARENTS for o in QUICK_OPS]
        timeout = 40
    else:
        conds = list(where)
        timeout = 120
    jobs = [(path, where[c], timeout, c[0], c[1]) for c in conds]
    with ThreadPoolExecutor(max_workers=core.nworkers()) as ex:
        results = list(ex.map(run_condition, jobs))
    stat = {}
    for p, o, out, dt in results:
        kind, detail = classify(out)
        stat[kind] = stat.get(kind, 0) + 1
        chk.count("queries")
        chk.evaluations += 1
        chk.cov["solver_s"] += dt
        chk.nontrivial.add((p, o))
        chk.sample({"parent": p, "op": o, "crosshair": kind, "s": round(dt, 1)}, limit=12)
        if kind == "confirmed":
            chk.count("unsat")
        elif kind in ("not_confirmed", "precondition_unmet"):
            chk.count("inconclusive")
        elif kind == "other":
            chk.count("inconclusive")
            chk.cov["by_products"].append({"cond": [p, o], "output": detail})
        else:
            try:
                a = parse_args(detail)
                ok = S.run_step(p, o, a["idx"], a["ik"], a["ik2"])
            except Exception as e:  # pylint: disable=broad-except
                chk.harness_error(f"replay of {p}/{o}({detail}) failed: {e}")
                continue
            if ok is True:
                chk.count("sat_not_reproduced")
                chk.harness_error(f"CrossHair counterexample {p}/{o}({detail}) does not reproduce")
                continue
            chk.count("sat_replayed")
            n = len(S.PARENTS[p]().children)
            params = dict(a, n=n, same_item=(a["ik2"] == S.NI), item=a["ik"])
            chk.report({"unit": "ChildrenList." + o, "template": p, "params": params},
                       f"{o} on {p} with idx={a['idx']} item={a['ik']} item2={a['ik2']}: tree ill-formed "
                       f"or a rejected operation changed it",
                       f"from harness.xh import c14_steps as S\n"
                       f"assert S.run_step({p!r}, {o!r}, {a['idx']}, {a['ik']}, {a['ik2']}) is True\n")
    chk.cov["crosshair"] = stat
    chk.cov["states"] = len({p for p, _ in conds})
    chk.cov["transitions"] = len(conds)
    chk.cov["traces_validated_against_impl"] = chk.cov["sat_replayed"]
    chk.cov["bounds"] = {"index_range": [-S.B, S.B], "items": S.NI, "per_condition_timeout": timeout,
                         "parents": sorted({p for p, _ in conds}), "ops": sorted({o for _, o in conds})}
    chk.cov["functions_encoded"] = core.src_hash(ChildrenList, Node.addchild, Node.detach,
                                                 Node.replace_with, Node.pop_all_children)
    chk.cov["rule"] = "one condition per (parent pre-state, operation)"
    chk.assumptions += [
        "inductive step over the LOCAL invariant (each child's parent is the node, valid at its "
        "position by the node's real _validate_child, no duplicates); pre-states are the enumerated parents",
        "index in [-7,7] (covers every in-range, boundary and out-of-range position for <=4 children)",
        "'Not confirmed'/'Unable to meet precondition' are inconclusive, not passes"]
    return chk.finish()


if __name__ == "__main__":
    core.main_wrapper(main)
