"""C05: accepted generic loop transformations preserve serial semantics.
Real code: validate+apply of the PSyIR loop transformations (no force) on every
eligible target of every G-L program; original and transformed text are executed
symbolically (fsym) and z3 decides equality of all observables for all inputs
within trip<=K.  Counterexamples are replayed with gfortran."""
import sys

from vlib.common import core, tv
from vlib.families import loops as fam

PROP = "C05"


def applications(psyir):
    """[(unit, tparams, locator)] where locator(psyir)->callable applying the trans."""
    from psyclone.psyir.nodes import Loop, Assignment, Routine
    from psyclone.psyir import transformations as T
    apps = []
    lps = psyir.walk(Loop)
    for li, lp in enumerate(lps):
        nxt = lp.parent.children[lp.position + 1] if lp.position + 1 < len(lp.parent.children) else None
        if isinstance(nxt, Loop):
            apps.append(("LoopFuseTrans", {"loop": li},
                         lambda p, li=li: (lambda l: T.LoopFuseTrans().apply(
                             l, l.parent.children[l.position + 1]))(p.walk(Loop)[li])))
        if len(lp.loop_body.children) == 1 and isinstance(lp.loop_body.children[0], Loop):
            apps.append(("LoopSwapTrans", {"loop": li},
                         lambda p, li=li: T.LoopSwapTrans().apply(p.walk(Loop)[li])))
            apps.append(("LoopTiling2DTrans", {"loop": li, "tilesize": 2},
                         lambda p, li=li: T.LoopTiling2DTrans().apply(p.walk(Loop)[li],
                                                                      {"tilesize": 2})))
        for cs in (2, 3):
            apps.append(("ChunkLoopTrans", {"loop": li, "chunksize": cs},
                         lambda p, li=li, cs=cs: T.ChunkLoopTrans().apply(p.walk(Loop)[li],
                                                                          {"chunksize": cs})))
        apps.append(("HoistLoopBoundExprTrans", {"loop": li},
                     lambda p, li=li: T.HoistLoopBoundExprTrans().apply(p.walk(Loop)[li])))
        apps.append(("ReplaceInductionVariablesTrans", {"loop": li},
                     lambda p, li=li: T.ReplaceInductionVariablesTrans().apply(p.walk(Loop)[li])))
    asg = psyir.walk(Assignment)
    for ai, a in enumerate(asg):
        if isinstance(a.parent.parent, Loop):
            apps.append(("HoistTrans", {"stmt": ai, "pos": a.position},
                         lambda p, ai=ai: T.HoistTrans().apply(p.walk(Assignment)[ai])))
    for ri, r in enumerate(psyir.walk(Routine)):
        apps.append(("FoldConditionalReturnExpressionsTrans", {"routine": ri},
                     lambda p, ri=ri: T.FoldConditionalReturnExpressionsTrans().apply(
                         p.walk(Routine)[ri])))
    return apps


def work(case):
    outs = []
    src = case["src"]
    try:
        base = tv.read_psyir(src)
        base_txt = tv.write_psyir(base)
    except Exception as e:  # pylint: disable=broad-except
        return [{"key": {"unit": "reader", "template": case["template"], "params": case["params"]},
                 "status": "psyclone_error", "why": f"{type(e).__name__}: {e}"}]
    depth = 2 if "do j" in src else 1
    K = case["K"][depth]
    for unit, tparams, fn in applications(base):
        key = {"unit": unit, "template": case["template"],
               "params": {**case["params"], **tparams}}
        p = tv.read_psyir(src)
        st, why = tv.safe_apply(lambda: fn(p))
        if st == "refused":
            outs.append({"key": key, "status": "refused", "why": why})
            continue
        if st == "error":
            outs.append({"key": key, "status": "psyclone_error", "why": why})
            continue
        try:
            new_txt = tv.write_psyir(p)
        except Exception as e:  # pylint: disable=broad-except
            outs.append({"key": key, "status": "psyclone_error", "why": f"writer: {e}"})
            continue
        if new_txt == base_txt:
            outs.append({"key": key, "status": "refused", "why": "no change"})
            continue
        outs.append(tv.decide(base_txt, new_txt, case["routine"], K, 3, key))
    return outs


def main():
    tier = core.tier()
    chk = core.Check(PROP, "translation_validation",
                     "validate+apply of LoopFuse/LoopSwap/Chunk/Tiling2D/Hoist/HoistLoopBound/"
                     "ReplaceInductionVariables/FoldConditionalReturn on G-L programs; fsym+z3 "
                     "equivalence of all observables; gfortran replay")
    cases = fam.gen(tier, core.seed())
    K = {1: 3, 2: 2} if tier == "quick" else {1: 4, 2: 3}
    for c in cases:
        c["K"] = K
    results = core.pmap(work, cases)
    flat = []
    for r in results:
        if isinstance(r, tuple):
            flat.append(r)
        else:
            flat.extend(r)
    tv.aggregate(chk, flat)
    chk.cov["bounds"] = {"K_depth1": K[1], "K_depth2": K[2], "E": 3,
                         "programs_generated": len(cases)}
    chk.cov["rule"] = ("case = (G-L template, parameters, transformation, target); non-trivial = "
                       "original changes some observable; distinct by hash of (original, "
                       "transformed) text")
    chk.cov["programs"] = chk.cov["queries"]
    from psyclone.psyir import transformations as T
    chk.cov["functions_encoded"] = core.src_hash(
        T.LoopFuseTrans, T.LoopSwapTrans, T.ChunkLoopTrans, T.LoopTiling2DTrans, T.HoistTrans,
        T.HoistLoopBoundExprTrans, T.ReplaceInductionVariablesTrans,
        T.FoldConditionalReturnExpressionsTrans)
    chk.assumptions += [
        "trip count of every symbolic loop <= K (assumed in the query; longer loops outside the claim)",
        "Fortran integers are mathematical integers, reals exact rationals",
        "the original program is conforming (subscripts in bounds) - assumed, not checked",
        "program quantifier = the enumerated G-L family; input quantifier = solver",
        "trusted: fparser2 parser, z3, the fsym interpreter (validated against gfortran by the self-test)"]
    return chk.finish()


if __name__ == "__main__":
    core.main_wrapper(main)
