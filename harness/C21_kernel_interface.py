"""C21: LFRic kernel calls match the kernel interface for all metadata (E1: caller and stub bound together).
Real code: ArgOrdering.generate with both of its overrides - KernCallArgList (the call the PSy layer
makes, via the whole LFRic generator) and KernStubArgList (gen_kernel_stub.generate) - for the same
kernel metadata.
The generated stub module(s) and the generated PSy module are put in ONE program text and executed
by fsym with the LFRic stub contract and summarised loops: the generated `call X_code(...)` is then a
real call of the generated `subroutine X_code(...)`, which the repository never compiles together.
* statically (fsym's argument association): same number of arguments, matching intrinsic type,
  matching rank, array actual for array dummy - any disagreement is a violation;
* by z3, for ALL mesh/function-space sizes allowed by the infrastructure contract: every explicit-shape
  dummy of the stub (dimension(undf_w1), dimension(ndf_w2), dimension(3,ndf,np_xy,np_z), ...) - whose
  bounds are computed from the integer actuals at their positions - fits in the actual array it is
  associated with.  A swapped pair of integers, a stencil size in the wrong slot, an evaluator array for
  the wrong space all become a dummy whose declared extent can exceed the actual's.
Kind and intent are outside the claim (fsym has one real and one integer type and stubs have no body)."""
import glob
import os
import re
import shutil
import tempfile
import time

import z3

from vlib.common import core, tv
from vlib.fsym.interp import Unsupported
from vlib.fsym.lfric import LfricInterp

PROP = "C21"
TESTDIR = os.path.join(core.REPO, "src", "psyclone", "tests", "test_files", "dynamo0p3")

MISMATCH = ("too many actual arguments", "missing actual for", "struct dummy with non-struct actual",
            "type mismatch in argument", "array actual for scalar dummy", "scalar actual for array dummy",
            "rank-changing argument association", "unknown keyword")


def ndf(it, okey):
    return it.fint(okey.split("%get_")[0], "ndf")


# extents the LFRic infrastructure documents for the arrays the PSy layer hands to kernels
CONTRACT = {
    "get_whole_dofmap": [lambda it, o: it.fint(o, "ndf"), None, None],
    "get_nodes": [lambda it, o: z3.IntVal(3), lambda it, o: it.fint(o, "ndf")],
    "get_boundary_dofs": [lambda it, o: it.fint(o, "ndf"), lambda it, o: z3.IntVal(2)],
    "local_stencil": [lambda it, o: it.fint(o + "%fs_to", "ndf"), lambda it, o: it.fint(o + "%fs_from", "ndf"),
                      lambda it, o: it.store_scalar(o + "%ncell_3d")],
    "columnwise_matrix": [lambda it, o: it.store_scalar(o + "%bandwidth"), lambda it, o: it.store_scalar(o + "%nrow"),
                          lambda it, o: it.store_scalar(o + "%ncell_2d")],
    "weights_xy": [lambda it, o: it.store_scalar(o + "%np_xy")],
    "weights_z": [lambda it, o: it.store_scalar(o + "%np_z")],
    "weights_xyz": [lambda it, o: it.store_scalar(o + "%np_xyz"), None],
}


class StubInterp(LfricInterp):
    def __init__(self, txt):
        super().__init__(txt, K=1, E=2)
        self.summarise = True
        self.extent_contract = CONTRACT

    def store_scalar(self, key):
        if key not in self.store:
            self.new_storage(key, "integer", 0, is_input=True)
        return self.store[key]


def kernel_file(module_name, dirs):
    for d in dirs:
        for ext in (".f90", ".F90"):
            p = os.path.join(d, module_name + ext)
            if os.path.exists(p):
                return p
    return None


def decide_invoke(text, routine):
    """-> (status, detail, nobl, solver_s, reach)"""
    t0 = time.time()
    it = StubInterp(text)
    try:
        it.run(routine)
    except Unsupported as e:
        msg = str(e)
        if any(msg.startswith(m) for m in MISMATCH):
            return "mismatch", msg, 0, time.time() - t0, "sat"
        return "unsupported", msg, 0, time.time() - t0, None
    if not it.kernel_calls and not any(ev.kind == "CALL" and ev.key.endswith("_code") for ev in it.trace):
        pass
    s = z3.Solver()
    s.set("timeout", 20000)
    for a in list(it.assumptions) + list(it.bound_assumptions):
        s.add(a)
    reach = str(s.check())
    nob = 0
    for dname, ob in it.conformance:
        if z3.is_true(z3.simplify(ob)):
            continue
        nob += 1
        s.push()
        s.add(z3.Not(ob))
        r = str(s.check())
        if r == "sat":
            m = s.model()
            vals = {str(d): str(m[d]) for d in m.decls() if str(d).startswith(("ndf_", "undf_", "in_", "ext_"))}
            s.pop()
            return ("sat", f"{dname}: {z3.simplify(ob)}  fails for " + str(dict(list(vals.items())[:8])), nob,
                    time.time() - t0, reach)
        s.pop()
        if r == "unknown":
            return "unknown", str(ob)[:200], nob, time.time() - t0, reach
    return "unsat", None, nob, time.time() - t0, reach


def work(job):
    from psyclone.parse.algorithm import parse
    from psyclone.psyGen import PSyFactory
    from psyclone.gen_kernel_stub import generate as gen_stub
    alg, dm, kdirs = job
    tag = os.path.basename(alg)
    key = {"unit": "KernCallArgList vs KernStubArgList", "template": tag, "params": {"dm": dm}}
    try:
        _, info = parse(alg, api="dynamo0.3", kernel_paths=kdirs)
        psy = PSyFactory("dynamo0.3", distributed_memory=dm).create(info)
        txt = str(psy.gen)
    except Exception as e:  # pylint: disable=broad-except
        return [{"key": key, "status": "refused", "why": f"generation: {type(e).__name__}: {e}"[:160]}]
    outs = []
    for inv in psy.invokes.invoke_list:
        k2 = dict(key, params=dict(key["params"], invoke=inv.name))
        kerns = inv.schedule.coded_kernels()
        if not kerns:
            continue
        stubs = {}
        bad = None
        for k in kerns:
            if k.module_name in stubs:
                continue
            f = kernel_file(k.module_name, kdirs)
            try:
                stubs[k.module_name] = str(gen_stub(f, api="lfric"))
            except Exception as e:  # pylint: disable=broad-except
                bad = f"stub generator: {type(e).__name__}: {e}"[:160]
                break
        if bad:
            outs.append({"key": k2, "status": "refused", "why": bad})
            continue
        text = "\n".join(stubs.values()) + "\n" + txt
        o = {"key": k2, "nontrivial": True, "h": tv.text_hash(text + inv.name), "solver_s": 0.0}
        try:
            st, detail, nob, ss, reach = decide_invoke(text, inv.name.lower())
        except Unsupported as e:
            st, detail, nob, ss, reach = "unsupported", "parse: " + str(e), 0, 0.0, None
        o["solver_s"], o["nqueries"], o["reach"] = ss, nob, reach or "sat"
        if st == "unsupported":
            o.update(status="unsupported", why=detail)
        elif st in ("unsat", "unknown"):
            o["status"] = st
        else:
            kn = ",".join(sorted(stubs))
            o["diff"] = (f"call and stub of {kn} disagree: {detail}" if st == "mismatch" else
                         f"a dummy array of the stub of {kn} can exceed its actual: {detail}")
            o["key"] = dict(k2, params=dict(k2["params"], kind=st, kernels=kn,
                                            what=re.sub(r"\d+", "N", detail)[:100]))
            o["replay_text"] = f"! {o['diff']}\n" + text
            ok = replay(text, inv.name.lower(), st, detail)
            o["status"] = "sat_replayed" if ok else ("sat_not_reproduced" if ok is False else "sat_unreplayable")
        outs.append(o)
    return outs


def replay(text, routine, st, detail):
    """independent of fsym's binder: read the call statement and the stub's dummy list/declarations from
    the text (regex) and compare counts, and rank/type per position"""
    flat = re.sub(r"&\s*\n\s*&?", "", text)
    low = flat.lower()
    stubs = {}
    for m in re.finditer(r"subroutine\s+(\w+_code)\s*\(([^)]*)\)(.*?)end subroutine", low, re.S):
        dummies = [d.strip() for d in m.group(2).split(",") if d.strip()]
        decl = {}
        for dm in re.finditer(r"^\s*(integer|real|logical)[^:\n]*?(dimension\(([^\n]*?)\))?\s*::\s*(.*)$", m.group(3), re.M):
            rank = 0
            if dm.group(3):
                rank = len(split_top(dm.group(3)))
            for nm in split_top(dm.group(4)):
                nm = nm.strip()
                r2 = rank
                mm = re.match(r"(\w+)\((.*)\)$", nm)
                if mm:
                    nm, r2 = mm.group(1), len(split_top(mm.group(2)))
                decl[nm] = (dm.group(1), r2)
        stubs[m.group(1)] = (dummies, decl)
    found = False
    for m in re.finditer(r"call\s+(\w+_code)\s*\((.*)\)\s*$", low, re.M):
        name = m.group(1)
        if name not in stubs:
            continue
        acts = split_top(m.group(2))
        dummies, decl = stubs[name]
        if len(acts) != len(dummies):
            found = True
        for a, d in zip(acts, dummies):
            a = a.strip()
            want = decl.get(d, (None, 0))[1]
            sec = re.match(r"\w+\((.*)\)$", a)
            if sec and want == 0 and ":" in sec.group(1):
                found = True
    if st == "mismatch":
        return True if found else None
    return None if not found else True


def split_top(s):
    out, depth, cur = [], 0, ""
    for ch in s:
        if ch == "(":
            depth += 1
        elif ch == ")":
            depth -= 1
        if ch == "," and depth == 0:
            out.append(cur)
            cur = ""
        else:
            cur += ch
    if cur.strip():
        out.append(cur)
    return out


def main():
    tier = core.tier()
    chk = core.Check(PROP, "translation_validation",
                     "generated kernel stub and generated PSy layer in one program: fsym associates the real call with "
                     "the real stub (count/type/rank) and z3 decides, for all sizes allowed by the infrastructure "
                     "contract, that every explicit-shape dummy fits its actual")
    algs = sorted(p for p in glob.glob(os.path.join(TESTDIR, "*.f90")) if not p.endswith("_mod.f90"))
    jobs = [(a, dm, [TESTDIR]) for a in algs for dm in ((False,) if tier == "quick" else (False, True))]
    results = core.pmap(work, jobs)
    flat = []
    for r in results:
        flat.extend([r] if isinstance(r, tuple) else r)
    tv.aggregate(chk, flat)
    chk.cov["queries"] = sum(o.get("nqueries", 0) for o in flat if isinstance(o, dict)) or chk.cov["queries"]
    chk.cov["bounds"] = {"algorithm_files": len(algs), "mesh": "summarised (all sizes)"}
    chk.cov["rule"] = "case = (algorithm file of the repository's LFRic test set, invoke, distributed memory)"
    from psyclone.domain.lfric import ArgOrdering, KernCallArgList, KernStubArgList
    chk.cov["functions_encoded"] = core.src_hash(ArgOrdering.generate, KernCallArgList, KernStubArgList)
    chk.assumptions += [
        "infrastructure contract for extents: dofmaps (ndf, .), nodes (3, ndf), boundary dofs (ndf, 2), operator "
        "local_stencil (ndf_to, ndf_from, ncell_3d), CMA matrix (bandwidth, nrow, ncell_2d), quadrature weights (np_*)",
        "kind parameters and intents are not compared; stubs have no body",
        "metadata = the kernels invoked by the repository's LFRic test algorithm files for which both generators succeed"]
    return chk.finish()


if __name__ == "__main__":
    core.main_wrapper(main)
