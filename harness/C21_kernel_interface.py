"""C21: LFRic kernel calls match the kernel interface for all metadata (E1: caller and stub bound together).
Real code: ArgOrdering.generate with both of its overrides - KernCallArgList (the call the PSy layer
makes, via the whole LFRic generator) and KernStubArgList (gen_kernel_stub.generate) - for the same
kernel metadata.
The generated stub module(s) and the generated PSy module are put in ONE program text and executed
by fsym with the LFRic stub contract and summarised loops: the generated `call X_code(...)` is then a
real call of the generated `subroutine X_code(...)`, which the repository never compiles together.
* statically (fsym's argument association): same number of arguments, matching intrinsic type,
  matching rank, array actual for array dummy - any disagreement is a violation;
* by z3, for ALL mesh/function-space sizes allowed by the infrastructure contract: every explicit-shape
  dummy of the stub (dimension(undf_w1), dimension(ndf_w2), dimension(3,ndf,np_xy,np_z), ...) - whose
  bounds are computed from the integer actuals at their positions - fits in the actual array it is
  associated with.  A swapped pair of integers, a stencil size in the wrong slot, an evaluator array for
  the wrong space all become a dummy whose declared extent can exceed the actual's.
Kind and intent are outside the claim (fsym has one real and one integer type and stubs have no body)."""
import glob
import os
import re
import shutil
import tempfile
import time

import z3

from vlib.common import core, tv
from vlib.fsym.interp import Unsupported
from vlib.fsym.lfric import LfricInterp

PROP = "C21"
TESTDIR = os.path.join(core.REPO, "src", "psyclone", "tests", "test_files", "dynamo0p3")

MISMATCH = ("too many actual arguments", "missing actual for", "struct dummy with non-struct actual",
            "type mismatch in argument", "array actual for scalar dummy", "scalar actual for array dummy",
            "rank-changing argument association", "unknown keyword", "unknown name")


def ndf(it, okey):
    return it.fint(okey.split("%get_")[0], "ndf")


# extents the LFRic infrastructure documents for the arrays the PSy layer hands to kernels
CONTRACT = {
    "get_nodes": [lambda it, o: z3.IntVal(3), lambda it, o: it.fint(o, "ndf")],
    "get_boundary_dofs": [lambda it, o: it.fint(o, "ndf"), lambda it, o: z3.IntVal(2)],
    "local_stencil": [lambda it, o: it.fint(o + "%fs_to", "ndf"), lambda it, o: it.fint(o + "%fs_from", "ndf"),
                      lambda it, o: it.store_scalar(o + "%ncell_3d")],
    "columnwise_matrix": [lambda it, o: it.store_scalar(o + "%bandwidth"), lambda it, o: it.store_scalar(o + "%nrow"),
                          lambda it, o: it.fint(o, "ncells_2d")],
    "weights_xy": [lambda it, o: it.store_scalar(o + "%np_xy")],
    "weights_z": [lambda it, o: it.store_scalar(o + "%np_z")],
    "weights_xyz": [lambda it, o: it.store_scalar(o + "%np_xyz"),
                    lambda it, o: it.store[o + "%nfaces"] if o + "%nfaces" in it.store else
                    (it.store[o + "%nedges"] if o + "%nedges" in it.store else z3.Int("ext_any_" + o))],
    "get_adjacent_face": [lambda it, o: it.fint(o.split("%mesh")[0], "number_horizontal_faces"), None],
    # stencil maps: dofmap (ndf of the field's space, largest stencil, cells); sizes per cell never exceed it
    "column_banded_dofmap_to": [lambda it, o: it.fint(o + "%fs_to", "ndf"), lambda it, o: it.fint(o + "%fs_to", "nlayers")],
    "column_banded_dofmap_from": [lambda it, o: it.fint(o + "%fs_from", "ndf"),
                                  lambda it, o: it.fint(o + "%fs_from", "nlayers")],
    "indirection_dofmap_to": [lambda it, o: it.store_scalar(o + "%nrow")],
    "indirection_dofmap_from": [lambda it, o: it.store_scalar(o + "%ncol")],
}


def owner_ndf(it, o):
    """ndf of the function space an accessor object (stencil map, ...) was obtained from"""
    return it.fint(o.split("%get_")[0], "ndf")


def dofmap_dim2(it, o):
    """2D stencil dofmaps: (ndf, longest branch, 4 branches, cells), longest branch = extent + 1"""
    if "get_stencil_2d_dofmap" in o and it.obj_args.get(o) and len(it.obj_args[o]) > 1 and it.obj_args[o][1] is not None:
        return it.obj_args[o][1] + 1
    return z3.Int(f"ext_{o}%get_whole_dofmap_1")


CONTRACT["get_whole_dofmap"] = [owner_ndf, dofmap_dim2,
                                lambda it, o: z3.IntVal(4) if "get_stencil_2d_dofmap" in o else
                                z3.Int(f"ext_{o}%get_whole_dofmap_2"), None]
# arrays the reference element allocates and fills for the caller
REF_ELEM_ARRAYS = {"get_normals_to_horizontal_faces": "number_horizontal_faces",
                   "get_normals_to_vertical_faces": "number_vertical_faces",
                   "get_normals_to_faces": "number_faces",
                   "get_outward_normals_to_horizontal_faces": "number_horizontal_faces",
                   "get_outward_normals_to_vertical_faces": "number_vertical_faces",
                   "get_outward_normals_to_faces": "number_faces"}


# dimension of a basis / differential-basis function per function space (user guide, kernel argument rules)
BASIS_DIM = {"w0": 1, "w2trace": 1, "w2htrace": 1, "w2vtrace": 1, "w3": 1, "wtheta": 1, "wchi": 1,
             "w1": 3, "w2": 3, "w2h": 3, "w2v": 3, "w2broken": 3, "any_w2": 3}
DIFF_BASIS_DIM = {"w2": 1, "w2h": 1, "w2v": 1, "w2broken": 1, "any_w2": 1,
                  "w0": 3, "w1": 3, "w2trace": 3, "w2htrace": 3, "w2vtrace": 3, "w3": 3, "wtheta": 3, "wchi": 3}


def space_constraints(kerns):
    """LFRic rule: within one kernel call the arguments declared on one function space share that space
    (PSyclone takes ndf/undf/dofmaps from the first of them); returns z3 constraints over the contract's
    integer names"""
    cons = []
    classes = {}
    orig = {}
    for k in kerns:
        for a in k.arguments.args:
            if a.argument_type in ("gh_field",) or a.is_field:
                n = getattr(a, "vector_size", 1) or 1
                okeys = [f"in_{a.name}"] if n == 1 else [f"in_{a.name}[{i + 1}]" for i in range(n)]
                fs = a.function_space
                for o in okeys:
                    classes.setdefault(fs.mangled_name, []).append(o)
                orig[fs.mangled_name] = fs.orig_name
            elif a.is_operator:
                for o, fs in ((f"in_{a.name}%fs_to", a.function_space_to), (f"in_{a.name}%fs_from", a.function_space_from)):
                    classes.setdefault(fs.mangled_name, []).append(o)
                    orig[fs.mangled_name] = fs.orig_name
    for name, okeys in classes.items():
        for what in ("ndf", "undf", "dim_space", "dim_space_diff"):
            for o in okeys[1:]:
                cons.append(z3.Int(f"{what}_{o}") == z3.Int(f"{what}_{okeys[0]}"))
        sp = orig[name].lower()
        for o in okeys:
            if sp in BASIS_DIM:
                cons.append(z3.Int(f"dim_space_{o}") == BASIS_DIM[sp])
            if sp in DIFF_BASIS_DIM:
                cons.append(z3.Int(f"dim_space_diff_{o}") == DIFF_BASIS_DIM[sp])
    return cons


class StubInterp(LfricInterp):
    def __init__(self, txt):
        super().__init__(txt, K=1, E=2)
        self.summarise = True
        self.extent_contract = CONTRACT
        self._StubInterp__init_hooks()

    def __init_hooks(self):
        base = self.extern_handler

        def handler(self_, name, args, frame, g, base=base):
            if "%" in name and name.rsplit("%", 1)[1] in REF_ELEM_ARRAYS and args:
                from fparser.two import Fortran2003 as F
                from vlib.fsym.interp import Binding, lname
                obj, meth = name.rsplit("%", 1)
                ob = self.lookup(obj, frame)
                nm = lname(args[0])
                b = frame.vars.get(nm)
                if ob is None or b is None or not getattr(b, "is_pointer", False):
                    raise Unsupported("reference-element array " + name)
                self.fresh += 1
                key = f"{self.prefix}alloc{self.fresh}_{nm}"
                self.new_storage(key, b.tname, 2, is_input=True)
                nb = Binding(nm, b.tname, key, rank=2,
                             bounds=[(z3.IntVal(1), z3.IntVal(3)),
                                     (z3.IntVal(1), self.fint(ob.key.split("%mesh")[0], REF_ELEM_ARRAYS[meth]))])
                nb.is_pointer = True
                frame.vars[nm] = nb
                return True
            return base(self_, name, args, frame, g)
        self.extern_handler = handler

    def contract_bounds(self, key, rank, okey, what):
        bounds = super().contract_bounds(key, rank, okey, what)
        if what == "get_stencil_sizes" and rank == 2:
            self.assumptions.append(bounds[0][1] == 4)
        if what == "get_stencil_sizes":
            # every cell's stencil size fits in the stencil dofmap obtained from the same map object
            c = z3.Int("c_any")
            dm = dofmap_dim2(self, okey)
            arr = self.store[key]
            sel = z3.Select(arr, c) if rank == 1 else z3.Select(z3.Select(arr, z3.Int("b_any")), c)
            qs = [c] if rank == 1 else [z3.Int("b_any"), c]
            self.assumptions.append(z3.ForAll(qs, z3.And(sel >= 0, sel <= dm)))
        return bounds

    def store_scalar(self, key):
        if key not in self.store:
            self.new_storage(key, "integer", 0, is_input=True)
        return self.store[key]


def kernel_file(module_name, dirs):
    for d in dirs:
        for ext in (".f90", ".F90"):
            p = os.path.join(d, module_name + ext)
            if os.path.exists(p):
                return p
    return None


def decide_invoke(text, routine, extra=()):
    """-> (status, detail, nobl, solver_s, reach)"""
    t0 = time.time()
    it = StubInterp(text)
    try:
        it.run(routine)
    except Unsupported as e:
        msg = str(e)
        if any(msg.startswith(m) for m in MISMATCH):
            return "mismatch", msg, 0, time.time() - t0, "sat"
        return "unsupported", msg, 0, time.time() - t0, None
    if not it.kernel_calls and not any(ev.kind == "CALL" and ev.key.endswith("_code") for ev in it.trace):
        pass
    s = z3.Solver()
    s.set("timeout", 20000)
    for a in list(it.assumptions) + list(it.bound_assumptions) + list(extra):
        s.add(a)
    # one mesh per invoke: every function space has the same number of layers
    for what in ("nlayers", "ncells_2d", "number_horizontal_faces", "number_vertical_faces", "number_faces"):
        nl = [v for (o, w), v in it.field_ints.items() if w == what]
        for v in nl[1:]:
            s.add(v == nl[0])
    reach = str(s.check())
    nob = 0
    for dname, ob in it.conformance:
        if z3.is_true(z3.simplify(ob)):
            continue
        nob += 1
        s.push()
        s.add(z3.Not(ob))
        r = str(s.check())
        if r == "sat":
            m = s.model()
            vals = {str(d): str(m[d]) for d in m.decls() if str(d).startswith(("ndf_", "undf_", "in_", "ext_"))}
            s.pop()
            ok = concrete_replay(text, routine, it, m, dname)
            return ("sat" if ok else ("sat_norepro" if ok is False else "sat_unrep"),
                    f"{dname}: {z3.simplify(ob)}  fails for " + str(dict(list(vals.items())[:8])), nob,
                    time.time() - t0, reach)
        s.pop()
        if r == "unknown":
            return "unknown", str(ob)[:200], nob, time.time() - t0, reach
    return "unsat", None, nob, time.time() - t0, reach


def concrete_replay(text, routine, it, model, dname):
    """re-run both generated texts with every size fixed to the witness (fsym concrete mode): the same dummy
    must then be declared larger than the actual it receives"""
    ic = StubInterp(text)
    ic.concrete_inputs = {k: model.eval(t, model_completion=True) for k, t in it.inputs.items() if z3.is_expr(t)}
    for k, v in it.field_ints.items():
        ic.field_ints[k] = model.eval(v, model_completion=True)
    try:
        ic.run(routine)
    except Unsupported:
        return None
    sk = [(l["skolem"], model.eval(l["skolem"], model_completion=True)) for l in ic.loops_seen]
    for dn, ob in ic.conformance:
        if dn != dname:
            continue
        v = z3.simplify(z3.substitute(ob, *sk)) if sk else z3.simplify(ob)
        v = z3.simplify(model.eval(v, model_completion=True))
        if z3.is_false(v):
            return True
    return False


def work_meta(job):
    """synthesised metadata: write kernel + algorithm into a scratch directory and run `work` on it"""
    (name, ksrc, asrc), dm = job
    d = tempfile.mkdtemp(prefix="c21_")
    try:
        with open(os.path.join(d, f"{name}_mod.f90"), "w", encoding="utf-8") as fh:
            fh.write(ksrc)
        alg = os.path.join(d, f"{name}_alg.f90")
        with open(alg, "w", encoding="utf-8") as fh:
            fh.write(asrc)
        outs = work((alg, dm, [d]))
        for o in outs:
            if "replay_text" in o:
                o["replay_text"] = "! ---- kernel metadata\n" + ksrc + "! ---- algorithm\n" + asrc + o["replay_text"]
        return outs
    finally:
        shutil.rmtree(d, ignore_errors=True)


def work(job):
    from psyclone.parse.algorithm import parse
    from psyclone.psyGen import PSyFactory
    from psyclone.gen_kernel_stub import generate as gen_stub
    alg, dm, kdirs = job
    tag = os.path.basename(alg)
    key = {"unit": "KernCallArgList vs KernStubArgList", "template": tag, "params": {"dm": dm}}
    try:
        _, info = parse(alg, api="dynamo0.3", kernel_paths=kdirs if kdirs != [TESTDIR] else None)
        psy = PSyFactory("dynamo0.3", distributed_memory=dm).create(info)
        txt = str(psy.gen)
    except Exception as e:  # pylint: disable=broad-except
        return [{"key": key, "status": "refused", "why": f"generation: {type(e).__name__}: {e}"[:160]}]
    outs = []
    for inv in psy.invokes.invoke_list:
        k2 = dict(key, params=dict(key["params"], invoke=inv.name))
        kerns = inv.schedule.coded_kernels()
        if not kerns:
            continue
        stubs = {}
        bad = None
        for k in kerns:
            if k.module_name in stubs:
                continue
            f = kernel_file(k.module_name, kdirs)
            try:
                if f is None:
                    raise FileNotFoundError(k.module_name)
                stubs[k.module_name] = str(gen_stub(f, api="lfric"))
            except Exception as e:  # pylint: disable=broad-except
                bad = f"stub generator: {type(e).__name__}: {e}"[:160]
                break
        if bad:
            outs.append({"key": k2, "status": "refused", "why": bad})
            continue
        text = "\n".join(stubs.values()) + "\n" + txt
        o = {"key": k2, "nontrivial": True, "h": tv.text_hash(text + inv.name), "solver_s": 0.0}
        dup = duplicate_dummies(text)
        try:
            if dup:
                st, detail, nob, ss, reach = "mismatch", dup, 0, 0.0, "sat"
            else:
                st, detail, nob, ss, reach = decide_invoke(text, inv.name.lower(), space_constraints(kerns))
        except Unsupported as e:
            st, detail, nob, ss, reach = "unsupported", "parse: " + str(e), 0, 0.0, None
        o["solver_s"], o["nqueries"], o["reach"] = ss, nob, reach or "sat"
        if st == "unsupported":
            o.update(status="unsupported", why=detail)
        elif st in ("unsat", "unknown"):
            o["status"] = st
        else:
            kn = ",".join(sorted(stubs))
            o["diff"] = (f"call and stub of {kn} disagree: {detail}" if st == "mismatch" else
                         f"a dummy array of the stub of {kn} can exceed its actual: {detail}")
            o["key"] = dict(k2, params=dict(k2["params"], kind="mismatch" if st == "mismatch" else "extent", kernels=kn,
                                            what=re.sub(r"\d+", "N", detail)[:100]))
            o["replay_text"] = f"! {o['diff']}\n" + text
            if st == "mismatch":
                ok = replay(text, inv.name.lower(), st, detail)
            else:
                ok = {"sat": True, "sat_norepro": False, "sat_unrep": None}[st]
            o["status"] = "sat_replayed" if ok else ("sat_not_reproduced" if ok is False else "sat_unreplayable")
        outs.append(o)
    return outs


def duplicate_dummies(text):
    """a stub whose dummy list names one entity twice is not an interface at all"""
    flat = re.sub(r"&\s*\n\s*&?", "", text).lower()
    for m in re.finditer(r"subroutine\s+(\w+_code)\s*\(([^)]*)\)", flat):
        d = [x.strip() for x in m.group(2).split(",") if x.strip()]
        rep = sorted({x for x in d if d.count(x) > 1})
        if rep:
            return f"duplicate dummy argument {rep[0]} in the stub of {m.group(1)}"
    return None


def replay(text, routine, st, detail):
    if detail.startswith("duplicate dummy"):
        return True
    """independent of fsym's binder: read the call statement and the stub's dummy list/declarations from
    the text (regex) and compare counts, and rank/type per position"""
    flat = re.sub(r"&\s*\n\s*&?", "", text)
    low = flat.lower()
    stubs = {}
    for m in re.finditer(r"subroutine\s+(\w+_code)\s*\(([^)]*)\)(.*?)end subroutine", low, re.S):
        dummies = [d.strip() for d in m.group(2).split(",") if d.strip()]
        decl = {}
        for dm in re.finditer(r"^\s*(integer|real|logical)[^:\n]*?(dimension\(([^\n]*?)\))?\s*::\s*(.*)$", m.group(3), re.M):
            rank = 0
            if dm.group(3):
                rank = len(split_top(dm.group(3)))
            for nm in split_top(dm.group(4)):
                nm = nm.strip()
                r2 = rank
                mm = re.match(r"(\w+)\((.*)\)$", nm)
                if mm:
                    nm, r2 = mm.group(1), len(split_top(mm.group(2)))
                decl[nm] = (dm.group(1), r2)
        stubs[m.group(1)] = (dummies, decl)
    found = False
    for m in re.finditer(r"call\s+(\w+_code)\s*\((.*)\)\s*$", low, re.M):
        name = m.group(1)
        if name not in stubs:
            continue
        acts = split_top(m.group(2))
        dummies, decl = stubs[name]
        if len(acts) != len(dummies):
            found = True
        for a, d in zip(acts, dummies):
            a = a.strip()
            want = decl.get(d, (None, 0))[1]
            sec = re.match(r"\w+\((.*)\)$", a)
            if sec and want == 0 and ":" in sec.group(1):
                found = True
    if st == "mismatch":
        return True if found else None
    return None if not found else True


def split_top(s):
    out, depth, cur = [], 0, ""
    for ch in s:
        if ch == "(":
            depth += 1
        elif ch == ")":
            depth -= 1
        if ch == "," and depth == 0:
            out.append(cur)
            cur = ""
        else:
            cur += ch
    if cur.strip():
        out.append(cur)
    return out


def main():
    tier = core.tier()
    chk = core.Check(PROP, "translation_validation",
                     "generated kernel stub and generated PSy layer in one program: fsym associates the real call with "
                     "the real stub (count/type/rank) and z3 decides, for all sizes allowed by the infrastructure "
                     "contract, that every explicit-shape dummy fits its actual")
    algs = sorted(p for p in glob.glob(os.path.join(TESTDIR, "*.f90")) if not p.endswith("_mod.f90"))
    jobs = [(a, dm, [TESTDIR]) for a in algs for dm in ((False,) if tier == "quick" else (False, True))]
    results = core.pmap(work, jobs)
    from vlib.families import lfric_meta
    metas = lfric_meta.gen(60 if tier == "quick" else 1200, 1) + lfric_meta.mesh_combos()
    results += core.pmap(work_meta, [(m, dm) for m in metas for dm in ((False,) if tier == "quick" else (False, True))])
    flat = []
    for r in results:
        flat.extend([r] if isinstance(r, tuple) else r)
    tv.aggregate(chk, flat)
    chk.cov["queries"] = sum(o.get("nqueries", 0) for o in flat if isinstance(o, dict)) or chk.cov["queries"]
    chk.cov["bounds"] = {"algorithm_files": len(algs), "synthesised_metadata": len(metas),
                         "mesh": "summarised (all sizes)"}
    chk.cov["rule"] = "case = (algorithm file of the repository's LFRic test set, invoke, distributed memory)"
    from psyclone.domain.lfric import ArgOrdering, KernCallArgList, KernStubArgList
    chk.cov["functions_encoded"] = core.src_hash(ArgOrdering.generate, KernCallArgList, KernStubArgList)
    chk.assumptions += [
        "infrastructure contract for extents: dofmaps (ndf, .), nodes (3, ndf), boundary dofs (ndf, 2), operator "
        "local_stencil (ndf_to, ndf_from, ncell_3d), CMA matrix (bandwidth, nrow, ncell_2d), quadrature weights (np_*)",
        "kind parameters and intents are not compared; stubs have no body",
        "metadata = the kernels invoked by the repository's LFRic test algorithm files, plus randomly drawn metadata "
        "(scalars, fields and field vectors on every space, six stencil types, operators, basis/differential basis with "
        "XYoZ/face/edge quadrature and evaluators; fixed seed), wherever both generators succeed; CMA operators, mesh and "
        "reference-element properties only through the repository's files; inter-grid and domain kernels are refused by "
        "the stub generator"]
    return chk.finish()


if __name__ == "__main__":
    core.main_wrapper(main)
