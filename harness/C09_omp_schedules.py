"""C09: OpenMP-parallelised loops compute the serial result on any schedule (E1 + clause semantics).
Real code: OMPParallelLoopTrans (and OMPLoopTrans inside OMPParallelTrans) applied without
`force` to every loop of the G-D family, then FortranWriter, which lowers the directive and
infers the private/firstprivate clauses.  The clauses are read back from the emitted text.

Semantics encoded (DESIGN Appendix B): the K unrolled iterations are mapped to threads and
serialised by a schedule (thread map tau, execution order pi with every thread's iterations
in increasing order).  Every thread owns a copy of each private variable (arbitrary initial
value) and of each firstprivate variable (pre-region value) that persists across that
thread's iterations; everything else lives in the one shared store.  For EVERY schedule of
the K iterations (16 for K=3) one z3 query over all inputs decides whether some shared
variable can end up different from the serial run.  Values of private/firstprivate scalars
after the region are excluded (the property's documented limitation)."""
import itertools
import re

import z3

from vlib.common import core, tv
from vlib.families import deps as fam
from vlib.fsym import equiv
from vlib.fsym.interp import Interp, Unsupported, LoopCtl, lname
from vlib.fsym.terms import AND, OR, NOT, ITE, simp, intval, tdiv
from fparser.two import Fortran2003 as F

PROP = "C09"
OMP = re.compile(r"^\s*!\$omp\s+(parallel\s+do|do|parallel|end\s+parallel\s+do|end\s+do|end\s+parallel)\b(.*)$", re.I)
CL = re.compile(r"\b(private|firstprivate|shared|reduction|lastprivate)\s*\(([^)]*)\)", re.I)


def schedules(K):
    """All (tau, pi): tau = thread of each iteration (canonical set partition), pi = execution order
    in which each thread's iterations appear in increasing order."""
    out = []

    def partitions(n):
        if n == 0:
            yield []
            return
        for p in partitions(n - 1):
            m = max(p) + 1 if p else 0
            for t in range(m + 1):
                yield p + [t]
    for tau in partitions(K):
        for pi in itertools.permutations(range(K)):
            ok = True
            last = {}
            for k in pi:
                t = tau[k]
                if t in last and last[t] > k:
                    ok = False
                    break
                last[t] = k
            if ok:
                out.append((tuple(tau), tuple(pi)))
    return out


def parse_clauses(text):
    out = {"private": [], "firstprivate": [], "shared": [], "reduction": [], "lastprivate": []}
    for kind, names in CL.findall(text):
        out[kind.lower()] += [n.strip().lower() for n in names.split(",") if n.strip()]
    return out


class OmpInterp(Interp):
    """Executes the loop that follows an `!$omp parallel do` / `!$omp do` directive under a given
    schedule with the data-sharing semantics of its clauses."""

    def __init__(self, *a, schedule=None, **kw):
        super().__init__(*a, **kw)
        self.schedule = schedule
        self.pending = None
        self.region_clauses = None
        self.omp_log = []
        self.comment_handler = self._omp_comment
        self.loop_hook = self._omp_loop

    @staticmethod
    def _omp_comment(self, text, frame, g):
        m = OMP.match(text)
        if not m:
            return
        kind = re.sub(r"\s+", " ", m.group(1).lower())
        if kind == "parallel":
            self.region_clauses = parse_clauses(m.group(2))
        elif kind in ("parallel do", "do"):
            cl = parse_clauses(m.group(2))
            if kind == "do" and self.region_clauses:
                for k, v in self.region_clauses.items():
                    cl[k] = list(dict.fromkeys(cl[k] + v))
            self.pending = cl
        elif kind == "end parallel":
            self.region_clauses = None

    @staticmethod
    def _omp_loop(self, s, frame, g):
        if self.pending is None:
            return False
        cl, self.pending = self.pending, None
        if cl["reduction"] or cl["lastprivate"]:
            raise Unsupported("reduction/lastprivate clause")
        content = [c for c in s.content if not isinstance(c, F.Comment)]
        head = content[0]
        body = [c for c in s.content if c is not head and not isinstance(c, F.End_Do_Stmt)]
        lc = head.items[-1] if isinstance(head.items[-1], F.Loop_Control) else head.items[1]
        if not isinstance(lc, F.Loop_Control) or lc.items[1] is None:
            raise Unsupported("omp loop control")
        var, lims = lc.items[1]
        vb = self.lookup(lname(var), frame)
        lo = self.ev_scalar(lims[0], frame, g)
        hi = self.ev_scalar(lims[1], frame, g)
        st = self.ev_scalar(lims[2], frame, g) if len(lims) > 2 else z3.IntVal(1)
        stv = intval(st)
        if stv is None or stv == 0:
            raise Unsupported("symbolic omp loop step")
        raw = (hi - lo + 1) if stv == 1 else ((lo - hi + 1) if stv == -1 else tdiv(hi - lo + st, st))
        trip = simp(z3.If(raw > 0, raw, z3.IntVal(0)))
        K = self.K
        self.bound_assumptions.append(z3.Implies(g, trip <= K))
        self.trips.append((g, trip))
        tau, pi = self.schedule
        privs = []
        for nm in dict.fromkeys(cl["private"] + cl["firstprivate"] + [lname(var)]):
            b = self.lookup(nm, frame)
            if b is None:
                raise Unsupported("clause variable " + nm)
            if b.tname == "struct":
                raise Unsupported("private structure")
            privs.append((nm, b, nm in cl["firstprivate"]))
        self.omp_log.append({"clauses": cl, "private_keys": [b.key for _, b, _ in privs]})
        # thread-private copies
        copies = {}
        for t in set(tau):
            for nm, b, first in privs:
                if first:
                    copies[(t, b.key)] = self.store[b.key]
                else:
                    self.fresh += 1
                    copies[(t, b.key)] = z3.Const(f"omp_priv_{nm}_t{t}_{self.fresh}", self.store[b.key].sort())
        ctl = LoopCtl(None)
        frame.loops.append(ctl)
        loop_id = self.sid(s)
        for k in pi:
            itg = AND(g, simp(z3.IntVal(k) < trip))
            t = tau[k]
            shared_saved = {}
            for nm, b, first in privs:
                shared_saved[b.key] = self.store[b.key]
                self.store[b.key] = copies[(t, b.key)]
            ctl.cycle = z3.BoolVal(False)
            self.write(vb.key, vb.fixed, simp(lo + k * st), itg)
            self.iters.append((loop_id, k, None))
            self.exec_block(body, frame, itg)
            self.iters.pop()
            if not z3.is_false(simp(ctl.exit)):
                raise Unsupported("exit from an omp loop")
            for nm, b, first in privs:
                copies[(t, b.key)] = self.store[b.key]
                self.store[b.key] = shared_saved[b.key]
        frame.loops.pop()
        # after the region the original private variables are undefined
        for nm, b, first in privs:
            self.fresh += 1
            self.store[b.key] = ITE(g, z3.Const(f"omp_after_{nm}_{self.fresh}", self.store[b.key].sort()),
                                    self.store[b.key])
        return True


# ---------------------------------------------------------------- gfortran replay: schedule emulation
def emulate_schedule(text, schedule, K):
    """Sequential Fortran that executes the K iterations of the omp loop in the order pi with
    thread-private copies obtained by renaming identifiers in the loop body (independent of the
    symbolic interpreter: gfortran gives the body its meaning)."""
    tau, pi = schedule
    lines = text.split("\n")
    try:
        d0 = next(i for i, l in enumerate(lines) if OMP.match(l) and
                  re.sub(r"\s+", " ", OMP.match(l).group(1).lower()) in ("parallel do", "do"))
    except StopIteration:
        return None
    cl = parse_clauses(OMP.match(lines[d0]).group(2))
    # region clauses of an enclosing `!$omp parallel`
    for l in lines[:d0]:
        m = OMP.match(l)
        if m and re.sub(r"\s+", " ", m.group(1).lower()) == "parallel":
            rc = parse_clauses(m.group(2))
            for k, v in rc.items():
                cl[k] = list(dict.fromkeys(cl[k] + v))
    h = d0 + 1
    mh = re.match(r"^(\s*)do\s+(\w+)\s*=\s*(.*)$", lines[h], re.I)
    if not mh:
        return None
    indent, var, lims = mh.group(1), mh.group(2).lower(), mh.group(3)
    # split limits at top-level commas
    parts, depth, cur = [], 0, ""
    for ch in lims:
        if ch == "(":
            depth += 1
        if ch == ")":
            depth -= 1
        if ch == "," and depth == 0:
            parts.append(cur)
            cur = ""
        else:
            cur += ch
    parts.append(cur)
    if len(parts) == 2:
        parts.append("1")
    # find matching enddo
    lvl, e = 0, None
    for i in range(h, len(lines)):
        low = lines[i].strip().lower()
        if re.match(r"^(\w+\s*:\s*)?do\b", low):
            lvl += 1
        if re.match(r"^end\s*do\b", low):
            lvl -= 1
            if lvl == 0:
                e = i
                break
    if e is None:
        return None
    body = lines[h + 1:e]
    privs = list(dict.fromkeys(cl["private"] + cl["firstprivate"] + [var]))
    # declarations of the private variables
    decls = {}
    for l in lines:
        md = re.match(r"^\s*([a-z][^:!]*?)::\s*(\w+)\s*$", l, re.I)
        if md and md.group(2).lower() in privs:
            ts = re.sub(r",\s*intent\s*\(\s*\w+\s*\)", "", md.group(1), flags=re.I).strip()
            if "dimension" in ts.lower():
                return None
            decls[md.group(2).lower()] = ts
    if any(p not in decls for p in privs):
        return None
    threads = sorted(set(tau))
    new_decl = []
    for p in privs:
        for t in threads:
            new_decl.append(f"    {decls[p]} :: {p}_th{t}")
    new_decl.append("    integer :: omp_lo, omp_hi, omp_st, omp_trip")

    def rename(l, t):
        for p in privs:
            l = re.sub(rf"(?<![\w%]){re.escape(p)}(?!\w)", f"{p}_th{t}", l, flags=re.I)
        return l
    emu = [f"{indent}omp_lo = {parts[0]}", f"{indent}omp_hi = {parts[1]}", f"{indent}omp_st = {parts[2]}",
           f"{indent}omp_trip = max(0, (omp_hi - omp_lo + omp_st) / omp_st)"]
    for p in cl["firstprivate"]:
        for t in threads:
            emu.append(f"{indent}{p}_th{t} = {p}")
    for p in [x for x in privs if x not in cl["firstprivate"]]:
        for t in threads:
            fill = "-777" if decls[p].lower().startswith("integer") else ("-777.0" if "real" in decls[p].lower() else ".true.")
            emu.append(f"{indent}{p}_th{t} = {fill}")
    for k in pi:
        t = tau[k]
        emu.append(f"{indent}if ({k} < omp_trip) then")
        emu.append(f"{indent}  {var}_th{t} = omp_lo + {k} * omp_st")
        emu += [rename(b, t) for b in body]
        emu.append(f"{indent}end if")
    # drop the directive, the loop and the end directive
    e2 = e + 1
    while e2 < len(lines) and not lines[e2].strip():
        e2 += 1
    if e2 < len(lines) and OMP.match(lines[e2]) and "end" in lines[e2].lower():
        e2 += 1
    else:
        e2 = e + 1
    out = lines[:d0] + emu + lines[e2:]
    out = [l for l in out if not OMP.match(l)]
    # insert declarations after the subroutine statement
    for i, l in enumerate(out):
        if re.match(r"^\s*subroutine\s+s\b", l, re.I):
            out[i + 1:i + 1] = new_decl
            break
    return "\n".join(out)


def decide(base_txt, new_txt, routine, K, key):
    """one query per schedule; first violating schedule is replayed"""
    outs = []
    try:
        i1 = equiv.build(base_txt, routine, K, 3)
    except Unsupported as e:
        return [{"key": key, "status": "unsupported", "why": "serial: " + str(e)}]
    total_s = 0.0
    nq = 0
    first_bad = None
    unknown = 0
    clauses = None
    for sched in schedules(K):
        try:
            i2 = OmpInterp(new_txt, K=K, E=3, schedule=sched)
            i2.run(routine)
        except Unsupported as e:
            return [{"key": key, "status": "unsupported", "why": str(e)}]
        if not i2.omp_log:
            return [{"key": key, "status": "unsupported", "why": "no omp loop directive found in the written text"}]
        clauses = i2.omp_log[0]["clauses"]
        pk = set(i2.omp_log[0]["private_keys"])
        res = equiv.compare_interps(i1, i2, obs_filter=lambda k, meta, pk=pk: k not in pk)
        total_s += res.solver_s
        nq += 1
        if res.verdict == "sat":
            first_bad = (sched, res)
            break
        if res.verdict in ("unknown",):
            unknown += 1
        if res.verdict == "vacuous":
            return [{"key": key, "status": "vacuous", "solver_s": total_s, "h": tv.text_hash(new_txt)}]
    o = {"key": key, "solver_s": total_s, "nqueries": nq, "nontrivial": True, "h": tv.text_hash(new_txt),
         "reach": "sat", "clauses": {k: v for k, v in (clauses or {}).items() if v}}
    if first_bad is None:
        o["status"] = "unknown" if unknown else "unsat"
        return [o]
    sched, res = first_bad
    var = str(res.diff).replace("in_", "")
    o["diff"] = f"{res.diff} under schedule tau={sched[0]} order={sched[1]} clauses={o['clauses']}"
    o["key"] = dict(key, params=dict(key["params"], var=var, tau=list(sched[0]), order=list(sched[1]),
                                     scalar=(res.i1.meta.get(str(res.diff), ("", 1))[1] == 0),
                                     firstprivate=sorted((clauses or {}).get("firstprivate", []))))
    emu = emulate_schedule(new_txt, sched, K)
    if emu is None:
        o["status"] = "sat_unreplayable"
        o["replay_text"] = "could not build the schedule emulation\n" + new_txt
        return [o]
    # the emulation covers exactly K iterations: replay on a witness (trip <= K holds in the model)
    ok, text = equiv.replay(res, base_txt, emu, routine)
    o["replay_text"] = (f"! schedule: thread of iteration k = {sched[0]}, execution order = {sched[1]}\n"
                        f"! clauses: {o['clauses']}\n! differing shared variable (solver): {res.diff}\n"
                        f"! ---- OpenMP text ----\n{new_txt}\n" + text)
    if ok and not shared_differs(text, o["clauses"]):
        ok = False
    o["status"] = "sat_replayed" if ok else ("sat_not_reproduced" if ok is False else "sat_unreplayable")
    return [o]


def shared_differs(replay_text, clauses):
    """compare only lines of shared observables in the two gfortran outputs"""
    m1 = replay_text.find("! ---- stdout original ----")
    m2 = replay_text.find("! ---- stdout transformed ----")
    if m1 < 0 or m2 < 0:
        return True
    o1 = replay_text[m1:m2].split("\n")[1:]
    o2 = replay_text[m2:].split("\n")[1:]
    excl = {f"v_{n}" for n in clauses.get("private", []) + clauses.get("firstprivate", [])}

    def keep(ls):
        return "\n".join(l for l in ls if l.strip() and l.split()[0] not in excl and not l.startswith("!"))
    return equiv.outputs_differ(keep(o1), keep(o2))


def work(case):
    from psyclone.psyir.nodes import Loop
    from psyclone.transformations import OMPParallelLoopTrans, OMPParallelTrans, OMPLoopTrans
    outs = []
    src = case["src"]
    try:
        base = tv.read_psyir(src)
        base_txt = tv.write_psyir(base)
    except Exception as e:  # pylint: disable=broad-except
        return [{"key": {"unit": "reader/writer", "template": case["template"], "params": case["params"]},
                 "status": "psyclone_error", "why": str(e)[:200]}]
    nloops = len(base.walk(Loop))
    for li in range(nloops):
        for unit in ("OMPParallelLoopTrans", "OMPLoopTrans+OMPParallelTrans"):
            key = {"unit": unit, "template": case["template"], "params": dict(case["params"], loop=li)}
            p = tv.read_psyir(src)
            lp = p.walk(Loop)[li]
            if unit == "OMPParallelLoopTrans":
                st, why = tv.safe_apply(lambda: OMPParallelLoopTrans().apply(lp))
            else:
                def both():
                    OMPLoopTrans().apply(lp)
                    OMPParallelTrans().apply(lp.parent.parent)
                st, why = tv.safe_apply(both)
            if st == "refused":
                outs.append({"key": key, "status": "refused", "why": str(why)[:160]})
                continue
            if st == "error":
                outs.append({"key": key, "status": "psyclone_error", "why": why})
                continue
            try:
                new_txt = tv.write_psyir(p)
            except Exception as e:  # pylint: disable=broad-except
                outs.append({"key": key, "status": "psyclone_error", "why": f"writer: {type(e).__name__}: {e}"[:300]})
                continue
            outs += decide(base_txt, new_txt, case["routine"], case["K"], key)
    return outs


def main():
    tier = core.tier()
    chk = core.Check(PROP, "model_checking",
                     "OpenMP loop transformations (no force) on every loop of the G-D family; the emitted "
                     "private/firstprivate clauses are given their OpenMP meaning and the K iterations are run under "
                     "EVERY thread map and every compatible serialisation; z3 decides per schedule, for all inputs, "
                     "equality of all shared variables with the serial run; gfortran replay of a schedule emulation")
    cases = fam.gen(tier, core.seed())
    if tier == "quick":
        cases = [c for c in cases if c["template"] != "sub" or
                 (c["params"]["f"] in ("i", "i+1", "i/2", "idx(i)", "n", "2*i") and
                  c["params"]["g"] in ("i", "i-1", "i/2", "idx(i)", "n-i", "2*i+1"))]
    K = 3
    for c in cases:
        c["K"] = K
    results = core.pmap(work, cases)
    flat = []
    for r in results:
        flat.extend([r] if isinstance(r, tuple) else r)
    tv.aggregate(chk, flat)
    nsched = len(schedules(K))
    chk.cov["queries"] = sum(o.get("nqueries", 1) for o in flat if isinstance(o, dict) and
                             o.get("status") in ("unsat", "unknown", "sat_replayed", "sat_not_reproduced",
                                                 "sat_unreplayable")) or chk.cov["queries"]
    chk.cov["loops_decided"] = chk.cov["unsat"] + chk.cov["sat_replayed"]
    chk.cov["unsat"] = chk.cov["queries"] - chk.cov["sat_replayed"] - chk.cov["inconclusive"]
    chk.cov["bounds"] = {"K_iterations": K, "schedules_per_loop": nsched, "programs_generated": len(cases)}
    chk.cov["states"] = max(1, chk.cov["loops_decided"] * nsched)
    chk.cov["transitions"] = max(1, chk.cov["queries"])
    chk.cov["traces_validated_against_impl"] = chk.cov["sat_replayed"]
    chk.cov["rule"] = ("case = (G-D program, loop, transformation); every accepted loop is decided under all "
                       f"{nsched} schedules of K={K} iterations; distinct by hash of the OpenMP text")
    from psyclone.psyir.nodes import OMPParallelDirective
    from psyclone.psyir.transformations.parallel_loop_trans import ParallelLoopTrans
    chk.cov["functions_encoded"] = core.src_hash(OMPParallelDirective.infer_sharing_attributes, ParallelLoopTrans.validate)
    chk.assumptions += [
        "K=3 iterations of the parallel loop (trip <= K assumed): every thread count 1..3 and every static/dynamic/"
        "guided assignment of 3 iterations is one of the enumerated thread maps; orders = all serialisations in which "
        "each thread runs its own iterations in increasing order",
        "iterations are atomic (statement-level interleavings of two iterations are not explored); races that only "
        "show under finer interleavings are C08's conflict query",
        "values of private/firstprivate variables after the region are excluded (documented limitation)",
        "schedule(auto)/default(shared) as emitted; reduction/lastprivate clauses are unsupported (skipped, counted)"]
    return chk.finish()


if __name__ == "__main__":
    core.main_wrapper(main)
