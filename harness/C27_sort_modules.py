"""C27: ModuleManager.sort_modules (E2 pysx).
The function's AST is read from /repo at run time and executed by the merged
symbolic interpreter with the dependency map as N*(N+1) Boolean solver variables
(N known modules + two unknown names) and `ignores()` arbitrary.  One query per
obligation decides it for ALL dependency maps over N modules."""
import itertools
import time

import z3

from vlib.common import core
from vlib.pysx.core import Exec, SDict, SSet, SSeq, Choice, alts_of, PyUnsupported
from vlib.fsym.terms import AND, OR, NOT

PROP = "C27"
UNKS = ["unk", "unk2"]     # names that are not keys of the map (modules outside the given set)


def encode(N, fn):
    keys = [f"k{i}" for i in range(N)]
    uni = keys + UNKS
    bits = {(i, u): z3.Bool(f"dep_{i}_{u}") for i in range(N) for u in uni}
    deps = SDict(keys, {k: z3.BoolVal(True) for k in keys},
                 {k: SSet(uni, {u: bits[(i, u)] for u in uni}) for i, k in enumerate(keys)})
    ign = SSet(uni, name="ign")

    def ignores(ex, obj, args, g):
        return ign
    ex = Exec(fn, while_bound=N, builtins={("method", "ignores"): ignores, "__universe__": uni})
    ex.env["self"] = "SELF"
    res = ex.call(["SELF", deps])
    # history: the caller sorts the SAME map object a second time (whatever the first call did to it is kept)
    ex2 = Exec(fn, while_bound=N, builtins={("method", "ignores"): ignores, "__universe__": uni})
    ex2.env["self"] = "SELF"
    res2 = ex2.call(["SELF", deps])
    return ex, res, keys, bits, ex2, res2


def obligations(ex, res, keys, bits, tag=""):
    """-> list of (name, assumptions, claim)."""
    obs = _obligations(ex, res, keys, bits)
    return [(nm + tag, a, c) for nm, a, c in obs]


def _obligations(ex, res, keys, bits):
    N = len(keys)
    obs = []
    noexc = NOT(OR(*ex.exc.values())) if ex.exc else z3.BoolVal(True)
    obs.append(("no_exception", [], noexc))
    for nm, f in ex.obligations:
        obs.append((nm, [], f))
    if not isinstance(res, SSeq):
        raise PyUnsupported("result is not a list")
    entries = res.entries

    def holds(t, k):
        g, v = entries[t]
        return AND(g, OR(*[c for c, x in alts_of(v) if x == k]))
    once = []
    for k in keys:
        cnt = z3.Sum([z3.If(holds(t, k), 1, 0) for t in range(len(entries))])
        once.append(cnt == 1)
    obs.append(("permutation", [], AND(res.length() == N, *once, ex.ret)))
    # acyclic: a rank function exists on the known edges
    rank = [z3.Int(f"rank_{i}") for i in range(N)]
    acyc = [z3.Implies(bits[(i, keys[j])], rank[j] < rank[i]) for i in range(N) for j in range(N)]
    bad = []
    for i, j in itertools.product(range(N), range(N)):
        if i == j:
            continue
        # module i depends on j but j does not come strictly earlier
        for ti in range(len(entries)):
            for tj in range(ti, len(entries)):
                bad.append(AND(bits[(i, keys[j])], holds(ti, keys[i]), holds(tj, keys[j])))
    obs.append(("topological_if_acyclic", acyc, NOT(OR(*bad))))
    return obs


def concrete_check(deps, result):
    """The property, stated directly on a concrete map and the real function's result."""
    keys = list(deps)
    if sorted(result) != sorted(keys):
        return "not a permutation"
    known = {k: {d for d in v if d in deps} for k, v in deps.items()}
    # acyclic?
    todo = dict(known)
    while True:
        free = [k for k, v in todo.items() if not (v & set(todo))]
        if not free:
            break
        for k in free:
            del todo[k]
    if todo:
        return None      # cyclic: only completeness required
    pos = {k: i for i, k in enumerate(result)}
    for k, v in known.items():
        for d in v:
            if pos[d] >= pos[k]:
                return f"{k} before its dependency {d}"
    return None


def replay(model, N, bits, keys, second=False):
    from psyclone.parse import ModuleManager
    deps = {}
    for i, k in enumerate(keys):
        deps[k] = {u for u in keys + UNKS if z3.is_true(model.eval(bits[(i, u)], model_completion=True))}
    mm = ModuleManager.get()
    import io
    import contextlib
    buf = io.StringIO()
    try:
        with contextlib.redirect_stdout(buf):
            arg = {k: set(v) for k, v in deps.items()}
            result = mm.sort_modules(arg)
            if second:
                result = mm.sort_modules(arg)       # the same map object, sorted again
    except Exception as e:  # pylint: disable=broad-except
        return deps, None, f"exception {type(e).__name__}: {e}"
    return deps, result, concrete_check(deps, result)


def main():
    from psyclone.parse import ModuleManager
    tier = core.tier()
    Ns = [1, 2, 3, 4, 5] if tier == "quick" else [1, 2, 3, 4, 5, 6, 7]
    chk = core.Check(PROP, "model_checking",
                     "pysx: the real sort_modules AST executed with a fully symbolic dependency map; "
                     "per N one query per obligation (no exception, unwinding, permutation, "
                     "topological order if acyclic) covers all 2^(N*(N+1)) maps")
    fn = ModuleManager.sort_modules
    states = 0
    for N in Ns:
        t0 = time.time()
        try:
            ex, res, keys, bits, ex2, res2 = encode(N, fn)
            obs = obligations(ex, res, keys, bits)
            first_ok = NOT(OR(*ex.exc.values())) if ex.exc else z3.BoolVal(True)
            obs += [(nm, a + [first_ok], c) for nm, a, c in obligations(ex2, res2, keys, bits, "@second_sort_of_the_same_map")]
        except PyUnsupported as e:
            chk.harness_error(f"pysx cannot follow sort_modules any more: {e}")
            break
        enc_s = time.time() - t0
        states += 2 ** (N * (N + 1))
        for name, assume, claim in obs:
            s = z3.Solver()
            s.set("timeout", 600000 if tier == "thorough" else 120000)
            for a in assume:
                s.add(a)
            # reachability twin
            s.push()
            t1 = time.time()
            twin = str(s.check())
            s.pop()
            s.add(z3.Not(claim))
            r = str(s.check())
            dt = time.time() - t1
            chk.count("queries")
            chk.cov["solver_s"] += dt
            chk.evaluations += 1
            chk.nontrivial.add((N, name))
            if twin == "sat":
                chk.count("reachability_twins_ok")
            chk.sample({"N": N, "obligation": name, "verdict": r, "solver_s": round(dt, 3),
                        "encode_s": round(enc_s, 3)}, limit=40)
            if r == "unsat":
                chk.count("unsat")
            elif r == "unknown":
                chk.count("inconclusive")
            else:
                deps, result, problem = replay(s.model(), N, bits, keys, second="@second_sort" in name)
                if problem:
                    chk.count("sat_replayed")
                    chk.report({"unit": "ModuleManager.sort_modules", "template": name,
                                "params": {"N": N, "deps": {k: sorted(v) for k, v in deps.items()}}},
                               f"sort_modules({deps}) -> {result}: {problem} (obligation {name})",
                               f"deps = {deps}\nresult = {result}\nproblem = {problem}\n"
                               "replay: ModuleManager.get().sort_modules(deps)" +
                               (" called twice on the same dict object; the second result is shown\n"
                                if "@second_sort" in name else "\n"))
                else:
                    chk.count("sat_not_reproduced")
                    chk.harness_error(f"model for {name} N={N} did not reproduce: {deps} -> {result}")
    chk.cov["states"] = states
    chk.cov["transitions"] = chk.cov["queries"]
    chk.cov["traces_validated_against_impl"] = self_test(chk)
    chk.cov["exhaustive"] = True
    chk.cov["bounds"] = {"N": Ns, "unknown_names": len(UNKS), "while_unwind": "N (unwinding obligation discharged)"}
    chk.cov["functions_encoded"] = core.src_hash(fn)
    chk.cov["rule"] = "one obligation per (N, kind)"
    chk.assumptions += ["dict iteration = insertion order, key order fixed (all orders covered by relabelling)",
                        "set iteration order irrelevant to the result (universe order used)",
                        "ignores() returns an arbitrary set; print is a no-op",
                        "N <= %d modules; larger maps outside the claim" % Ns[-1]]
    return chk.finish()


def self_test(chk):
    """Translator validation: random concrete maps through the real function and through
    the encoding with the same bits fixed; results must agree."""
    import random
    from psyclone.parse import ModuleManager
    rnd = random.Random(core.seed())
    fn = ModuleManager.sort_modules
    ok = 0
    import io
    import contextlib
    for _ in range(25):
        N = rnd.randint(1, 4)
        ex, res, keys, bits = encode(N, fn)[:4]
        deps = {k: {u for u in keys + UNKS if rnd.random() < 0.3} for k in keys}
        s = z3.Solver()
        for i, k in enumerate(keys):
            for u in keys + UNKS:
                s.add(bits[(i, u)] == (u in deps[k]))
        assert str(s.check()) == "sat"
        m = s.model()
        sym = []
        for g, v in res.entries:
            if z3.is_true(m.eval(g, model_completion=True)):
                for c, x in alts_of(v):
                    if z3.is_true(m.eval(c, model_completion=True)):
                        sym.append(x)
        with contextlib.redirect_stdout(io.StringIO()):
            real = ModuleManager.get().sort_modules({k: set(v) for k, v in deps.items()})
        if sym == real:
            ok += 1
        else:
            chk.harness_error(f"encoder self-test: {deps}: encoding {sym} vs real {real}")
    return ok


if __name__ == "__main__":
    core.main_wrapper(main)
