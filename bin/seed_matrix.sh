#!/bin/sh
# bin/seed_matrix.sh [seed-dir-glob...]: run each seeded change against the check(s) of its property; print one line each.
cd /verif
for d in ${@:-seeded/*}; do
  P=$(python3 -c "import json;print(json.load(open('$d/meta.json'))['property'])")
  [ -f harness/${P}_*.py ] || { echo "$(basename $d) $P no-check"; continue; }
  git -C /repo apply --check "$(pwd)/$d/patch.diff" 2>/dev/null || { echo "$(basename $d) $P PATCH-DOES-NOT-APPLY"; continue; }
  OUT=$(bin/try_seed $d $P quick 2>&1)
  RC=$(echo "$OUT" | grep -o "exit=[0-9]*")
  NV=$(echo "$OUT" | grep -c "^VIOLATION")
  echo "$(basename $d) $P $RC violations>=$NV"
done
