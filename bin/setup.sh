#!/bin/sh
# Build the overlay venv (/verif/.venv) on top of /venv, offline.
set -e
V="$(cd "$(dirname "$0")/.." && pwd)/.venv"
if [ -x "$V/bin/python" ] && "$V/bin/python" -c "import z3, crosshair, psyclone, fparser" 2>/dev/null; then
    exit 0
fi
rm -rf "$V"
/venv/bin/python -m venv "$V"
SP=$("$V/bin/python" -c "import sysconfig; print(sysconfig.get_paths()['purelib'])")
printf "import site; site.addsitedir('/venv/lib/python3.12/site-packages')\n" > "$SP/_verif_overlay.pth"
PIP_NO_INDEX=1 "$V/bin/pip" install -q --no-index --find-links /opt/veriftools/wheels crosshair-tool z3-solver >/dev/null
"$V/bin/python" -c "import z3, crosshair, psyclone, fparser; print('overlay ok', z3.get_version_string())"
