#!/bin/sh
# scratch/confirm_seed.sh <worktree> <seed dir in /verif/seeded>: independent confirmation of a seeded change
WT="$1"; SD="$2"
cd "$WT" || exit 9
export PYTHONPATH="$WT/src" PSYCLONE_CONFIG="$WT/config/psyclone.cfg"
git checkout -q -- src 2>/dev/null
git apply "$SD/patch.diff" || { echo "patch does not apply"; exit 9; }
mkdir -p "$WT/SEED"; cp "$SD/demo.py" "$WT/SEED/demo.py"
/venv/bin/python "$WT/SEED/demo.py" > /tmp/confirm_$$.with 2>&1; RW=$?
git apply -R "$SD/patch.diff"
/venv/bin/python "$WT/SEED/demo.py" > /tmp/confirm_$$.without 2>&1; RWO=$?
git apply "$SD/patch.diff"
if [ -n "$SUITE_RESULT" ]; then echo "$SUITE_RESULT" > /tmp/confirm_$$.suite; else /venv/bin/python -m pytest -q -p no:cacheprovider -n 8 src/psyclone/tests > /tmp/confirm_$$.suite 2>&1; fi
SUITE=$(tail -1 /tmp/confirm_$$.suite)
FAILED=$(grep -E "^FAILED" /tmp/confirm_$$.suite | tr '\n' ' ')
echo "demo_with_patch_exit=$RW demo_without_patch_exit=$RWO suite: $SUITE failed: $FAILED"
/venv/bin/python - "$SD/meta.json" "$RW" "$RWO" "$SUITE" "$FAILED" <<'PY'
import json, sys
p, rw, rwo, suite, failed = sys.argv[1:6]
m = json.load(open(p))
m["confirmed_by_verifier"] = {"demo_exit_with_patch": int(rw), "demo_exit_without_patch": int(rwo),
                              "full_suite_with_patch": suite.strip(), "failed_tests": failed.strip(),
                              "command": "scratch/confirm_seed.sh (demo with/without patch, then pytest -n 8 src/psyclone/tests in a scratch worktree)"}
json.dump(m, open(p, "w"), indent=1)
PY
rm -f /tmp/confirm_$$.*
