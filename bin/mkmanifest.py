#!/usr/bin/env python3
"""Regenerates /verif/MANIFEST.json from the tables below (run after editing)."""
import json
import os

HERE = os.path.dirname(os.path.dirname(os.path.abspath(__file__)))

E1 = "fsym (bounded symbolic execution of the emitted Fortran into z3) + gfortran replay"
CHECKS = {
    "C01": dict(
        level="translation_validation", engine="fsym",
        technique="SMT translation validation: z3 decides equivalence of the original Fortran (native SELECT CASE/WHERE/array semantics) vs the text written back by FortranWriter (all inputs, extents and trip counts <= bound)",
        text="Real FortranReader+FortranWriter (no transformation) on every program of a generated front-end construct family (SELECT CASE with values/ranges/default/logical selectors, WHERE/ELSEWHERE incl. non-elemental right-hand sides, array notation and reductions with DIM/MASK, loops with negative/zero-trip/stepped bounds, DO WHILE, EXIT/CYCLE/RETURN, named and optional arguments, functions, grouping-sensitive expressions, code blocks). Original and written text are both executed symbolically by an interpreter written from the standard (not via PSyclone's lowering) and one z3 query per program decides equality of every observable for all inputs; a second query decides that the written code stays in bounds / does not divide by zero whenever the original does not. Reader/writer internal errors and output that gfortran rejects are reported as violations (decided by running, not by the solver). Counterexamples are replayed through gfortran.",
        note="Bounds: extents and trip counts <= 3 (quick) / 4 (thorough); exact integer/real arithmetic; programs = enumerated G-F family (about 150), inputs = solver. Trusted: fparser2 parser, z3, fsym, gfortran for replay.",
        ref="5/C01"),
    "C02": dict(
        level="translation_validation", engine="fsym",
        technique="SMT equivalence of the PSyIR tree (structure = grouping) and the fparser2 parse of the written text under a grouping-sensitive semantics (all operators uninterpreted; IEEE FP(5,11) stage for value witnesses); read-back comparison as replay",
        text="Real FortranWriter on PSyIR expression trees built with the node API: every tree of depth <= 2 over the unary/binary operators (numeric, relational, logical) with operands in every position, the same trees with leaves replaced by literals of every kind/precision, negative literals, array and structure accesses, 'twin' trees with structurally identical operands, and sampled depth-3/4 trees with intrinsic calls. The tree is evaluated structurally and the written text is parsed by fparser2 and evaluated under the same semantics; z3 decides, for all leaf values and all interpretations of the operators, whether the two can differ (stage 1: operators uninterpreted - the most general semantics; stage 2: IEEE FP(5,11) arithmetic to obtain concrete witness values). Every sat answer is confirmed by reading the text back with the real FortranReader and comparing trees structurally. Text that fparser2 rejects violates the standard-conformance clause.",
        note="Bounds: exhaustive to depth 2 over 2 numeric + 2 logical leaves (about 15k trees), decorated/sampled trees to depth 4 (VERIF_SEED); REM has no Fortran spelling (refused). Trusted: fparser2's expression grammar as the definition of Fortran grouping, z3.",
        ref="5/C02"),
    "C05": dict(
        level="translation_validation", engine="fsym",
        technique="SMT translation validation: z3 decides equivalence of symbolically executed original vs transformed Fortran (all inputs, trip<=K)",
        text="Real validate+apply of the eight generic loop transformations (no force) on every eligible target of a generated loop-nest family; original and transformed text are executed symbolically and one z3 query per pair decides equality of every observable for all inputs, bounds and trip counts <= K. Counterexamples are replayed through gfortran before being reported.",
        note="Bounds: trip<=K (3/4 single loops, 2/3 nests), exact integer/real arithmetic, programs = enumerated G-L family (inputs are solver-quantified, programs are enumerated). Trusted: fparser2, z3, fsym interpreter, gfortran for replay.",
        ref="5/C05"),
    "C06": dict(
        level="translation_validation", engine="fsym",
        technique="SMT translation validation: z3 decides equivalence of the array statement under native Fortran array semantics vs the lowered loops (all inputs, extents 0..E symbolic)",
        text="Real validate+apply of ArrayAssignment2Loops, Reference2ArrayRange, ArrayAccess2Loop, AllArrayAccess2Loop, Abs/Sign/Min/Max/DotProduct/Matmul 2Code and Sum/Product/Minval/Maxval 2Loop on every matching node of a generated array-notation family (overlapping/shifted/strided sections, differing declared lower bounds and dimension positions, masks, DIM, empty extents). The original statement is executed with native Fortran semantics (right-hand side and mask evaluated before any store) and the lowered code as loops; one z3 query per pair decides equality of every observable for all inputs and all extents <= E. Counterexamples are replayed through gfortran (bounds checking on).",
        note="Bounds: extents and trip counts <= 3 (quick) / 4 (thorough), exact reals, HUGE as a symbolic bound; non-linear products are retried under an uninterpreted-function abstraction (sound for unsat). Programs = enumerated G-A family; inputs = solver. Trusted: fparser2, z3, fsym, gfortran for replay.",
        ref="5/C06"),
    "C07": dict(
        level="translation_validation", engine="fsym",
        technique="SMT translation validation: z3 decides equivalence of the caller executed with real call semantics vs the inlined text (all inputs incl. index variables of actual arguments), plus an in-bounds obligation on the inlined code",
        text="Real InlineTrans validate+apply (no force) on every call site of a generated caller/callee family (element+index actuals, sections and whole arrays against assumed-shape / shifted / explicit-shape formals, expression and literal actuals, name clashes, optional and named arguments, module variables, calls in loops). The original is executed symbolically with argument association fixed at the call; the inlined routine as straight code. One z3 query per call site decides equality of all caller observables for all inputs and extents <= E, and a second query decides that the inlined code stays inside the declared bounds whenever the original does. Counterexamples are replayed through gfortran with bounds checking.",
        note="Bounds: extents and trip counts <= 3 (quick) / 4 (thorough); exact arithmetic; callers/callees = enumerated G-I family; inputs = solver. Assumes the original conforms to Fortran's argument-aliasing rules. Trusted: fparser2, z3, fsym, gfortran for replay.",
        ref="5/C07"),
    "C08": dict(
        level="other", engine="fsym",
        technique="SMT oracle on analysis verdicts: for every loop the real DependencyTools reports parallelisable, z3 searches the symbolically executed K-iteration event trace for two iterations touching one location with a write (scalar exemption = two further queries)",
        text="DependencyTools().can_loop_be_parallelised is called on every loop of a generated dependence family (subscripts i, i+-c, c*i, i/c, MOD, index arrays, loop-invariant and reversed subscripts, structure members, two writes to one array, nests, scalars written conditionally/unconditionally, stepped and negative loops, variables named like the analysis' internal d_<var> symbols), each call under an alarm (termination clause). For every True verdict the loop is unrolled K times from a symbolic pre-state by the fsym interpreter with its memory-event trace on; z3 decides whether two distinct iterations can touch the same location with at least one write, for all inputs; scalars are exempt only if two further queries show that every iteration writes them unconditionally before any read. Witnesses are replayed by re-executing with the witness inputs and a set-based Bernstein check.",
        note="Bounds: K=3 (quick) / 4 (thorough) consecutive iterations of the analysed loop; programs = enumerated G-D family (about 350); inputs, index-array contents, bounds = solver. Only soundness of True verdicts is asserted. Trusted: fparser2, z3, fsym.",
        ref="5/C08"),
    "C09": dict(
        level="model_checking", engine="fsym",
        technique="SMT equivalence of the serial loop and the OpenMP loop executed under EVERY thread map and serialisation of K iterations with the emitted private/firstprivate clause semantics (one z3 query per schedule, all inputs symbolic)",
        text="Real OMPParallelLoopTrans and OMPLoopTrans+OMPParallelTrans (no force) on every loop of the dependence family; FortranWriter lowers the directives and infers the data-sharing clauses, which are read back from the emitted text. The loop is executed symbolically under each of the 16 schedules of K=3 iterations (all set partitions of the iterations into threads x all serialisations that keep each thread's iterations in order): private variables are per-thread copies with arbitrary initial value, firstprivate copies start from the pre-region value, both persist across the iterations of a thread, everything else is one shared store. For each schedule z3 decides, for all inputs, that every shared variable ends equal to the serial run. The first violating schedule is replayed by emitting a sequential Fortran emulation of that schedule (identifier renaming in the real loop body) and running it and the serial program through gfortran.",
        note="Bounds: K=3 iterations (trip <= 3 assumed; covers thread counts 1..3 and any static/dynamic/guided assignment of 3 iterations), iteration-atomic interleavings only; values of private/firstprivate scalars after the region excluded; reduction/lastprivate clauses unsupported (skipped). Trusted: fparser2, z3, fsym, the clause semantics of DESIGN Appendix B, gfortran for replay.",
        ref="5/C09"),
    "C11": dict(
        level="other", engine="fsym",
        technique="SMT satisfiability of the path guard of every memory event of the symbolically executed statement decides the may-read / may-write sets, which the access types reported by the real VariablesAccessInfo must cover",
        text="VariablesAccessInfo is computed by the real code for every statement of a generated statement family (assignments with nested subscripts and index arrays, structure and nested structure-array members, sections, WHERE, loops with expression bounds, branches, SELECT CASE, DO WHILE, calls with intent(in/out/inout) dummies, PURE subroutines, array-valued actual arguments, intrinsic subroutines, function references) and for every statement of the region family. The statement is executed symbolically from an arbitrary state with callees in the same file executed; z3 decides for each memory event whether its path guard is satisfiable. Every variable (or structure component) with a possible read must be reported with a read access type and every one with a possible write with a write type; in an assignment whose target is also read the reported read must precede the write.",
        note="Bounds: loops unrolled to K=3/4, extents <= 3/4; intrinsic subroutines follow the standard's intents; module variables touched only inside a callee are not demanded; shape inquiries are not reads. Trusted: fparser2, z3, fsym. Includes sections whose bounds equal the declared bounds.",
        ref="5/C11"),
    "C12": dict(
        level="other", engine="fsym",
        technique="SMT queries over the symbolically executed region's memory-event trace: satisfiability of 'this read sees the incoming value' (upward-exposed read) and 'this write happens' decides the required input/output sets, compared with the real get_in_out_parameters lists",
        text="CallTreeUtils().get_in_out_parameters is called on every consecutive statement range of a generated region family (partial and conditional writes, write-then-read of different elements, calls to routines in the same file, sections, index arrays, EXIT/CYCLE, DO WHILE). The routine is executed symbolically with the event trace on; for every read event of the region z3 decides whether its guard can hold while no earlier write of the region covers the same element (then the variable must be a reported input), and for every write event whether its guard can hold (then it must be a reported output). A missing variable is confirmed against the ProvideVariable calls emitted by the real ExtractTrans for the same statements.",
        note="Bounds: loops unrolled to K=3/4, extents <= 3/4, symbolic pre-state; routines called from the region are executed. The non-local path (collect_non_local_symbols=True, as used by LFRicExtractTrans) is exercised on invokes of 2-3 synthesised kernels that read/write the variables of one shared module directly and through its routines; the oracle executes a driver that calls the kernel bodies in invoke order (K cells each). Trusted: fparser2, z3, fsym.",
        ref="5/C12"),
    "C13": dict(
        level="translation_validation", engine="fsym",
        technique="SMT translation validation with a host/device store model: z3 decides equality of all host arrays between the host run and a device run that performs exactly the emitted copyin/copyout/copy movements, for all inputs and all (arbitrary) initial device contents",
        text="Real ACCKernelsTrans (where accepted) and ACCDataTrans on every consecutive statement range of a generated region family (partially/conditionally written arrays, write-then-read of different elements, calls, array sections, index arrays, early exits); FortranWriter computes the data-movement clauses, which are read back from the emitted text. The routine is executed symbolically twice: on the host store, and with a device store in which arrays not copied in start as fresh solver variables and only copyout/copy arrays are copied back. One z3 query per region decides equality of every host array; a further trace query classifies a violation as 'undefined device data read' or 'undefined device data copied back'. Counterexamples are replayed by writing the same store model out in Fortran and running original and emulation through gfortran.",
        note="Bounds: extents and trip counts <= 3/4; arrays only (scalars outside the claim, as the property says); statements between data/end data all run on the device store; programs = enumerated G-R family x all statement ranges. Trusted: fparser2, z3, fsym, the store model (DESIGN Appendix B), gfortran for replay.",
        ref="5/C13"),
    "C16": dict(
        level="model_checking", engine="crosshair",
        technique="CrossHair symbolic execution (z3) of the real SymbolTable methods: inductive step with symbolic selectors for the names in the outer scope, nested scope and other table and for the operation's arguments",
        text="For each symbol-table operation (new_symbol, next_available_name with shadowing/other_table, add, rename_symbol, lookup, merge, remove, find_or_create_tag) and each fixed part of the pre-state, CrossHair executes the real method with integer selectors as solver variables that choose the symbols' names from a pool with case variants and _N-suffixed names (a/A, a_1/A_1, work/Work_1, ...). It must confirm over all paths that afterwards every table is well-formed (normalised names unique, keys consistent, tags pointing into the table), that the operation's contract holds (a generated name clashes with nothing visible nor with the other table, lookup returns the innermost symbol, merge adds each symbol exactly once) and that a raising operation changed nothing. Counterexamples are re-run in CPython.",
        note="One step from enumerated well-formed pre-states (<= 2 symbols per table, one tagged); histories are covered only through the inductive invariant. Quick: 16 conditions (one round on 16 cores, about 600 paths each); thorough: 56 conditions. 'Not confirmed' counts as inconclusive. This is the weakest claim: CrossHair realises the selectors when they index the name pool, so a confirmation is an exhaustive path enumeration driven by the solver. Trusted: CrossHair, z3. Merges are tried into the outer and into the nested scope (a renamed symbol must avoid the names of the enclosing scope).",
        ref="5/C16"),
    "C17": dict(
        level="other", engine="verdict-oracle",
        technique="SMT oracle on analysis verdicts: each positive verdict of the real SymbolicMaths/distance code is refuted or confirmed by z3 over all integer valuations",
        text="SymbolicMaths.equal/never_equal/expand and DependencyTools._get_dependency_distance are run on generated integer expression pairs; every positive verdict is the hypothesis of a z3 query over all integers with Fortran truncating division/MOD/MIN/MAX and arrays as uninterpreted maps. Witnesses are replayed with an independent integer evaluator.",
        note="Expressions are enumerated/sampled up to depth 2 (quick) / 3 (thorough); valuations are solver-quantified (unbounded; nonlinear 'unknown' answers are re-asked on [-8,8]). Only soundness of positive verdicts is asserted. Expressions include an array component of an element of a rank-2 array of structures (c(i,j)%w(k)).",
        ref="5/C17"),
    "C27": dict(
        level="model_checking", engine="pysx",
        technique="symbolic execution of the real Python function (AST -> z3, merged paths), one SMT query per obligation over all dependency maps of N modules",
        text="ModuleManager.sort_modules is read from /repo and executed by the pysx interpreter with the dependency map as N*(N+1) Boolean solver variables and ignores() arbitrary; z3 decides for ALL maps over N<=5 (thorough 7) modules plus one unknown name: no exception, the while loop needs at most N iterations (unwinding obligation), the result is a permutation of the keys, and if a rank function exists on the known edges every module follows its dependencies. Counterexamples are replayed on the real function.",
        note="Bounds: N<=5/7 modules, one unknown name. dict order = insertion order (all orders by relabelling); set iteration order taken as universe order. Translator validated each run against the real function on random maps. Trusted: pysx, z3.",
        ref="5/C27"),
    "C14": dict(
        level="model_checking", engine="crosshair",
        technique="CrossHair symbolic execution (z3) of the real ChildrenList/Node methods: inductive step with symbolic index and item selectors per (pre-state, operation)",
        text="For each enumerated well-formed parent pre-state and each public child-list operation, CrossHair executes the real method with the index (range -7..7) and item selectors as solver variables and must confirm over all paths that the local invariant holds afterwards and that a raising operation changed nothing. One inductive step from any valid local state covers edit histories of any length because the invariant is local to a (parent, children) pair. Counterexamples are re-run in CPython.",
        note="Pre-states: 7 parent kinds quick / 20 thorough, built with the real constructors; 10 candidate item kinds; index -7..7. 'Not confirmed' counts as inconclusive. Trusted: CrossHair, z3. The extend operation is checked as three separate conditions (two fresh items, the same item twice, a second item still attached elsewhere).",
        ref="5/C14"),
    "C18": dict(
        level="model_checking", engine="pysx",
        technique="symbolic execution of the real Python functions (AST -> z3, merged paths) on a symbolic character array and a symbolic limit; one SMT query per obligation over all lines within the bounds",
        text="FortLineLength.process, _get_line_type and find_break_point are read from /repo at run time and executed by the pysx interpreter with string views over a z3 array (slicing, lstrip, rfind, the four anchored regexes, dict lookups by symbolic line type, try/except, the continuation while-loop) on ONE symbolic physical line of symbolic length and a symbolic limit. z3 decides for all such lines: no exception escapes; every emitted line is at most limit long; the emitted views tile the input text in order (leading blanks dropped only on the strip-and-retry path); a code line is never broken inside its trailing comment. Every witness is replayed through the real process() in CPython with an independent concrete checker.",
        note="Bounds: limit 40..46 and 128..132 with line length <= 130 / 280 and <= 2 / 1 continuation-loop iterations (quick); 40..132 in three ranges, length <= 420, <= 3 iterations (thorough); alphabet TAB + printable ASCII; the loop unwinding is an assumption. Trusted: pysx string model (validated by replay), z3.",
        ref="5/C18"),
    "C19": dict(
        level="translation_validation", engine="fsym",
        technique="SMT (non-linear real arithmetic) on the symbolically executed TL kernel and PSyAD-generated adjoint: z3 decides <Ax,y> = <x,A*y> for all active x, y and all passive data, per array extent; coefficient-wise fallback after a solver-checked linearity lemma",
        text="Real psyclone.psyad.tl2ad.generate_adjoint_str on a generated family of tangent-linear kernels (every loop header - unit/strided/negative/literal/zero-trip - crossed with every assignment form - increments, overwrites, negations, divisions by passive data, scalar accumulations, active temporaries, offsets - plus straight-line, branch-on-passive-data and multi-loop kernels). The TL routine and the adjoint are executed symbolically over exact reals with the active variables x (TL) and y (adjoint) and all passive coefficients as solver variables; for each extent n = 0..E (or the literal extent) the difference of the two inner products is normalised to a sum of monomials and z3 decides that it is zero for all values; it also decides that passive data is untouched and that the adjoint stays inside the declared bounds. Witnesses are replayed by a generated driver that evaluates both inner products with gfortran (bounds checking on).",
        note="Bounds: extents n = 0..4 (quick) / 0..5 (thorough) enumerated, literal extent 10; all values symbolic; exact arithmetic (rounding outside the claim). The PSyAD-generated test harness is not validated. Trusted: fparser2, z3, fsym, gfortran for replay. Includes array-section statements (mixed spellings of one section, an imported passive coefficient, an assumed-shape view of the kernel for PSyAD).",
        ref="5/C19"),
    "C20": dict(
        level="translation_validation", engine="fsym",
        technique="SMT translation validation of the generated LFRic PSy layer (executed symbolically with an LFRic stub contract) against the user guide's formula executed on the documented DoF range: z3 decides agreement of every documented argument for all field/scalar values and all DoF counts <= K",
        text="The real LFRic generator is run on an algorithm file synthesised for every entry of BUILTIN_MAP under distributed memory on/off x annexed-DoF computation on/off x OpenMP variants, and on multi-built-in invokes over fields of three differently sized function spaces with LFRicLoopFuseTrans applied forwards and backwards. The oracle is read at run time from doc/user_guide/dynamo0p3.rst (signature and array-syntax formula of each built-in); the documented range is all DoFs (no DM), owned DoFs (DM, always for reductions) or owned+annexed (DM with COMPUTE_ANNEXED_DOFS). The generated invoke and the documented statements are executed symbolically over the same symbolic field data, scalars and DoF counts (0 <= owned <= annexed <= undf <= K); z3 decides that every field agrees at every DoF (updated inside the range, untouched outside) and every reduction result agrees. Witnesses are replayed by concrete re-execution and a plain-Python evaluation of the documented formula.",
        note="Bounds: undf <= 3 (quick) / 4 (thorough) per function space (DoF loops unrolled), exact arithmetic. LFRic infrastructure is a stub contract (vlib/fsym/lfric.py): proxies alias fields, one data array per field, get_sum is the identity (one rank), halo calls do not touch data. setval_random and reprod reductions are outside the claim. Trusted: fparser2, z3, fsym, the stub contract, the doc parser. Reproducible OpenMP reductions (thread-local partial sums) are executed from one thread's point of view (thread number and team size symbolic).",
        ref="5/C20"),
    "C21": dict(
        level="translation_validation", engine="fsym",
        technique="the generated kernel stub and the generated PSy layer are executed as ONE program by fsym, so the real call is associated with the real stub interface: count, intrinsic type and rank of every argument are checked by the association itself, and z3 decides for all mesh / function-space sizes admitted by the LFRic infrastructure contract that every explicit-shape dummy of the stub fits inside the actual array it receives",
        text="For every algorithm file of the repository's LFRic test set (304 files, 182 invokes for which both generators succeed) and for 60 (quick) / 1200 (thorough) randomly drawn kernel metadata (scalars of three types, fields and field vectors on every function space, six stencil types with literal and run-time extents, operators, basis and differential basis functions with XYoZ / face / edge quadrature and evaluators, one or two shapes), gen_kernel_stub.generate and the LFRic PSy generator are run on the same metadata, with distributed memory off (and on in thorough). The stub's dummy bounds (dimension(undf_w1), (ndf_w2), (3,ndf,np_xy,np_z), (ndf,max_branch,4) ...) are evaluated from the integer actuals at their positions, so a swapped pair of integers, a stencil size in the wrong slot or an evaluator array for the wrong space makes some dummy larger than its actual for some sizes; z3 returns such sizes and the check replays them by a concrete run of both texts.",
        note="Unbounded in mesh and function-space sizes (symbolic; loops summarised). Kind parameters and intents are not compared (fsym has one real and one integer type; stubs have no body). The infrastructure contract (extents of dofmaps, nodes, boundary dofs, operator stencils, CMA matrices, quadrature weights, stencil maps, reference-element arrays, basis dimensions per space, one function space per named space within a kernel call) is listed in the evidence assumptions. CMA operators, mesh and reference-element properties are covered only through the repository's files; inter-grid and domain kernels are refused by the stub generator. Trusted: fparser2, z3, fsym, the contract.",
        ref="5/C21"),
    "C22": dict(
        level="model_checking", engine="fsym",
        technique="abstract execution of the generated distributed-memory PSy layer with a symbolic halo state per field (recorded clean depth, really valid depth) and summarised loops; z3 decides every read obligation and every observation of the recorded state for all initial states, stencil extents and mesh halo depths",
        text="Invokes of 1-3 synthesised kernels (GH_INC / GH_READINC / GH_WRITE / GH_READWRITE writers on continuous, discontinuous and any_space fields; readers with and without cross/region/x1d stencils of literal or run-time extent) and built-ins are generated with distributed memory on under both annexed-DoF settings, then put through accepted histories (<= 3 steps) of Dynamo0p3RedundantComputationTrans (depth 1, 2, max), Dynamo0p3ColourTrans, Dynamo0p3AsyncHaloExchangeTrans, DynamoOMPParallelLoopTrans and Dynamo0p3OMPLoopTrans+OMPParallelTrans regions. fsym executes the emitted routine with halo_exchange/set_dirty/set_clean/is_dirty acting on the abstract state (is_dirty(d) == d > recorded depth at that moment) and every loop nest classified from its emitted upper bound (cells to halo depth h, DoFs to owned/annexed/halo depth). z3 decides P1: each field a kernel or built-in reads is valid to the depth it reaches (h, plus the stencil extent; h-1 for GH_INC), and P2: wherever the recorded state is observed (each is_dirty call, routine exit) it is no cleaner than the contents. Witnesses are replayed by an independent line-by-line simulator of the emitted text from the witness' concrete initial state.",
        note="Unbounded in mesh size, halo depth and extents (symbolic); histories <= 3 steps, invokes <= 3 calls (7 hand-written + 16/160 drawn). Executions needing a halo deeper than the mesh has are outside the claim. Annexed-DoF validity is NOT tracked (the property speaks of halo depths; see DESIGN 10.5), nor are operators, field vectors, inter-grid kernels, reductions. The run-time rules are a restatement of the developer guide. Trusted: fparser2, z3, fsym, the stub contract.",
        ref="5/C22"),
    "C23": dict(
        level="translation_validation", engine="fsym",
        technique="SMT race query over the symbolically executed LFRic PSy layer: every DO loop is summarised by a Skolem loop variable; for each loop carrying an OpenMP/OpenACC worksharing directive z3 decides whether two distinct iterations can write one element of an incremented field, with dofmaps as uninterpreted functions and the mesh axioms (colour / discontinuity / injectivity) instantiated at the two cells",
        text="Kernels are synthesised for every access mode x function space of one or two updated arguments (40 metadata variants quick, 264 thorough), the real LFRic generator builds the invoke (distributed memory on and off), and ten transformation sequences (twenty in thorough, with loop fusion of two kernel calls first) of Dynamo0p3ColourTrans, DynamoOMPParallelLoopTrans, Dynamo0p3OMPLoopTrans+OMPParallelTrans, ACCLoopTrans+ACCParallelTrans+ACCEnterDataTrans are applied, targeting the cell loop, the colours loop and regions around either. Whatever is accepted and generated is executed by fsym with the LFRic stub contract; the kernel call's dofmap argument gives the cell term of each iteration. z3 decides, for all meshes satisfying the axioms, that two different iterations of a parallel loop cannot write the same element of an INC/READINC (or discontinuous WRITE/READWRITE) field; separately a colours loop executed inside an open parallel region without worksharing is reported. Witnesses are replayed by an independent structural reading of the emitted text.",
        note="Unbounded in mesh size (loops summarised, dofmaps uninterpreted). Continuity is taken from the function-space name; GH_WRITE on continuous spaces is outside the property. Sequences are bounded to <= 4 transformations from the listed set. Trusted: fparser2, z3, fsym, the LFRic stub contract, the mesh axioms.",
        ref="5/C23"),
    "C24": dict(
        level="translation_validation", engine="fsym",
        technique="two-sided symbolic execution: the generated algorithm layer and generated PSy module run together (rewritten calls enter the PSy routines) against the original invokes interpreted from their text; user kernels are shared uninterpreted functions of all their arguments, built-ins the documented formulas; z3 decides equality of every field and scalar of the algorithm routine for all inputs and kernel functions",
        text="psyclone.generator.generate is run on synthesised LFRic algorithm modules (18 hand-written and 40 (quick) / 800 (thorough) pseudo-randomly drawn files, distributed memory on and off) whose 1-4 invokes mix three user kernels and 13 built-ins with repeated, case-varied, spaced, array-element (literal and variable index), structure-component (two levels), literal and named-invoke arguments and case-varied `call invoke` spellings. The generated algorithm text and PSy text are concatenated and executed by fsym from the algorithm routine, so the actual-to-dummy association of every generated call is exercised; the original file is executed by the same front end with `invoke` interpreted directly on the objects its actual arguments denote. z3 decides that no field's data and no scalar differ at the end. Static by-checks on the generated text: distinct dummy names, equal actual/dummy counts, no `invoke` left behind, NoInvokesError on a file with invokes. Witnesses are replayed by a concrete fsym run of the generated code against a plain-Python evaluation of the invokes.",
        note="Bounds: <= 2 DoFs, one cell column, all fields on one DoF count; <= 4 invokes x <= 3 calls. Operators, stencils, quadrature, field vectors and inter-grid kernels are outside the family. The random files are a fixed sample (seeds 1, 2), each decided for all inputs. Trusted: fparser2, z3, fsym, the LFRic stub contract, the 13 built-in formulas (checked against the generated loops by C20).",
        ref="5/C24"),
    "C25": dict(
        level="translation_validation", engine="fsym",
        technique="SMT over loop-nest summaries of the generated GOcean PSy layer: loop variables are Skolem constants bounded by the symbolically evaluated DO bounds; z3 decides 'visited(i,j) <=> configured region' and invariance under transformations for ALL grid sizes and all points (quantified queries)",
        text="The real GOcean generator (parse + PSyFactory) is run on synthesised algorithm/kernel files for every index offset x grid-point type x iteration space, including five user-defined iteration spaces loaded from a generated configuration file, and then through GOceanLoopFuseTrans, GOceanOMPParallelLoopTrans, ACC transformations, GOceanExtractTrans and GOConstLoopBoundsTrans. The emitted Fortran is executed by fsym with every DO loop summarised (no unrolling): each kernel call becomes an event whose guard is the predicate 'point (i,j) is visited', over symbolic grid components. z3 decides, for all grids and all points: user-defined spaces visit exactly the region given by the configuration's expressions (with {start} -> 2 and {stop} -> the grid's internal stop, or istop/jstop under constant loop bounds); built-in spaces contain the internal region and stay within the depth-1 halo; every transformation leaves each kernel's visited set and the order of kernel calls unchanged. Witnesses are replayed by evaluating the emitted DO bounds with plain integer arithmetic.",
        note="Unbounded in grid size (loops are summarised). Kernel bodies are uninterpreted. dl_esm_inf's sources are absent from the repository: the whole/internal layout relation is an axiom of the sanity clause, and equality of constant-bounds and field-bounds regions for BUILT-IN spaces is outside the claim. Trusted: fparser2, z3 (quantified LIA), fsym.",
        ref="5/C25"),
    "C28": dict(
        level="model_checking", engine="fsym",
        technique="SMT over path-guarded PreStart/PostEnd call events of the symbolically executed instrumented text: z3 decides, for all inputs and all paths within K unrollings, that region depth counters stay in {0,1}, nest LIFO and return to 0",
        text="Real ProfileTrans, ExtractTrans, NanTestTrans and ReadOnlyVerifyTrans (no force) on every consecutive statement range of every schedule (routine body, loop bodies, branches) of a program family containing EXIT, CYCLE, named CYCLE, RETURN, forward GOTO, DO WHILE and branches, plus a two-region history with one re-used transformation object (first region user-named, second default-named) and an enclosing third region. FortranWriter lowers the PSyData nodes; the written text is executed symbolically and every PSyData call becomes an event guarded by its path condition. z3 decides that no input makes a region start while open, end while closed, end out of LIFO order, receive another hook call while closed, or stay open at routine exit. Region-name uniqueness is a static comparison. Witnesses are replayed by compiling the instrumented text against a checking stub PSyData library with gfortran.",
        note="Bounds: loops unrolled to K=3/4 (trip <= K assumed), regions of <= 3 statements; executions reaching STOP are outside the claim. Control transfers are executed by the interpreter's own semantics, not PSyclone's. Trusted: fparser2, z3, fsym, gfortran for replay. Names of PSy-layer regions (PSyDataTrans.get_unique_region_name) are compared on an LFRic invoke that calls one kernel several times, with fresh and re-used transformation objects.",
        ref="5/C28"),
    "C29": dict(
        level="model_checking", engine="pysx",
        technique="symbolic execution of the real Python method (AST -> z3, merged paths) against a most-general file-system environment: every answer of the file system is a fresh solver variable (assume/guarantee), one SMT query per obligation",
        text="CodedKern.rename_and_write is read from /repo at run time and executed by the pysx interpreter. Concurrent PSyclone runs are the environment: each exists/size/content question and each open attempt is answered by a fresh solver variable, constrained only by monotone existence; the open flags are taken from the AST. z3 decides for both naming schemes and all environment behaviours within R naming attempts: every write goes through a descriptor from this run's own successful O_CREAT|O_EXCL open and no existing file is opened for writing; the suffix passed to _rename_psyir is that of the file created; the loop terminates when a name is free; under 'single' nothing is created when the name exists, the run raises iff the content read differs, and it succeeds when the other run's final content is identical. Witnesses are replayed on the real method with os/open wrapped to give the witness answers.",
        note="Bounds: R = 3 (quick) / 5 (thorough) naming attempts. The other runs are not executed: they are over-approximated by the environment (any interleaving is some sequence of answers). FortranWriter, FortLineLength, Config and _rename_psyir are stubs. Trusted: pysx, z3. Predicates on a file's content other than equality (startswith, ...) are arbitrary booleans implied by equality.",
        ref="5/C29"),
}

NA = {
    "C03": "Equality of two concrete texts per program: no input/schedule/state dimension for a solver to quantify over, and the reader/writer cannot be executed symbolically (fparser2 regex/dict machinery realises every symbol).",
    "C04": "Declared-exactly-once / declared-before-use / compiles-with-implicit-none is a static scoping and ordering property of one concrete text, decided by a compiler front end, not by a solver: no input, schedule or state to quantify over. The only value-dependent clause (a renamed inner-scope symbol capturing another reference when scopes merge) is decided by the translation validation of C05/C06/C07, and their harnesses (and C01's) additionally report written or transformed code that gfortran -fimplicit-none rejects (the seeded C04 change is caught there), but that by-product is not a solver verdict, so C04 itself is not claimed.",
    "C10": "Quantifies over transformation histories against a structural nesting grammar; no data inputs to make symbolic; CrossHair over choice integers degenerates into enumeration at 50-100x slowdown.",
    "C15": "Heap identity/aliasing property of Python object graphs under edit histories; no value domain for SMT; outside CrossHair's reach on PSyIR objects.",
    "C26": "Concrete before/after tree equality around an exception over concrete (transformation,node,options) triples; only numeric options are symbolisable and that is enumeration under CrossHair.",
}
PENDING = "check not built yet in this session; listed as not applicable until its solver-based check is registered"
ALL = [f"C{n:02d}" for n in range(1, 30)]


def main():
    checks = []
    for pid, c in CHECKS.items():
        checks.append({
            "property_id": pid,
            "quick_cmd": f"bin/check {pid} --tier quick",
            "thorough_cmd": f"bin/check {pid} --tier thorough",
            "evidence_file": f"evidence/{pid}.json",
            "replay_cmd_template": "cat {path}",
            "engine": c["engine"],
            "level_claimed": {"category": c["level"], "text": c["text"], "design_ref": c["ref"]},
            "level_note": c["note"],
            "technique": c["technique"],
        })
    na = []
    for pid in ALL:
        if pid in CHECKS:
            continue
        na.append({"property_id": pid, "reason": NA.get(pid, PENDING)})
    man = {
        "version": 1,
        "setup_cmd": "bin/setup.sh",
        "hooks": {"guard": "SVALAT_PSYCLONE_VERIF", "enable": "no source hooks: checks import /repo/src directly",
                  "baseline_off_cmd": "cd /repo && /venv/bin/python -m pytest -q -p no:cacheprovider --timeout=900 -n 16 src/psyclone/tests",
                  "source_commits": [], "add_only": True},
        "engines": [
            {"name": "fsym", "path": "vlib/fsym", "serves_properties": [p for p, c in CHECKS.items() if c["engine"] == "fsym"],
             "kind_free_text": E1},
            {"name": "verdict-oracle", "path": "harness", "serves_properties": [p for p, c in CHECKS.items() if c["engine"] == "verdict-oracle"],
             "kind_free_text": "real analysis called concretely; verdict checked by z3 over all valuations"},
            {"name": "pysx", "path": "vlib/pysx", "serves_properties": [p for p, c in CHECKS.items() if c["engine"] == "pysx"],
             "kind_free_text": "merged symbolic execution of small Python functions from their AST into z3"},
            {"name": "crosshair", "path": "harness/xh", "serves_properties": [p for p, c in CHECKS.items() if c["engine"] == "crosshair"],
             "kind_free_text": "CrossHair (z3-backed symbolic execution of the real Python methods)"},
        ],
        "checks": checks,
        "not_applicable": na,
        "notes": "Every check: exit 0 ok / 1 VIOLATION / 2 harness error. Known genuine defects are listed in known_findings.jsonl and printed as KNOWN-FINDING lines.",
    }
    with open(os.path.join(HERE, "MANIFEST.json"), "w") as fh:
        json.dump(man, fh, indent=1)
    print("MANIFEST.json:", len(checks), "checks,", len(na), "not applicable")


if __name__ == "__main__":
    main()
