"""pysx extension: symbolic strings as views (character array, offset, length) and the few
str / re operations the line-length limiter uses.  Engine E2 of DESIGN.md (C18).

Domain of a symbolic string: every character is TAB or printable ASCII (9, 32..126); no
newline (the harness feeds one physical line).  Under that domain Python's str.lstrip()
and the regex class \\s both mean {TAB, space}."""
import ast
import re

import z3

from vlib.fsym.terms import AND, OR, NOT, ITE
from .core import Exec, Choice, PyUnsupported, TRUE, FALSE, alts_of, merge as core_merge, UNDEF, is_term

I = z3.IntSort()


def is_ws(c):
    return z3.Or(c == 32, c == 9)


class SStr:
    """view arr[off : off+length]"""

    def __init__(self, arr, off, length, maxlen):
        self.arr, self.off, self.length, self.maxlen = arr, off, length, maxlen

    def ch(self, j):
        return z3.Select(self.arr, self.off + j)

    def nlead(self):
        """number of leading whitespace characters (ite chain up to maxlen)"""
        r = self.length
        for j in range(self.maxlen - 1, -1, -1):
            jj = z3.IntVal(j)
            r = z3.If(z3.And(jj < self.length, z3.Not(is_ws(self.ch(jj)))), jj, r)
        return r


class SCat:
    def __init__(self, parts):
        self.parts = list(parts)


class SOut:
    """output accumulator: ordered (guard, part) pieces"""

    def __init__(self, pieces=()):
        self.pieces = list(pieces)


def parts_of(x):
    if isinstance(x, SCat):
        return list(x.parts)
    if isinstance(x, (SStr, str, Choice)):
        return [x]
    raise PyUnsupported("string part " + type(x).__name__)


def slen(x):
    if isinstance(x, str):
        return z3.IntVal(len(x))
    if isinstance(x, SStr):
        return x.length
    if isinstance(x, Choice):
        r = None
        for c, v in x.alts:
            l = slen(v)
            r = l if r is None else ITE(c, l, r)
        return r
    if isinstance(x, SCat):
        return z3.Sum([slen(p) for p in x.parts]) if x.parts else z3.IntVal(0)
    raise PyUnsupported("len of " + type(x).__name__)


def compile_pattern(pat):
    """^\\s*(A|B|...) or ^\\s*LIT -> (list of literal alternatives, ignorecase)"""
    p = pat.pattern
    if not p.startswith("^\\s*"):
        raise PyUnsupported("regex shape " + p)
    rest = p[4:]
    if rest.startswith("(") and rest.endswith(")"):
        alts = rest[1:-1].split("|")
    else:
        alts = [rest]
    lits = []
    for a in alts:
        lit = ""
        i = 0
        while i < len(a):
            if a[i] == "\\":
                i += 1
                if i >= len(a) or a[i].isalnum():
                    raise PyUnsupported("regex escape in " + p)
                lit += a[i]
            elif a[i] in ".*+?[](){}|^$":
                raise PyUnsupported("regex metacharacter in " + p)
            else:
                lit += a[i]
            i += 1
        lits.append(lit)
    return lits, bool(pat.flags & re.I)


class StrExec(Exec):
    """Exec with string views, `self` attributes, python dict lookup by symbolic key and
    inlined calls of other functions from their real source."""

    def __init__(self, fn, self_attrs=None, functions=None, **kw):
        super().__init__(fn, **kw)
        self.self_attrs = self_attrs or {}
        self.functions = functions or {}      # name -> python function (source read at call time)
        self.assumptions = []                 # bounded unwinding etc. (part of the claim)
        self.breaks = []                      # (guard, absolute position) of every slice boundary taken

    # ---- assignment with SOut-aware merge
    def assign(self, target, val, g):
        if isinstance(target, ast.Name):
            old = self.env.get(target.id, UNDEF)
            if isinstance(val, SOut):
                if isinstance(old, str) and old == "":
                    old = SOut()
                if isinstance(old, SOut) and val.pieces[:len(old.pieces)] == old.pieces:
                    extra = val.pieces[len(old.pieces):]
                    self.env[target.id] = SOut(old.pieces + [(AND(g, pg), p) for pg, p in extra])
                    return
                if old is UNDEF:
                    self.env[target.id] = SOut([(AND(g, pg), p) for pg, p in val.pieces])
                    return
                raise PyUnsupported("output accumulator reassigned")
            if isinstance(val, SStr) and isinstance(old, SStr) and val.arr is old.arr:
                self.env[target.id] = SStr(val.arr, ITE(g, val.off, old.off), ITE(g, val.length, old.length),
                                           old.maxlen)
                return
        return super().assign(target, val, g)

    # ---- expressions
    def ev(self, e, g):
        if isinstance(e, ast.Attribute) and isinstance(e.value, ast.Name) and e.value.id == "self":
            if e.attr in self.self_attrs:
                return self.self_attrs[e.attr]
            return ("selfmethod", e.attr)
        if isinstance(e, ast.Slice):
            lo = self.ev(e.lower, g) if e.lower is not None else None
            hi = self.ev(e.upper, g) if e.upper is not None else None
            if e.step is not None:
                raise PyUnsupported("slice step")
            return ("slice", lo, hi)
        if isinstance(e, ast.JoinedStr):
            return "<fstring>"
        return super().ev(e, g)

    def getitem(self, obj, key, g):
        if isinstance(obj, dict):
            alts = []
            for c, k in alts_of(key):
                if k not in obj:
                    self.raise_("KeyError", AND(g, c))
                    continue
                alts.append((c, obj[k]))
            if len(alts) == 1 and z3.is_true(z3.simplify(alts[0][0])):
                return alts[0][1]
            # values may be unhashable lists: keep them as Choice alternatives by identity
            return Choice(alts)
        if isinstance(key, tuple) and key and key[0] == "slice":
            _, lo, hi = key
            if isinstance(obj, SOut):
                return obj                      # fortran_out[:-1]: drops the final newline
            if isinstance(obj, str):
                if is_term(lo) or is_term(hi):
                    raise PyUnsupported("symbolic slice of constant string")
                return obj[lo:hi]
            if isinstance(obj, SStr):
                def clamp(v, default):
                    if v is None:
                        return default
                    v = z3.IntVal(v) if isinstance(v, int) else v
                    v = z3.If(v < 0, z3.If(obj.length + v < 0, 0, obj.length + v), v)
                    return z3.If(v > obj.length, obj.length, v)
                a = clamp(lo, z3.IntVal(0))
                b = clamp(hi, obj.length)
                ln = z3.If(b > a, b - a, 0)
                return SStr(obj.arr, obj.off + a, ln, obj.maxlen)
        return super().getitem(obj, key, g)

    def iter_entries(self, it, g):
        if isinstance(it, Choice) and all(isinstance(v, (list, tuple)) for _, v in it.alts):
            n = max(len(v) for _, v in it.alts)
            out = []
            for i in range(n):
                alts = [(c, v[i]) for c, v in it.alts if len(v) > i]
                out.append((OR(*[c for c, _ in alts]), Choice(alts) if len(alts) > 1 or
                            not z3.is_true(z3.simplify(alts[0][0])) else alts[0][1]))
            return out
        return super().iter_entries(it, g)

    def method(self, obj, name, args, g):
        if isinstance(obj, SStr):
            if name == "lstrip" and not args:
                k = obj.nlead()
                return SStr(obj.arr, obj.off + k, obj.length - k, obj.maxlen)
            if name == "split" and args == ["\n"]:
                return [obj]                    # domain: no newline in the symbolic line
            if name == "rfind":
                return self.rfind(obj, *args)
        if isinstance(obj, str) and name in ("lstrip", "strip", "upper", "lower"):
            return getattr(obj, name)(*args)
        if isinstance(obj, re.Pattern) and name == "match":
            return self.rematch(obj, args[0])
        return super().method(obj, name, args, g)

    def rfind(self, s, key, lo=None, hi=None):
        """highest index j with lo <= j <= hi - len(key) and s[j:j+len(key)] == key, else -1"""
        if isinstance(key, Choice):
            r = None
            for c, k in key.alts:
                v = self.rfind(s, k, lo, hi)
                r = v if r is None else ITE(c, v, r)
            return r
        if not isinstance(key, str) or not key:
            raise PyUnsupported("rfind key")
        lo = z3.IntVal(0) if lo is None else (z3.IntVal(lo) if isinstance(lo, int) else lo)
        hi = s.length if hi is None else (z3.IntVal(hi) if isinstance(hi, int) else hi)
        lo = z3.If(lo < 0, z3.If(s.length + lo < 0, 0, s.length + lo), lo)
        hi = z3.If(hi < 0, z3.If(s.length + hi < 0, 0, s.length + hi), z3.If(hi > s.length, s.length, hi))
        n = len(key)
        r = z3.IntVal(-1)
        bound = self.rfind_bound
        for j in range(0, bound):
            jj = z3.IntVal(j)
            m = z3.And(jj >= lo, jj + n <= hi, *[s.ch(jj + t) == ord(key[t]) for t in range(n)])
            r = z3.If(m, jj, r)
        # positions >= bound are outside the searched window by construction (hi <= bound is assumed)
        self.assumptions.append(z3.Implies(hi > lo, hi <= bound))
        return r

    rfind_bound = 140

    def rematch(self, pat, s):
        if not isinstance(s, SStr):
            raise PyUnsupported("regex on non-symbolic string")
        lits, icase = compile_pattern(pat)
        k = s.nlead()
        conds = []
        for lit in lits:
            cs = [k + len(lit) <= s.length]
            for t, chh in enumerate(lit):
                c = s.ch(k + t)
                if icase and chh.isalpha():
                    cs.append(z3.Or(c == ord(chh.upper()), c == ord(chh.lower())))
                else:
                    cs.append(c == ord(chh))
            conds.append(z3.And(*cs))
        return z3.Or(*conds)

    def builtin(self, name, args, kw, g):
        if name == "len" and isinstance(args[0], (SStr, str, SCat)) or \
                (name == "len" and isinstance(args[0], Choice) and
                 all(isinstance(v, str) for _, v in args[0].alts)):
            return slen(args[0])
        if name == "str":
            return "<str>"
        return super().builtin(name, args, kw, g)

    def binop(self, op, a, b):
        if isinstance(op, ast.Add) and any(isinstance(x, (SStr, SCat, SOut)) or
                                           (isinstance(x, Choice) and all(isinstance(v, str) for _, v in x.alts))
                                           for x in (a, b)) or \
                (isinstance(op, ast.Add) and isinstance(a, str) and isinstance(b, str)):
            if isinstance(a, str) and isinstance(b, str):
                return a + b
            if isinstance(a, SOut):
                return SOut(a.pieces + [(TRUE, p) for p in parts_of(b)])
            if isinstance(a, str) and a == "" and self._is_accumulator_context:
                return SOut([(TRUE, p) for p in parts_of(b)])
            return SCat(parts_of(a) + parts_of(b))
        return super().binop(op, a, b)

    _is_accumulator_context = False

    def stmt(self, s, g):
        # `acc += piece` where acc is the output accumulator (a plain "" initially)
        if isinstance(s, ast.AugAssign) and isinstance(s.op, ast.Add) and isinstance(s.target, ast.Name) \
                and isinstance(self.env.get(s.target.id), (SOut, str)) and s.target.id in self.accumulators:
            cur = self.env[s.target.id]
            if isinstance(cur, str):
                if cur != "":
                    raise PyUnsupported("non-empty constant accumulator")
                cur = SOut()
            v = self.ev(s.value, g)
            new = SOut(cur.pieces + [(TRUE, p) for p in parts_of(v)])
            self.env[s.target.id] = cur
            self.assign(s.target, new, g)
            return
        return super().stmt(s, g)

    accumulators = ()

    def compare(self, op, a, b):
        # truthiness / comparisons on string lengths are handled by the callers via len(); a bare
        # `if line:` on a view is non-emptiness
        return super().compare(op, a, b)

    def call_expr(self, e, g):
        # inlined calls: self.method(...) and module-level functions, from their real source
        if isinstance(e.func, ast.Attribute) and isinstance(e.func.value, ast.Name) and e.func.value.id == "self" \
                and e.func.attr in self.functions:
            return self.inline(self.functions[e.func.attr], [self.ev(a, g) for a in e.args], g, skip_self=True)
        if isinstance(e.func, ast.Name) and e.func.id in self.functions:
            return self.inline(self.functions[e.func.id], [self.ev(a, g) for a in e.args], g, skip_self=False)
        if isinstance(e.func, ast.Name) and e.func.id in ("InternalError", "str"):
            return "<exc>"
        return super().call_expr(e, g)

    def inline(self, fn, args, g, skip_self):
        child = StrExec(fn, self_attrs=self.self_attrs, functions=self.functions, while_bound=self.while_bound,
                        builtins=self.builtins)
        child.rfind_bound = self.rfind_bound
        names = [a.arg for a in child.fn_ast.args.args]
        if skip_self:
            names = names[1:]
        for n, v in zip(names, args):
            child.env[n] = v
        child.block(child.fn_ast.body, TRUE)
        for en, c in child.exc.items():
            self.raise_(en, AND(g, c))
        self.obligations += [(n, z3.Implies(g, o)) for n, o in child.obligations]
        self.assumptions += [z3.Implies(g, a) for a in child.assumptions]
        return child.retval


def tobool_str(v):
    if isinstance(v, SStr):
        return v.length > 0
    return None
