"""pysx: merged (guarded) symbolic execution of small Python functions from their
AST into z3.  Engine E2 of DESIGN.md.

Every statement runs under a guard; control flow (break/continue/return/raise)
is a set of guard flags; loops over finite-universe containers are unrolled over
the universe; `while` loops are unrolled to a bound with an unwinding obligation.
Anything outside the modelled subset raises PyUnsupported."""
import ast
import inspect
import textwrap

import z3

from vlib.fsym.terms import AND, OR, NOT, ITE

TRUE, FALSE = z3.BoolVal(True), z3.BoolVal(False)


class PyUnsupported(Exception):
    pass


def is_term(v):
    return z3.is_expr(v)


def tobool(v):
    """Python truthiness as a z3 Bool."""
    if isinstance(v, bool):
        return z3.BoolVal(v)
    if is_term(v):
        if z3.is_bool(v):
            return v
        if z3.is_int(v):
            return v != 0
    if isinstance(v, (SSet, SDict, SSeq)):
        return v.truth()
    if hasattr(v, "length") and is_term(getattr(v, "length", None)) and hasattr(v, "arr"):
        return v.length > 0            # string view: non-empty
    if isinstance(v, Choice):
        return OR(*[AND(c, tobool(x)) for c, x in v.alts])
    if v is None:
        return FALSE
    if hasattr(v, "truth"):
        return v.truth()
    if isinstance(v, (int, str, list, tuple, dict, set)):
        return z3.BoolVal(bool(v))
    raise PyUnsupported(f"truthiness of {type(v).__name__}")


class Choice:
    """A symbolic value that is one of several concrete objects: [(cond, obj)], the
    conds are pairwise disjoint."""

    def __init__(self, alts):
        merged = []
        for c, v in alts:
            if z3.is_false(c):
                continue
            for i, (c2, v2) in enumerate(merged):
                if v2 is v or (not isinstance(v, (SSet, SDict, SSeq)) and type(v) is type(v2) and v == v2):
                    merged[i] = (OR(c2, c), v2)
                    break
            else:
                merged.append((c, v))
        self.alts = merged

    def cond_of(self, obj):
        for c, v in self.alts:
            if v is obj or (not isinstance(v, (SSet, SDict, SSeq)) and v == obj):
                return c
        return FALSE


def alts_of(v):
    if isinstance(v, Choice):
        return v.alts
    return [(TRUE, v)]


def merge(g, new, old):
    """value after an assignment executed under guard g."""
    if z3.is_true(g):
        return new
    if z3.is_false(g):
        return old
    if new is old:
        return new
    if isinstance(new, bool) and (isinstance(old, bool) or (is_term(old) and z3.is_bool(old))):
        new = z3.BoolVal(new)
    if isinstance(old, bool) and is_term(new) and z3.is_bool(new):
        old = z3.BoolVal(old)
    if isinstance(new, int) and not isinstance(new, bool) and is_term(old) and z3.is_int(old):
        new = z3.IntVal(new)
    if isinstance(old, int) and not isinstance(old, bool) and is_term(new) and z3.is_int(new):
        old = z3.IntVal(old)
    if isinstance(new, int) and isinstance(old, int) and not isinstance(new, bool) \
            and not isinstance(old, bool):
        if new == old:
            return new
        return ITE(g, z3.IntVal(new), z3.IntVal(old))
    if is_term(new) and is_term(old) and new.sort() == old.sort():
        return ITE(g, new, old)
    if old is UNDEF:
        # a read on a path where the name is unbound would be UnboundLocalError; not modelled
        return new
    alts = [(AND(g, c), x) for c, x in alts_of(new)] + [(AND(NOT(g), c), x) for c, x in alts_of(old)]
    return Choice(alts)


class _Undef:
    def __repr__(self):
        return "UNDEF"


UNDEF = _Undef()


class SSet:
    def __init__(self, universe, bits=None, name="s"):
        self.universe = list(universe)
        self.bits = dict(bits) if bits is not None else {u: z3.Bool(f"{name}_{u}") for u in universe}

    def copy(self):
        return SSet(self.universe, self.bits)

    def truth(self):
        return OR(*self.bits.values())

    def length(self):
        return z3.Sum([z3.If(b, 1, 0) for b in self.bits.values()]) if self.bits else z3.IntVal(0)

    def contains(self, x):
        return OR(*[AND(c, self.bits.get(u, FALSE)) for c, u in alts_of(x)])


class SDict:
    def __init__(self, keys, present, vals):
        self.keys, self.present, self.vals = list(keys), dict(present), dict(vals)

    def truth(self):
        return OR(*self.present.values())

    def length(self):
        return z3.Sum([z3.If(b, 1, 0) for b in self.present.values()])

    def contains(self, x):
        return OR(*[AND(c, self.present.get(u, FALSE)) for c, u in alts_of(x)])

    def deepcopy(self):
        return SDict(self.keys, self.present,
                     {k: (v.copy() if hasattr(v, "copy") else v) for k, v in self.vals.items()})


class SSeq:
    """Sequence with statically known slots, each present under a guard."""

    def __init__(self, entries=None):
        self.entries = list(entries or [])

    def truth(self):
        return OR(*[g for g, _ in self.entries])

    def length(self):
        return z3.Sum([z3.If(g, 1, 0) for g, _ in self.entries]) if self.entries else z3.IntVal(0)

    def append(self, g, v):
        self.entries.append((g, v))


class Closure:
    def __init__(self, node, env):
        self.node, self.env = node, env


class DefClosure:
    """a nested `def`: executed in the enclosing environment when called (late binding, as Python does)"""

    def __init__(self, node):
        self.node = node


class Exec:
    def __init__(self, fn, while_bound=8, builtins=None):
        src = textwrap.dedent(inspect.getsource(fn))
        self.fn_ast = ast.parse(src).body[0]
        self.src = src
        self.while_bound = while_bound
        self.obligations = []      # (name, Bool that must be valid)
        self.exc = {}              # exception name -> Bool (raised and not caught)
        self.ret = FALSE
        self.retval = UNDEF
        self.loops = []            # [brk, cont]
        self.builtins = builtins or {}
        self.env = {}

    # ------------------------------------------------------------------ helpers
    def dead(self):
        fl = [self.ret] + list(self.exc.values())
        for l in self.loops:
            fl += l
        return OR(*fl)

    def live(self, g):
        return AND(g, NOT(self.dead()))

    def raise_(self, name, g):
        g = z3.simplify(g)
        if z3.is_false(g):
            return
        self.exc[name] = OR(self.exc.get(name, FALSE), g)

    def call(self, args):
        a = self.fn_ast.args
        names = [x.arg for x in a.args]
        for n, v in zip(names, args):
            self.env[n] = v
        self.block(self.fn_ast.body, TRUE)
        return self.retval

    # ------------------------------------------------------------------ statements
    def block(self, stmts, g):
        for s in stmts:
            gl = self.live(g)
            if z3.is_false(gl) or (getattr(self, "skip_dead", False) and z3.is_false(z3.simplify(gl))):
                return          # dead code: nothing below is executed on any path (simplifier check: opt-in)
            self.stmt(s, gl)

    def assign(self, target, val, g):
        if isinstance(target, ast.Name):
            self.env[target.id] = merge(g, val, self.env.get(target.id, UNDEF))
            return
        if isinstance(target, (ast.Tuple, ast.List)):
            if isinstance(val, (tuple, list)) and len(val) == len(target.elts):
                for t, v in zip(target.elts, val):
                    self.assign(t, v, g)
                return
            raise PyUnsupported("tuple unpacking of symbolic value")
        if isinstance(target, ast.Subscript):
            obj = self.ev(target.value, g)
            key = self.ev(target.slice, g)
            if isinstance(obj, SDict):
                for c, u in alts_of(key):
                    if u not in obj.present:
                        raise PyUnsupported("dictionary key outside the universe")
                    gc = AND(g, c)
                    obj.vals[u] = merge(gc, val, obj.vals.get(u, UNDEF))
                    obj.present[u] = OR(obj.present[u], gc)
                return
            raise PyUnsupported("subscript assignment on " + type(obj).__name__)
        raise PyUnsupported("assignment target " + type(target).__name__)

    def stmt(self, s, g):
        if isinstance(s, ast.Expr):
            if isinstance(s.value, ast.Constant):
                return
            self.ev(s.value, g)
            return
        if isinstance(s, ast.Assign):
            v = self.ev(s.value, g)
            g = self.live(g)          # an exception raised while evaluating the value skips the store
            for t in s.targets:
                self.assign(t, v, g)
            return
        if isinstance(s, ast.AugAssign):
            cur = self.ev(s.target, g)
            v = self.binop(s.op, cur, self.ev(s.value, g))
            g = self.live(g)
            self.assign(s.target, v, g)
            return
        if isinstance(s, ast.If):
            c = tobool(self.ev(s.test, g))
            self.block(s.body, AND(g, c))
            self.block(s.orelse, AND(g, NOT(c)))
            return
        if isinstance(s, ast.For):
            return self.for_(s, g)
        if isinstance(s, ast.While):
            return self.while_(s, g)
        if isinstance(s, ast.Break):
            self.loops[-1][0] = OR(self.loops[-1][0], g)
            return
        if isinstance(s, ast.Continue):
            self.loops[-1][1] = OR(self.loops[-1][1], g)
            return
        if isinstance(s, ast.Return):
            v = self.ev(s.value, g) if s.value is not None else None
            self.retval = merge(g, v, self.retval)
            self.ret = OR(self.ret, g)
            return
        if isinstance(s, ast.Pass):
            return
        if isinstance(s, ast.Delete):
            for t in s.targets:
                if not isinstance(t, ast.Subscript):
                    raise PyUnsupported("del of non-subscript")
                obj = self.ev(t.value, g)
                key = self.ev(t.slice, g)
                self.delitem(obj, key, g)
            return
        if isinstance(s, ast.Raise):
            name = "Exception"
            if s.exc is not None:
                f = s.exc.func if isinstance(s.exc, ast.Call) else s.exc
                name = f.id if isinstance(f, ast.Name) else getattr(f, "attr", "Exception")
            self.raise_(name, g)
            return
        if isinstance(s, ast.Try):
            return self.try_(s, g)
        if isinstance(s, ast.FunctionDef):
            a = s.args
            if s.decorator_list or a.vararg or a.kwarg or a.kwonlyargs or a.defaults:
                raise PyUnsupported("nested def with decorators / star / default arguments")
            self.env[s.name] = DefClosure(s)
            return
        raise PyUnsupported("statement " + type(s).__name__)

    def try_(self, s, g):
        if s.finalbody:
            raise PyUnsupported("finally")
        before = dict(self.exc)
        self.block(s.body, g)
        for h in s.handlers:
            names = []
            if h.type is None:
                names = None
            elif isinstance(h.type, ast.Tuple):
                names = [getattr(e, "id", getattr(e, "attr", None)) for e in h.type.elts]
            else:
                names = [getattr(h.type, "id", getattr(h.type, "attr", None))]
            caught = FALSE
            for en in list(self.exc):
                if names is None or en in names or "Exception" in (names or []) or \
                        _is_subclass(en, names):
                    new = AND(self.exc[en], NOT(before.get(en, FALSE)))
                    caught = OR(caught, new)
                    self.exc[en] = before.get(en, FALSE)
            if not z3.is_false(caught):
                self.block(h.body, AND(g, caught) if not z3.is_true(g) else caught)
        if s.orelse:
            raise PyUnsupported("try-else")

    def iter_entries(self, it, g):
        """-> list of (guard, value) in iteration order."""
        if isinstance(it, Choice):
            # exactly one alternative is the object: its entries under its condition
            out = []
            for c, o in it.alts:
                out += [(AND(c, eg), v) for eg, v in self.iter_entries(o, AND(g, c))]
            return out
        if isinstance(it, SSeq):
            return list(it.entries)
        if isinstance(it, SSet):
            return [(it.bits[u], u) for u in it.universe]
        if isinstance(it, SDict):
            return [(it.present[k], k) for k in it.keys]
        if isinstance(it, (list, tuple)):
            return [(TRUE, x) for x in it]
        if isinstance(it, range):
            return [(TRUE, x) for x in it]
        raise PyUnsupported("iteration over " + type(it).__name__)

    def for_(self, s, g):
        it = self.ev(s.iter, g)
        entries = self.iter_entries(it, g)
        self.loops.append([FALSE, FALSE])
        for eg, val in entries:
            self.loops[-1][1] = FALSE
            ig = self.live(AND(g, eg))
            if z3.is_false(ig):
                continue
            # inside the body the loop variable IS val (the body only runs under ig)
            names = _target_names(s.target)
            old = {n: self.env.get(n, UNDEF) for n in names}
            self.assign(s.target, val, TRUE)
            self.block(s.body, ig)
            for n in names:
                self.env[n] = merge(ig, self.env[n], old[n])
        brk = self.loops[-1][0]
        self.loops.pop()
        if s.orelse:
            self.block(s.orelse, AND(g, NOT(brk)))

    def while_(self, s, g):
        if s.orelse:
            raise PyUnsupported("while-else")
        self.loops.append([FALSE, FALSE])
        active = g
        for _ in range(self.while_bound):
            self.loops[-1][1] = FALSE
            c = tobool(self.ev(s.test, self.live(active)))
            active = self.live(AND(active, c))
            if z3.is_false(z3.simplify(active)):
                break
            self.block(s.body, active)
        else:
            self.loops[-1][1] = FALSE
            c = tobool(self.ev(s.test, self.live(active)))
            self.obligations.append(("unwinding", NOT(self.live(AND(active, c)))))
        self.loops.pop()

    # ------------------------------------------------------------------ container ops
    def delitem(self, obj, key, g):
        if isinstance(obj, SDict):
            self.raise_("KeyError", AND(g, NOT(obj.contains(key))))
            for c, u in alts_of(key):
                if u in obj.present:
                    obj.present[u] = AND(obj.present[u], NOT(AND(g, c)))
            return
        raise PyUnsupported("del on " + type(obj).__name__)

    def getitem(self, obj, key, g):
        if isinstance(obj, Choice):
            alts = []
            for c, o in obj.alts:
                r = self.getitem(o, key, AND(g, c))
                for c2, v2 in alts_of(r):
                    alts.append((AND(c, c2), v2))
            return Choice(alts)
        if isinstance(obj, SDict):
            self.raise_("KeyError", AND(g, NOT(obj.contains(key))))
            alts = [(c, obj.vals[u]) for c, u in alts_of(key) if u in obj.vals]
            if len(alts) == 1:
                return alts[0][1]
            return Choice(alts)
        if isinstance(obj, SSeq):
            if isinstance(key, int) and key >= 0:
                # key-th present entry
                self.raise_("IndexError", AND(g, obj.length() <= key))
                alts = []
                for i, (eg, v) in enumerate(obj.entries):
                    before = z3.Sum([z3.If(e2, 1, 0) for e2, _ in obj.entries[:i]]) if i else z3.IntVal(0)
                    cond = AND(eg, before == key)
                    for c2, v2 in alts_of(v):
                        alts.append((AND(cond, c2), v2))
                return Choice(alts)
            raise PyUnsupported("sequence index")
        if isinstance(obj, (list, tuple)) and isinstance(key, int):
            return obj[key]
        raise PyUnsupported("subscript on " + type(obj).__name__)

    def method(self, obj, name, args, g):
        if isinstance(obj, Choice):
            # dispatch to every alternative under its condition (in-place effects are guarded)
            alts = []
            for c, o in obj.alts:
                r = self.method(o, name, args, AND(g, c))
                for c2, v2 in alts_of(r):
                    alts.append((AND(c, c2), v2))
            if all(v is None for _, v in alts):
                return None
            return Choice(alts)
        if isinstance(obj, SSet):
            if name == "copy":
                return obj.copy()
            if name in ("remove", "discard"):
                x = args[0]
                if name == "remove":
                    self.raise_("KeyError", AND(g, NOT(obj.contains(x))))
                for c, u in alts_of(x):
                    if u in obj.bits:
                        obj.bits[u] = AND(obj.bits[u], NOT(AND(g, c)))
                return None
            if name == "add":
                for c, u in alts_of(args[0]):
                    if u not in obj.bits:
                        raise PyUnsupported("add outside universe")
                    obj.bits[u] = OR(obj.bits[u], AND(g, c))
                return None
            if name == "clear":
                for u in obj.bits:
                    obj.bits[u] = AND(obj.bits[u], NOT(g))
                return None
            if name == "update" and isinstance(args[0], SSet):
                for u in obj.bits:
                    obj.bits[u] = OR(obj.bits[u], AND(g, args[0].bits.get(u, FALSE)))
                return None
        if isinstance(obj, SDict):
            if name == "items":
                return SSeq([(obj.present[k], (k, obj.vals[k])) for k in obj.keys])
            if name == "keys":
                return SSeq([(obj.present[k], k) for k in obj.keys])
            if name == "values":
                return SSeq([(obj.present[k], obj.vals[k]) for k in obj.keys])
            if name == "copy":
                return SDict(obj.keys, obj.present, obj.vals)
        if isinstance(obj, SSeq):
            if name == "append":
                obj.append(g, args[0])
                return None
        if isinstance(obj, list) and name == "append":
            raise PyUnsupported("append to concrete list under guard")
        stub = self.builtins.get(("method", name))
        if stub:
            return stub(self, obj, args, g)
        raise PyUnsupported(f"method {type(obj).__name__}.{name}")

    # ------------------------------------------------------------------ expressions
    def ev(self, e, g):
        if isinstance(e, ast.Constant):
            return e.value
        if isinstance(e, ast.Name):
            if e.id in self.env:
                return self.env[e.id]
            if e.id in self.builtins:
                return self.builtins[e.id]
            if e.id in ("len", "sorted", "print", "copy", "list", "set", "dict", "isinstance", "range"):
                return ("builtin", e.id)
            raise PyUnsupported("name " + e.id)
        if isinstance(e, ast.List):
            if not e.elts:
                return SSeq()
            return [self.ev(x, g) for x in e.elts]
        if isinstance(e, ast.Tuple):
            return tuple(self.ev(x, g) for x in e.elts)
        if isinstance(e, ast.JoinedStr):
            return "<fstring>"
        if isinstance(e, ast.UnaryOp):
            v = self.ev(e.operand, g)
            if isinstance(e.op, ast.Not):
                return NOT(tobool(v))
            if isinstance(e.op, ast.USub):
                return -v
            raise PyUnsupported("unary op")
        if isinstance(e, ast.BoolOp):
            # short-circuit: later operands are evaluated under the earlier ones' outcome
            vals = []
            cur = g
            for x in e.values:
                v = tobool(self.ev(x, cur))
                vals.append(v)
                cur = AND(cur, v) if isinstance(e.op, ast.And) else AND(cur, NOT(v))
            return AND(*vals) if isinstance(e.op, ast.And) else OR(*vals)
        if isinstance(e, ast.Compare):
            left = self.ev(e.left, g)
            res = []
            for op, rhs in zip(e.ops, e.comparators):
                r = self.ev(rhs, g)
                res.append(self.compare(op, left, r))
                left = r
            return AND(*res)
        if isinstance(e, ast.BinOp):
            return self.binop(e.op, self.ev(e.left, g), self.ev(e.right, g))
        if isinstance(e, ast.Subscript):
            return self.getitem(self.ev(e.value, g), self.ev(e.slice, g), g)
        if isinstance(e, ast.Lambda):
            return Closure(e, dict(self.env))
        if isinstance(e, ast.GeneratorExp) or isinstance(e, ast.ListComp):
            if len(e.generators) != 1:
                raise PyUnsupported("nested comprehension")
            gen = e.generators[0]
            entries = self.iter_entries(self.ev(gen.iter, g), g)
            out = SSeq()
            saved = dict(self.env)
            for eg, val in entries:
                self.assign(gen.target, val, TRUE)
                cond = eg
                for c in gen.ifs:
                    cond = AND(cond, tobool(self.ev(c, AND(g, cond))))
                out.append(cond, self.ev(e.elt, AND(g, cond)))
            self.env = saved
            return out
        if isinstance(e, ast.Attribute):
            base = self.ev(e.value, g)
            return ("attr", base, e.attr)
        if isinstance(e, ast.Call):
            return self.call_expr(e, g)
        if isinstance(e, ast.Dict) and not e.keys:
            # {}: an empty dictionary over the universe of keys
            uni = self.builtins.get("__universe__")
            if uni is None:
                raise PyUnsupported("{} without a universe")
            return SDict(list(uni), {u: FALSE for u in uni}, {u: UNDEF for u in uni})
        raise PyUnsupported("expression " + type(e).__name__)

    def call_expr(self, e, g):
        if isinstance(e.func, ast.Attribute):
            base = self.ev(e.func.value, g)
            args = [self.ev(a, g) for a in e.args]
            if isinstance(base, tuple) and base and base[0] == "builtin" and base[1] == "copy" \
                    and e.func.attr == "deepcopy":
                v = args[0]
                return v.deepcopy() if hasattr(v, "deepcopy") else v.copy()
            if isinstance(base, tuple) and base and base[0] == "module":
                stub = self.builtins.get((base[1], e.func.attr))
                if stub is None:
                    raise PyUnsupported(f"{base[1]}.{e.func.attr}")
                return stub(self, args, {k.arg: self.ev(k.value, g) for k in e.keywords}, g)
            return self.method(base, e.func.attr, args, g)
        f = self.ev(e.func, g)
        args = [self.ev(a, g) for a in e.args]
        kw = {k.arg: self.ev(k.value, g) for k in e.keywords}
        if isinstance(f, tuple) and f[0] == "builtin":
            return self.builtin(f[1], args, kw, g)
        if isinstance(f, DefClosure):
            return self.apply_def(f, args, kw, g)
        if callable(f):
            return f(self, args, kw, g)
        raise PyUnsupported("call of " + str(f))

    def apply_def(self, clo, args, kw, g):
        """call of a nested def: its body runs under guard g with its own return flag; names it binds
        stay local (saved and restored), names it reads come from the enclosing environment"""
        names = [x.arg for x in clo.node.args.args]
        if kw or len(args) != len(names):
            raise PyUnsupported("nested def: keyword / missing arguments")
        saved_env, saved_ret, saved_val, saved_loops = self.env, self.ret, self.retval, self.loops
        self.env = dict(saved_env)
        for n, v in zip(names, args):
            self.env[n] = v
        self.ret, self.retval, self.loops = FALSE, UNDEF, []
        self.block(clo.node.body, g)
        r = None if self.retval is UNDEF else self.retval
        self.env, self.ret, self.retval, self.loops = saved_env, saved_ret, saved_val, saved_loops
        return r

    def apply_closure(self, clo, args, g):
        saved = self.env
        self.env = dict(clo.env)
        self.env.update(saved)
        for a, v in zip(clo.node.args.args, args):
            self.env[a.arg] = v
        r = self.ev(clo.node.body, g)
        self.env = saved
        return r

    def builtin(self, name, args, kw, g):
        if name == "print":
            return None
        if name == "len":
            v = args[0]
            if isinstance(v, (SSet, SDict, SSeq)):
                return v.length()
            if isinstance(v, Choice):
                r = None
                for c, x in v.alts:
                    l = x.length() if hasattr(x, "length") else z3.IntVal(len(x))
                    r = l if r is None else ITE(c, l, r)
                return r
            return len(v)
        if name == "set":
            if args:
                src = args[0]
                if isinstance(src, SSet):
                    return src.copy()
                raise PyUnsupported("set(iterable)")
            uni = self.builtins.get("__universe__")
            if uni is None:
                raise PyUnsupported("set() without a universe")
            return SSet(uni, {u: FALSE for u in uni})
        if name == "list":
            if not args:
                return SSeq()
            return SSeq(self.iter_entries(args[0], g))
        if name == "sorted":
            seq = args[0]
            entries = self.iter_entries(seq, g)
            key = kw.get("key")
            keys = []
            for eg, v in entries:
                k = self.apply_closure(key, [v], AND(g, eg)) if key is not None else v
                if isinstance(k, int):
                    k = z3.IntVal(k)
                keys.append(k)
            n = len(entries)
            # rank of entry i among the present ones (stable)
            out = SSeq()
            ranks = []
            for i in range(n):
                r = z3.IntVal(0)
                for j in range(n):
                    if i == j:
                        continue
                    smaller = keys[j] < keys[i] if j > i else keys[j] <= keys[i]
                    r = r + z3.If(AND(entries[j][0], smaller), 1, 0)
                ranks.append(r)
            for pos in range(n):
                alts = []
                for i in range(n):
                    c = AND(entries[i][0], ranks[i] == pos)
                    for c2, v2 in alts_of(entries[i][1]):
                        alts.append((AND(c, c2), v2))
                out.append(OR(*[a for a, _ in alts]), Choice(alts))
            return out
        if name == "dict" and len(args) == 1 and isinstance(args[0], SDict) and not kw:
            # shallow copy: a new mapping whose values are the SAME objects (mutating them is visible in both)
            return SDict(args[0].keys, args[0].present, args[0].vals)
        raise PyUnsupported("builtin " + name)

    def compare(self, op, a, b):
        if isinstance(op, (ast.In, ast.NotIn)):
            if isinstance(b, (SSet, SDict)):
                r = b.contains(a)
            elif isinstance(b, SSeq):
                r = OR(*[AND(eg, self.eq(a, v)) for eg, v in b.entries])
            elif isinstance(b, (list, tuple, set, str)) and not isinstance(a, Choice) and not is_term(a):
                r = z3.BoolVal(a in b)
            else:
                raise PyUnsupported("in on " + type(b).__name__)
            return r if isinstance(op, ast.In) else NOT(r)
        if isinstance(op, ast.Eq):
            return self.eq(a, b)
        if isinstance(op, ast.NotEq):
            return NOT(self.eq(a, b))
        if isinstance(op, (ast.Is, ast.IsNot)):
            r = z3.BoolVal(a is b) if not isinstance(a, Choice) else a.cond_of(b)
            return r if isinstance(op, ast.Is) else NOT(r)
        a = z3.IntVal(a) if isinstance(a, int) else a
        b = z3.IntVal(b) if isinstance(b, int) else b
        if isinstance(op, ast.Lt):
            return a < b
        if isinstance(op, ast.LtE):
            return a <= b
        if isinstance(op, ast.Gt):
            return a > b
        if isinstance(op, ast.GtE):
            return a >= b
        raise PyUnsupported("comparison")

    def eq(self, a, b):
        if is_term(a) or is_term(b):
            a = z3.IntVal(a) if isinstance(a, int) and not isinstance(a, bool) else a
            b = z3.IntVal(b) if isinstance(b, int) and not isinstance(b, bool) else b
            return a == b
        if isinstance(a, Choice) or isinstance(b, Choice):
            return OR(*[AND(c1, c2) for c1, x in alts_of(a) for c2, y in alts_of(b)
                        if (x is y or (not isinstance(x, (SSet, SDict, SSeq)) and x == y))])
        return z3.BoolVal(a == b)

    def binop(self, op, a, b):
        a = z3.IntVal(a) if isinstance(a, int) and is_term(b) else a
        b = z3.IntVal(b) if isinstance(b, int) and is_term(a) else b
        if isinstance(op, ast.Add):
            return a + b
        if isinstance(op, ast.Sub):
            return a - b
        if isinstance(op, ast.Mult):
            return a * b
        raise PyUnsupported("binary op " + type(op).__name__)


def _target_names(t):
    if isinstance(t, ast.Name):
        return [t.id]
    if isinstance(t, (ast.Tuple, ast.List)):
        out = []
        for e in t.elts:
            out += _target_names(e)
        return out
    raise PyUnsupported("loop target")


_EXC_PARENTS = {"KeyError": ["LookupError", "Exception"], "IndexError": ["LookupError", "Exception"],
                "FileExistsError": ["OSError", "Exception"], "FileNotFoundError": ["OSError", "Exception"],
                "OSError": ["Exception"], "ValueError": ["Exception"], "GenerationError": ["Exception"],
                "InternalError": ["Exception"], "TypeError": ["Exception"]}


def _is_subclass(name, names):
    return any(p in (names or []) for p in _EXC_PARENTS.get(name, ["Exception"]))
