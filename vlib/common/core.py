"""Common plumbing for every check: tiers, evidence, known findings, replay files,
exit codes, parallel map.  Nothing here decides a property."""
import hashlib
import json
import os
import subprocess
import sys
import time
import traceback

VERIF = os.path.dirname(os.path.dirname(os.path.dirname(os.path.abspath(__file__))))
REPO = os.environ.get("VERIF_REPO", "/repo")
EXIT_OK, EXIT_VIOLATION, EXIT_HARNESS = 0, 1, 2

os.environ.setdefault("PSYCLONE_CONFIG", os.path.join(REPO, "config", "psyclone.cfg"))


def tier():
    t = os.environ.get("VERIF_TIER", "quick")
    return t if t in ("quick", "thorough") else "quick"


def seed():
    try:
        return int(os.environ.get("VERIF_SEED", "0"))
    except ValueError:
        return 0


def nworkers():
    try:
        return int(os.environ.get("VERIF_WORKERS", "0")) or (os.cpu_count() or 4)
    except ValueError:
        return os.cpu_count() or 4


def repo_state():
    def run(*a):
        try:
            return subprocess.run(["git", "-C", REPO] + list(a), capture_output=True,
                                  text=True, timeout=60).stdout.strip()
        except Exception:  # pylint: disable=broad-except
            return "?"
    return {"repo_head": run("rev-parse", "HEAD"),
            "repo_dirty": bool(run("status", "--porcelain", "--untracked-files=no"))}


def src_hash(*objs):
    """Qualified name + hash of the source text of real functions read from /repo."""
    import inspect
    out = []
    for o in objs:
        try:
            s = inspect.getsource(o)
            name = getattr(o, "__qualname__", getattr(o, "__name__", str(o)))
            mod = getattr(o, "__module__", "")
            out.append(f"{mod}.{name}#{hashlib.sha1(s.encode()).hexdigest()[:10]}")
        except Exception:  # pylint: disable=broad-except
            out.append(str(o))
    return out


# ---------------------------------------------------------------- known findings
def load_findings(prop):
    path = os.path.join(VERIF, "known_findings.jsonl")
    out = []
    if os.path.exists(path):
        for line in open(path, encoding="utf-8"):
            line = line.strip()
            if not line or line.startswith("#"):
                continue
            d = json.loads(line)
            if d.get("property") == prop and d.get("status") == "known":
                out.append(d)
    return out


def _safe_eval(expr, env):
    """Tiny predicate evaluator for the `when` field: Python expression over the
    case's parameter dict, no builtins apart from a few harmless ones."""
    if not expr:
        return True
    allowed = {"abs": abs, "min": min, "max": max, "len": len, "any": any, "all": all,
               "str": str, "int": int, "True": True, "False": False, "None": None}
    try:
        return bool(eval(expr, {"__builtins__": {}}, {**allowed, **env}))  # noqa: S307
    except Exception:  # pylint: disable=broad-except
        return False


def match_finding(findings, key):
    """key: dict with at least unit, template and the case parameters."""
    for f in findings:
        k = f.get("key", {})
        ku = k.get("unit")
        if isinstance(ku, list):
            if key.get("unit") not in ku:
                continue
        elif ku is not None and ku != key.get("unit"):
            continue
        if "template" in k:
            kt = k["template"]
            if (key.get("template") not in kt) if isinstance(kt, list) else (kt != key.get("template")):
                continue
        if _safe_eval(k.get("when", ""), key.get("params", {})):
            return f
    return None


# ---------------------------------------------------------------- check context
class Check:
    """Collects verdict counts, violations and writes the evidence file."""

    def __init__(self, prop, level, explanation=""):
        self.prop = prop
        self.level = level
        self.t0 = time.time()
        self.findings = load_findings(prop)
        self.cov = {"queries": 0, "unsat": 0, "sat_replayed": 0, "sat_not_reproduced": 0,
                    "inconclusive": 0, "refused": 0, "skipped_unsupported": 0,
                    "solver_s": 0.0, "known_findings_hit": [], "by_products": [],
                    "samples": [], "bounds": {}, "functions_encoded": [],
                    "explanation": explanation, "reachability_twins_ok": 0,
                    "reachability_twins_failed": 0}
        self.cov.update(repo_state())
        self.assumptions = []
        self.violations = []       # (key, what, replay_path)
        self.known_hit = {}        # what -> count
        self.harness_errors = []
        self.evaluations = 0
        self.nontrivial = set()

    # -- counters
    def count(self, name, n=1):
        self.cov[name] = self.cov.get(name, 0) + n

    def sample(self, s, limit=6):
        if len(self.cov["samples"]) < limit:
            self.cov["samples"].append(s)

    def merge_counts(self, d):
        for k, v in d.items():
            if isinstance(v, (int, float)) and not isinstance(v, bool):
                self.cov[k] = self.cov.get(k, 0) + v

    # -- violations
    def replay_path(self, name):
        d = os.path.join(VERIF, "replays", self.prop)
        os.makedirs(d, exist_ok=True)
        return os.path.join(d, name)

    def report(self, key, what, replay_text, name=None):
        """A replayed (reproducing) violation. Known finding -> KNOWN-FINDING line."""
        f = match_finding(self.findings, key)
        if f is not None:
            w = f.get("what", what)
            self.known_hit[w] = self.known_hit.get(w, 0) + 1
            return "known"
        h = hashlib.sha1(json.dumps(key, sort_keys=True, default=str).encode()).hexdigest()[:10]
        path = self.replay_path(name or f"{key.get('unit','x')}_{key.get('template','x')}_{h}.txt")
        with open(path, "w", encoding="utf-8") as fh:
            fh.write(f"# property {self.prop}\n# key {json.dumps(key, default=str)}\n# {what}\n")
            fh.write(replay_text)
        self.violations.append((key, what, path))
        return "violation"

    def harness_error(self, msg):
        self.harness_errors.append(msg)

    # -- finish
    def finish(self, extra_cov=None):
        cov = self.cov
        if extra_cov:
            cov.update(extra_cov)
        cov["known_findings_hit"] = [{"what": w, "count": c} for w, c in self.known_hit.items()]
        cov["evaluations"] = max(self.evaluations, cov.get("evaluations", 0))
        cov["distinct_nontrivial"] = max(len(self.nontrivial), cov.get("distinct_nontrivial", 0))
        cov["solver_s"] = round(cov.get("solver_s", 0.0), 3)
        cov["solver"] = solver_id()
        cov["harness_errors"] = self.harness_errors[:10]
        cov["violation_list"] = [{"key": k, "what": w, "replay": p} for k, w, p in self.violations[:20]]
        if self.level == "translation_validation":
            cov.setdefault("programs", cov.get("evaluations", 0))
            cov.setdefault("disagreements_checked",
                           cov["sat_replayed"] + cov["sat_not_reproduced"])
        if self.level == "model_checking":
            cov.setdefault("states", max(1, cov.get("evaluations", 1)))
            cov.setdefault("transitions", max(1, cov.get("queries", 1)))
            cov.setdefault("traces_validated_against_impl", cov.get("sat_replayed", 0))
        ev = {"property_id": self.prop, "tier": tier(), "seed": seed(), "level": self.level,
              "coverage": cov, "assumptions": self.assumptions,
              "wall_s": round(time.time() - self.t0, 2), "violations": len(self.violations)}
        evdir = os.environ.get("VERIF_EVIDENCE_DIR") or os.path.join(VERIF, "evidence")   # (seed trials write elsewhere)
        os.makedirs(evdir, exist_ok=True)
        path = os.path.join(evdir, f"{self.prop}.json")
        with open(path + ".tmp", "w", encoding="utf-8") as fh:
            json.dump(ev, fh, indent=1, default=str)
        os.replace(path + ".tmp", path)
        for w, c in self.known_hit.items():
            print(f"KNOWN-FINDING: property={self.prop} {w} (x{c})")
        for k, w, p in self.violations:
            print(f"VIOLATION property={self.prop} replay={p}")
            print(f"  {w}")
        print(f"[{self.prop}] tier={tier()} queries={cov['queries']} unsat={cov['unsat']} "
              f"sat_replayed={cov['sat_replayed']} not_reproduced={cov['sat_not_reproduced']} "
              f"inconclusive={cov['inconclusive']} refused={cov.get('refused',0)} "
              f"unsupported={cov.get('skipped_unsupported',0)} solver_s={cov['solver_s']} "
              f"wall_s={ev['wall_s']}")
        if self.violations:
            return EXIT_VIOLATION
        if self.harness_errors or cov["sat_not_reproduced"]:
            for m in self.harness_errors[:10]:
                print("HARNESS-ERROR:", m)
            if cov["sat_not_reproduced"]:
                print("HARNESS-ERROR: solver models that did not reproduce:", cov["sat_not_reproduced"])
            return EXIT_HARNESS
        if cov["queries"] and cov["queries"] == cov["inconclusive"]:
            print("HARNESS-ERROR: every query inconclusive")
            return EXIT_HARNESS
        return EXIT_OK


def solver_id():
    try:
        import z3
        return "z3 " + z3.get_version_string()
    except Exception:  # pylint: disable=broad-except
        return "?"


# ---------------------------------------------------------------- parallel map
def pmap(fn, items, workers=None, chunksize=1):
    """Process-parallel map (fork). fn must be a module-level function. Results in order.
    Exceptions in a worker are returned as ('__exc__', traceback)."""
    import multiprocessing as mp
    items = list(items)
    workers = min(workers or nworkers(), max(1, len(items)))
    if workers <= 1 or os.environ.get("VERIF_SERIAL"):
        return [_guard(fn, x) for x in items]
    ctx = mp.get_context("fork")
    with ctx.Pool(workers) as pool:
        return pool.map(_Guard(fn), items, chunksize)


class _Guard:
    def __init__(self, fn):
        self.fn = fn

    def __call__(self, x):
        return _guard(self.fn, x)


def _guard(fn, x):
    try:
        return fn(x)
    except Exception:  # pylint: disable=broad-except
        return ("__exc__", traceback.format_exc())


def main_wrapper(run):
    """Run a check's main(); any uncaught exception is a harness error (exit 2)."""
    try:
        rc = run()
    except SystemExit:
        raise
    except BaseException:  # pylint: disable=broad-except
        traceback.print_exc()
        print("HARNESS-ERROR: uncaught exception in check")
        rc = EXIT_HARNESS
    sys.stdout.flush()
    sys.exit(rc)
