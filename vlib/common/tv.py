"""Translation-validation driver shared by the E1 checks: run real PSyclone code
concretely on a generated program, execute original and result symbolically,
decide equivalence with z3, replay counterexamples with gfortran."""
import hashlib
import time
import traceback

from vlib.fsym import equiv
from vlib.fsym.interp import Unsupported


def reader():
    from psyclone.psyir.frontend.fortran import FortranReader
    return FortranReader()


def writer():
    from psyclone.psyir.backend.fortran import FortranWriter
    return FortranWriter()


def read_psyir(src):
    return reader().psyir_from_source(src)


def write_psyir(psyir):
    return writer()(psyir)


def text_hash(s):
    return hashlib.sha1(s.encode()).hexdigest()[:12]


def decide(src1, src2, routine, K, E, key, timeout_ms=20000, flags=(), setup=None,
           check_oob=False):
    """Compare two texts; returns an outcome dict (picklable)."""
    out = {"key": key, "status": None, "solver_s": 0.0, "nontrivial": False,
           "h": text_hash(src1 + "\0" + src2)}
    t0 = time.time()
    try:
        res = equiv.compare(src1, src2, routine, K=K, E=E, timeout_ms=timeout_ms, setup=setup,
                            check_oob=check_oob)
    except Unsupported as e:
        out["status"] = "unsupported"
        out["why"] = str(e)
        # the transformed text may simply not be valid Fortran (undeclared or mis-ordered entity):
        # decided by the compiler, not by the solver
        try:
            equiv.build(src1, routine, K, E, setup=setup)
            ok2, err2 = gfortran_syntax(src2)
            if ok2 is False:
                ok1, _ = gfortran_syntax(src1)
                if ok1:
                    out["status"] = "does_not_compile"
                    out["why"] = err2[-400:]
                    out["replay_text"] = ("! ---- original ----\n" + src1 + "\n! ---- transformed ----\n" + src2 +
                                          "\n! ---- gfortran -fsyntax-only ----\n" + err2)
        except Unsupported:
            pass
        return out
    out["solver_s"] = res.solver_s
    out["nontrivial"] = bool(res.nontrivial)
    out["reach"] = res.reach
    if res.verdict == "vacuous":
        out["status"] = "vacuous"
        return out
    if res.verdict == "unsat":
        out["status"] = "unsat"
        if res.oob is not None:
            out["oob"] = True
        return out
    if res.verdict == "unknown":
        out["status"] = "unknown"
        return out
    ok, text = equiv.replay(res, src1, src2, routine, flags=flags)
    out["diff"] = res.diff
    out["key"] = dict(key, params=dict(key.get("params", {}), zero_trip_only=bool(res.zero_trip_only)))
    out["replay_text"] = text
    if ok is True:
        out["status"] = "sat_replayed"
    elif ok is False:
        out["status"] = "sat_not_reproduced"
    else:
        out["status"] = "sat_unreplayable"
    out["wall"] = time.time() - t0
    return out


def gfortran_syntax(src):
    import os
    import shutil
    import subprocess
    import tempfile
    d = tempfile.mkdtemp(prefix="tvsyn_")
    try:
        with open(os.path.join(d, "u.f90"), "w", encoding="utf-8") as fh:
            fh.write(src)
        try:
            p = subprocess.run(["gfortran", "-fsyntax-only", "-fimplicit-none", "-ffree-line-length-none", "u.f90"],
                               cwd=d, capture_output=True, text=True, timeout=300)
        except subprocess.TimeoutExpired:
            return None, "timeout"
        return p.returncode == 0, p.stderr[-1500:]
    finally:
        shutil.rmtree(d, ignore_errors=True)


def aggregate(chk, outcomes, unit_of=lambda k: k.get("unit")):
    """Fold worker outcomes into the Check."""
    seen = set()
    for o in outcomes:
        if isinstance(o, tuple) and o and o[0] == "__exc__":
            chk.harness_error("worker exception: " + o[1][-800:])
            continue
        st = o["status"]
        chk.evaluations += 1
        if st == "refused":
            chk.count("refused")
            continue
        if st == "unsupported":
            chk.count("skipped_unsupported")
            chk.cov.setdefault("unsupported_reasons", {})
            r = o.get("why", "?")[:60]
            chk.cov["unsupported_reasons"][r] = chk.cov["unsupported_reasons"].get(r, 0) + 1
            continue
        if st == "does_not_compile":
            chk.count("non_solver_obligations")
            k = dict(o["key"], params=dict(o["key"].get("params", {}), what="does not compile"))
            chk.report(k, f"{o['key'].get('unit')} on {o['key'].get('template')} {o['key'].get('params')}: the "
                       f"transformed code does not compile: {o.get('why', '')[:200]}", o.get("replay_text", ""))
            continue
        if st == "psyclone_error":
            chk.cov["by_products"].append({"key": o["key"], "error": o.get("why", "")[:300]})
            continue
        chk.count("queries")
        chk.cov["solver_s"] += o.get("solver_s", 0.0)
        if o.get("reach") == "sat":
            chk.count("reachability_twins_ok")
        if o.get("nontrivial") and o["h"] not in seen:
            seen.add(o["h"])
            chk.nontrivial.add(o["h"])
        if st == "unsat":
            chk.count("unsat")
            chk.sample({"key": o["key"], "verdict": "unsat"})
        elif st in ("unknown", "vacuous"):
            chk.count("inconclusive")
            chk.cov.setdefault("inconclusive_list", []).append({"key": o["key"], "status": st})
            if st == "vacuous":
                chk.count("reachability_twins_failed")
        elif st == "sat_replayed":
            chk.count("sat_replayed")
            r = chk.report(o["key"], f"{o['key'].get('unit')} on {o['key'].get('template')} "
                           f"{o['key'].get('params')}: observable {o.get('diff')} differs",
                           o.get("replay_text", ""))
            chk.sample({"key": o["key"], "verdict": "sat (replayed with gfortran): " + r})
        elif st == "sat_not_reproduced":
            chk.count("sat_not_reproduced")
            chk.harness_error(f"model did not reproduce for {o['key']}")
            p = chk.replay_path("NOT_REPRODUCED_" + o["h"] + ".txt")
            with open(p, "w", encoding="utf-8") as fh:
                fh.write(str(o["key"]) + "\n" + o.get("replay_text", ""))
        elif st == "sat_unreplayable":
            chk.count("inconclusive")
            chk.cov["by_products"].append({"key": o["key"], "unreplayable": o.get("replay_text", "")[:300]})


def safe_apply(fn):
    """Run a PSyclone transformation; classify the exception."""
    from psyclone.psyir.transformations import TransformationError
    try:
        fn()
        return "ok", None
    except TransformationError as e:
        return "refused", str(e)[:200]
    except Exception as e:  # pylint: disable=broad-except
        return "error", f"{type(e).__name__}: {e}"[:300] + "\n" + traceback.format_exc()[-600:]


def enumerate_apps(psyir, trans_specs):
    """trans_specs: [(name, factory, node_filter, options)].  Returns the list of
    (name, node_index, options, validated_ok, refusal) for every node passing the filter."""
    from psyclone.psyir.nodes import Node
    from psyclone.psyir.transformations import TransformationError
    out = []
    nodes = psyir.walk(Node)
    for name, factory, flt, options in trans_specs:
        for idx, node in enumerate(nodes):
            try:
                if not flt(node):
                    continue
            except Exception:  # pylint: disable=broad-except
                continue
            try:
                factory().validate(node, options) if options is not None else factory().validate(node)
                out.append((name, idx, options, True, None))
            except TransformationError as e:
                out.append((name, idx, options, False, str(e)[:160]))
            except Exception as e:  # pylint: disable=broad-except
                out.append((name, idx, options, None, f"{type(e).__name__}: {e}"[:200]))
    return out


def run_apps(case, trans_specs, K, E, routine=None, check_oob=False, describe=None):
    """Generic worker body: for each validated application re-read the source, apply,
    write, decide equivalence against the written original."""
    from psyclone.psyir.nodes import Node
    outs = []
    src = case["src"]
    routine = routine or case["routine"]
    try:
        base = read_psyir(src)
        base_txt = write_psyir(base)
    except Exception as e:  # pylint: disable=broad-except
        return [{"key": {"unit": "reader/writer", "template": case["template"], "params": case["params"]},
                 "status": "psyclone_error", "why": f"{type(e).__name__}: {e}"[:300]}]
    spec = {n: (f, o) for n, f, _, o in trans_specs}
    for name, idx, options, ok, why in enumerate_apps(base, trans_specs):
        node_desc = describe(base.walk(Node)[idx]) if describe else idx
        key = {"unit": name, "template": case["template"],
               "params": dict(case["params"], node=node_desc, **(options or {}))}
        if ok is False:
            outs.append({"key": key, "status": "refused", "why": why})
            continue
        if ok is None:
            outs.append({"key": key, "status": "psyclone_error", "why": "validate: " + why})
            continue
        p = read_psyir(src)
        node = p.walk(Node)[idx]
        factory = spec[name][0]
        st, why = safe_apply(lambda: factory().apply(node, options) if options is not None
                             else factory().apply(node))
        if st == "refused":
            outs.append({"key": key, "status": "refused", "why": why})
            continue
        if st == "error":
            outs.append({"key": key, "status": "psyclone_error", "why": why})
            continue
        try:
            new_txt = write_psyir(p)
        except Exception as e:  # pylint: disable=broad-except
            outs.append({"key": key, "status": "psyclone_error", "why": f"writer: {type(e).__name__}: {e}"[:300]})
            continue
        if new_txt == base_txt:
            outs.append({"key": key, "status": "refused", "why": "no change"})
            continue
        outs.append(decide(base_txt, new_txt, routine, K, E, key, check_oob=check_oob))
    return outs
