"""fsym: bounded, merged symbolic execution of Fortran (fparser2 parse tree) into z3.

Front end F of DESIGN.md section 3.  The semantics is written from the Fortran
standard, never via PSyclone's own lowering.  Anything not handled raises
Unsupported (the case is skipped and counted by the caller, never passed)."""
import z3
from fparser.two import Fortran2003 as F
from fparser.two.utils import walk
from fparser.two.parser import ParserFactory
from fparser.common.readfortran import FortranStringReader

from .terms import (I, R, B, AND, OR, NOT, ITE, intval, tdiv, tmod, fmodulo, to_real,
                    trunc, nint, coerce, numeric_pair, uf, power, sort_of, arr_sort,
                    select, store, simp)


class Unsupported(Exception):
    pass


_PARSER = None


_ADJ = None
NONSTANDARD = {"adjacent_operators": 0}


def _fix_adjacent_operators(src):
    """`a * -1.0` (two adjacent operators) is not standard Fortran and fparser2 rejects
    it although every compiler accepts it with the obvious meaning `a * (-1.0)`.  The
    writer emits it for negative literals; it is normalised here (and counted) so that
    the semantics can still be decided."""
    global _ADJ
    import re
    if _ADJ is None:
        _ADJ = re.compile(r"(\*\*|[*/+\-])(\s*)-\s*(\d+(?:\.\d*)?(?:[edED][+-]?\d+)?(?:_\w+)?)")
    out = []
    for line in src.split("\n"):
        if line.lstrip().startswith("!"):
            out.append(line)
            continue
        prev = None
        while prev != line:
            prev = line
            line = _ADJ.sub(lambda m: f"{m.group(1)}{m.group(2)}(-{m.group(3)})", line)
        out.append(line)
    return "\n".join(out)


def parse(src):
    global _PARSER
    from fparser.two.utils import FortranSyntaxError
    if _PARSER is None:
        _PARSER = ParserFactory().create(std="f2008")
    try:
        return _PARSER(FortranStringReader(src, ignore_comments=False))
    except FortranSyntaxError as e:
        fixed = _fix_adjacent_operators(src)
        if fixed != src:
            try:
                t = _PARSER(FortranStringReader(fixed, ignore_comments=False))
                NONSTANDARD["adjacent_operators"] += 1
                return t
            except FortranSyntaxError:
                pass
        raise Unsupported("fparser2 syntax error: " + str(e)[:120]) from e


def lname(n):
    return str(n).lower()


class ArrVal:
    """An array-valued expression: extents (terms) and an element function of
    0-based offsets."""

    def __init__(self, extents, elem, tname):
        self.extents = list(extents)
        self.elem = elem
        self.tname = tname

    @property
    def rank(self):
        return len(self.extents)


class Binding:
    """A name in a frame.  Scalars: key + fixed storage index (() for plain scalars).
    Arrays: key, bounds [(lb, ub)], and map(idx)->storage idx."""

    def __init__(self, name, tname, key, rank=0, bounds=None, amap=None, fixed=(),
                 is_param=False, intent=None, struct=None):
        self.name, self.tname, self.key = name, tname, key
        self.rank, self.bounds, self.amap, self.fixed = rank, bounds or [], amap, fixed
        self.is_param, self.intent, self.struct = is_param, intent, struct
        self.present = True

    def smap(self, idx):
        return self.amap(idx) if self.amap else tuple(idx)


class LoopCtl:
    def __init__(self, name):
        self.name = name
        self.exit = z3.BoolVal(False)
        self.cycle = z3.BoolVal(False)


class Frame:
    def __init__(self, routine, name):
        self.routine, self.name = routine, name
        self.vars = {}
        self.ret = z3.BoolVal(False)
        self.loops = []
        self.gotos = {}         # label -> guard of pending forward GOTOs
        self.gotos_depth = {}
        self.result_name = None


class Event:
    __slots__ = ("guard", "kind", "key", "idx", "stmt", "iters", "extra")

    def __init__(self, guard, kind, key, idx, stmt, iters, extra=None):
        self.guard, self.kind, self.key, self.idx = guard, kind, key, idx
        self.stmt, self.iters, self.extra = stmt, iters, extra

    def __repr__(self):
        return f"<{self.kind} {self.key}{list(self.idx)} @{self.stmt} it={self.iters}>"


ELEMENTAL_UF = {"sqrt", "exp", "log", "log10", "sin", "cos", "tan", "asin", "acos", "atan",
                "sinh", "cosh", "tanh", "aint", "anint", "floor", "ceiling", "atan2"}


class Interp:
    def __init__(self, src, K=3, E=3, prefix="", trace=False, maxconc=40, tree=None):
        self.src = src
        self.tree = tree if tree is not None else parse(src)
        self.K, self.E, self.prefix, self.maxconc = K, E, prefix, maxconc
        self.trace_on = trace
        self.routines = {}      # name -> (node, module name or None)
        self.modules = {}       # name -> module node
        self.dtypes = {}        # derived type name -> {comp: (tname, rank, dtype)}
        self.struct_hints = {}  # flattened key -> (tname, rank)
        self.comp_literal_bounds = {}   # storage key -> literal bounds actually used
        self.comp_shapes = {}   # (type name, component) -> [(lb, ub)] literal bounds or None
        self.store = {}         # storage key -> z3 term
        self.meta = {}          # storage key -> (tname, rank)
        self.inputs = {}        # storage key -> initial term (symbolic inputs)
        self.globals = {}       # module var bindings
        self.bound_assumptions = []
        self.inbounds = []
        self.conformance = []       # (dummy, condition): explicit-shape dummy fits its actual (subset of inbounds)
        self.nonzero_conds = []     # the division-by-zero part of `inbounds`
        self.assumptions = []
        self.trace = []
        self.iters = []         # stack of (loop id, k, value term)
        self.out = z3.K(I, z3.RealVal(0))
        self.out_cnt = z3.IntVal(0)
        self.callcount = 0
        self.fresh = 0
        self.cur_stmt = None
        self.stmt_ids = {}
        self.extern_handler = None     # fn(interp, name, args(list of (kind,val,lref)), frame, guard) -> bool
        self.comment_handler = None    # fn(interp, text, frame, guard)
        self.loop_hook = None          # fn(interp, do_node, frame, guard) -> True if handled
        self.depth = 0
        self.summarised = 0
        self.trips = []         # (guard, trip term) of every counted DO loop
        self.int_divs = []      # (numerator, denominator) of every integer division evaluated
        self.int_mods = []      # (a, p) of every integer MOD evaluated
        self.concrete_inputs = {}   # storage key / extent name -> concrete z3 value (replay mode)
        self.check_kinds = True          # a named kind in a literal must be declared before use
        self.allow_save_struct = False   # accept `type(x), save, target :: v` locals (PSyData handles)
        self.eguard = None      # element guard while an array-valued expression's element is evaluated
        self.gcur = None        # guard of the expression being evaluated (for conformance hypotheses)
        self._collect()

    # ------------------------------------------------------------ program structure
    def _collect(self):
        for unit in self.tree.content:
            if isinstance(unit, F.Module):
                mname = lname(unit.content[0].items[1])
                self.modules[mname] = unit
                for part in unit.content:
                    if isinstance(part, F.Module_Subprogram_Part):
                        for sp in part.content:
                            self._add_routine(sp, mname)
                    if isinstance(part, F.Specification_Part):
                        self._collect_types(part)
            elif isinstance(unit, (F.Subroutine_Subprogram, F.Function_Subprogram)):
                self._add_routine(unit, None)
            elif isinstance(unit, F.Main_Program):
                self.routines["__main__"] = (unit, None)
                for part in unit.content:
                    if isinstance(part, F.Internal_Subprogram_Part):
                        for sp in part.content:
                            self._add_routine(sp, None)
                    if isinstance(part, F.Specification_Part):
                        self._collect_types(part)
            elif isinstance(unit, F.Comment):
                continue
            else:
                raise Unsupported(f"program unit {type(unit).__name__}")

    def _add_routine(self, sp, mname):
        if isinstance(sp, (F.Subroutine_Subprogram, F.Function_Subprogram)):
            self.routines[lname(sp.content[0].items[1])] = (sp, mname)
            for part in sp.content:
                if isinstance(part, F.Specification_Part):
                    self._collect_types(part)
                if isinstance(part, F.Internal_Subprogram_Part):
                    raise Unsupported("internal subprogram")

    def _collect_types(self, spec):
        for d in spec.content:
            if isinstance(d, F.Derived_Type_Def):
                tn = lname(d.content[0].items[1])
                comps = {}
                for c in d.content:
                    if isinstance(c, F.Component_Part):
                        for dc in c.content:
                            if isinstance(dc, F.Data_Component_Def_Stmt):
                                tname, dtype = self._type_of_spec(dc.items[0])
                                rank_attr = 0
                                shape_attr = None
                                if dc.items[1] is not None:
                                    for a in dc.items[1].items:
                                        if isinstance(a, F.Dimension_Component_Attr_Spec):
                                            rank_attr = len(a.items[1].items)
                                            shape_attr = a.items[1]
                                for ent in dc.items[2].items:
                                    rank = rank_attr
                                    shape = shape_attr
                                    if ent.items[1] is not None:
                                        rank = len(ent.items[1].items)
                                        shape = ent.items[1]
                                    comps[lname(ent.items[0])] = (tname, rank, dtype)
                                    self.comp_shapes[(tn, lname(ent.items[0]))] = self._literal_shape(shape)
                self.dtypes[tn] = comps

    def _literal_shape(self, shape):
        """[(lb, ub)] when every bound of a component's explicit shape is an integer literal."""
        if shape is None:
            return None
        out = []
        for sp in shape.items:
            if not isinstance(sp, F.Explicit_Shape_Spec):
                return None
            try:
                lb = int(str(sp.items[0])) if sp.items[0] is not None else 1
                ub = int(str(sp.items[1]))
            except ValueError:
                return None
            out.append((lb, ub))
        return out

    def _type_of_spec(self, spec):
        if isinstance(spec, F.Intrinsic_Type_Spec):
            t = str(spec.items[0]).lower()
            if t.startswith("double"):
                return "real", None
            if t in ("integer", "real", "logical"):
                return t, None
            raise Unsupported("type " + t)
        if isinstance(spec, F.Declaration_Type_Spec):
            return "struct", lname(spec.items[1])
        raise Unsupported("type spec " + type(spec).__name__)

    # ------------------------------------------------------------ storage
    def new_storage(self, key, tname, rank, init=None, is_input=False):
        if tname == "struct":
            self.meta[key] = (tname, rank)
            return
        srt = arr_sort(sort_of(tname), rank)
        if init is None:
            init = z3.Const(key, srt)
            if is_input and key in self.concrete_inputs:
                init = self.concrete_inputs[key]
        self.store[key] = init
        self.meta[key] = (tname, rank)
        if is_input:
            self.inputs[key] = init

    def sid(self, node):
        k = id(node)
        if k not in self.stmt_ids:
            self.stmt_ids[k] = (len(self.stmt_ids), node)
        return self.stmt_ids[k][0]

    def ev_event(self, guard, kind, key, idx, extra=None):
        if self.trace_on:
            self.trace.append(Event(guard, kind, key, tuple(idx), self.cur_stmt,
                                    tuple(self.iters), self.depth if extra is None else extra))

    def read(self, key, idx, guard):
        if key not in self.store:
            raise Unsupported("read of " + key)
        self.ev_event(guard, "R", key, idx)
        return select(self.store[key], idx) if idx else self.store[key]

    def write(self, key, idx, val, guard):
        if key not in self.store:
            raise Unsupported("write of " + key)
        self.ev_event(guard, "W", key, idx)
        tname, _ = self.meta[key]
        val = coerce(val, sort_of(tname))
        if idx:
            a = self.store[key]
            old = select(a, idx)
            self.store[key] = store(a, idx, ITE(guard, val, old))
        else:
            self.store[key] = ITE(guard, val, self.store[key])

    # ------------------------------------------------------------ liveness
    def live(self, frame, guard):
        dead = [frame.ret] + [l.exit for l in frame.loops] + [l.cycle for l in frame.loops] + \
            list(frame.gotos.values())
        return AND(guard, NOT(OR(*dead)))

    # ------------------------------------------------------------ entry points
    def run(self, rname, arg_terms=None, ext_prefix="in_"):
        """Execute routine `rname` from a symbolic state.  Returns the frame."""
        rname = rname.lower()
        if rname not in self.routines:
            raise Unsupported("no routine " + rname)
        node, mname = self.routines[rname]
        frame = Frame(node, rname)
        self._enter_modules(node, mname)
        self._declare(node, frame, actuals=None, top=True, guard=z3.BoolVal(True))
        self.top_frame = frame
        self.exec_routine_body(node, frame, z3.BoolVal(True))
        return frame

    def _enter_modules(self, node, mname):
        if mname and mname not in getattr(self, "_mods_done", set()):
            self._mods_done = getattr(self, "_mods_done", set()) | {mname}
            mod = self.modules[mname]
            gf = Frame(mod, mname)
            gf.vars = self.globals
            for part in mod.content:
                if isinstance(part, F.Specification_Part):
                    self._declare_spec(part, gf, dummies=[], actuals=None, top=True,
                                       guard=z3.BoolVal(True), keyprefix="g_")

    def exec_routine_body(self, node, frame, guard):
        for part in node.content:
            if isinstance(part, F.Specification_Part) and self.comment_handler is not None:
                # a directive placed before the first executable statement is parsed as a
                # comment of the specification part
                for c in walk(part, F.Comment):
                    if str(c).strip().startswith("!$"):
                        self.comment_handler(self, str(c), frame, guard)
            if isinstance(part, F.Execution_Part):
                if self.depth == 0 and self.trace_on:
                    # top-level statement boundaries in the event trace (for region queries)
                    self.top_marks = []
                    for st in part.content:
                        if not isinstance(st, F.Comment):
                            self.top_marks.append(len(self.trace))
                        self.exec_stmt(st, frame, guard)
                    self.top_marks.append(len(self.trace))
                else:
                    self.exec_block(part.content, frame, guard)
                if frame.gotos:
                    raise Unsupported("goto to a label that is not reached going forward")

    # ------------------------------------------------------------ declarations
    def _declare(self, node, frame, actuals, top, guard):
        stmt = node.content[0]
        dummies = []
        if isinstance(stmt, (F.Subroutine_Stmt, F.Function_Stmt)):
            if stmt.items[2] is not None:
                dummies = [lname(x) for x in stmt.items[2].items]
        if isinstance(stmt, F.Function_Stmt):
            res = lname(stmt.items[1])
            if stmt.items[3] is not None:
                sfx = stmt.items[3]
                if isinstance(sfx, F.Suffix) and sfx.items[0] is not None:
                    res = lname(sfx.items[0])
                elif not isinstance(sfx, F.Suffix):
                    raise Unsupported("function suffix")
            frame.result_name = res
            if stmt.items[0] is not None:
                pre = stmt.items[0]
                for p in (pre.items if isinstance(pre, F.Prefix) else [pre]):
                    if isinstance(p, (F.Intrinsic_Type_Spec, F.Declaration_Type_Spec)):
                        tname, _ = self._type_of_spec(p)
                        self.callcount += 1
                        key = f"{self.prefix}res_{frame.name}_{self.callcount}"
                        self.new_storage(key, tname, 0, init=self._undef(frame, res, tname, 0))
                        frame.vars[res] = Binding(res, tname, key)
        spec = None
        for part in node.content:
            if isinstance(part, F.Specification_Part):
                spec = part
        frame.dummies = dummies
        self.callcount += 1
        kp = f"{self.prefix}l{self.callcount}_{frame.name}_"
        if spec is not None:
            self._declare_spec(spec, frame, dummies, actuals, top, guard, kp)
        for d in dummies:
            if d not in frame.vars:
                raise Unsupported("undeclared dummy " + d)
        if frame.result_name and frame.result_name not in frame.vars:
            raise Unsupported("untyped function result")

    def _undef(self, frame, name, tname, rank):
        return z3.Const(f"undef_{frame.name}_{name}", arr_sort(sort_of(tname), rank))

    def _declare_spec(self, spec, frame, dummies, actuals, top, guard, keyprefix):
        for d in spec.content:
            if isinstance(d, (F.Implicit_Part, F.Comment, F.Derived_Type_Def, F.Interface_Block,
                              F.Access_Stmt)):
                if isinstance(d, F.Implicit_Part):
                    for x in d.content:
                        if isinstance(x, F.Implicit_Stmt) and "NONE" not in str(x).upper():
                            raise Unsupported("implicit typing")
                        if isinstance(x, F.Parameter_Stmt):
                            self._parameter_stmt(x, frame, guard)
                            continue
                        if isinstance(x, (F.Format_Stmt, F.Entry_Stmt)):
                            raise Unsupported(type(x).__name__)
                continue
            if isinstance(d, F.Use_Stmt):
                mn = lname(d.items[2])
                if mn in self.modules:
                    self._enter_modules(None, mn)
                    continue
                if self.use_handler(d, frame):
                    continue
                raise Unsupported("use of external module " + mn)
            if isinstance(d, F.Type_Declaration_Stmt):
                self._declare_stmt(d, frame, dummies, actuals, top, guard, keyprefix)
                continue
            raise Unsupported("declaration " + type(d).__name__)

    def _parameter_stmt(self, x, frame, guard):
        """PARAMETER (name = expr, ...): the named entity (typed by an earlier declaration) becomes a constant"""
        defs = x.items[1]
        defs = defs.items if isinstance(defs, F.Named_Constant_Def_List) else [defs]
        for d in defs:
            name = lname(d.items[0])
            b = frame.vars.get(name)
            if b is None or b.rank or b.tname == "struct":
                raise Unsupported("PARAMETER statement for " + name)
            val = self.ev(d.items[1], frame, guard)
            self.store[b.key] = coerce(val, sort_of(b.tname))
            b.is_param = True

    def use_handler(self, d, frame):   # overridable
        return False

    def _declare_stmt(self, d, frame, dummies, actuals, top, guard, keyprefix):
        tname, dtype = self._type_of_spec(d.items[0])
        attrs = d.items[1].items if d.items[1] is not None else []
        dims, is_param, intent, optional = None, False, None, False
        is_save = False
        for a in attrs:
            if isinstance(a, F.Dimension_Attr_Spec):
                dims = a.items[1]
            elif isinstance(a, F.Intent_Attr_Spec):
                intent = str(a.items[1]).lower()
            elif isinstance(a, F.Attr_Spec):
                s = str(a).upper()
                if s == "PARAMETER":
                    is_param = True
                elif s == "OPTIONAL":
                    optional = True
                elif s in ("SAVE", "TARGET", "PUBLIC", "PRIVATE", "CONTIGUOUS", "VALUE") \
                        and (frame.vars is self.globals or (self.allow_save_struct and tname == "struct")):
                    pass
                elif s in ("TARGET", "CONTIGUOUS"):
                    pass
                elif s == "SAVE":
                    is_save = True
                else:
                    raise Unsupported("attribute " + s)
            elif isinstance(a, F.Access_Spec):
                pass
            else:
                raise Unsupported("attribute " + type(a).__name__)
        for ent in d.items[2].items:
            name = lname(ent.items[0])
            shape = ent.items[1] if ent.items[1] is not None else dims
            if ent.items[2] is not None:
                raise Unsupported("char length")
            init = ent.items[3]
            if name in dummies:
                if actuals is None:
                    self._declare_input(name, tname, dtype, shape, frame, intent)
                else:
                    self._bind_dummy(name, tname, dtype, shape, frame, actuals.get(name),
                                     guard, optional, intent)
                continue
            if is_param:
                if init is None or shape is not None:
                    raise Unsupported("array parameter")
                val = self.ev(init.items[1], frame, guard)
                key = keyprefix + name
                self.new_storage(key, tname, 0, init=coerce(val, sort_of(tname)))
                frame.vars[name] = Binding(name, tname, key, is_param=True)
                continue
            if (init is not None or is_save) and frame.vars is not self.globals \
                    and frame.name != "__main__" and tname != "struct":
                # static storage: one location shared by every invocation, initialised once
                key = f"{self.prefix}save_{frame.name}_{name}"
                if shape is not None:
                    # initialised (static) local array: constructor or scalar broadcast
                    bounds = self._explicit_bounds(shape, frame, guard)
                    if len(bounds) != 1:
                        raise Unsupported("SAVE array of rank > 1")
                    if key not in self.store:
                        if init is None:
                            arr = z3.Const(f"undef_save_{frame.name}_{name}", arr_sort(sort_of(tname), 1))
                        else:
                            iv = self.ev(init.items[1], frame, guard)
                            lb = bounds[0][0]
                            if isinstance(iv, ArrVal):
                                n = intval(simp(iv.extents[0]))
                                if n is None:
                                    raise Unsupported("symbolic array initialiser")
                                arr = z3.K(I, coerce(iv.elem([z3.IntVal(0)]), sort_of(tname))) if n else \
                                    z3.Const(f"undef_save_{frame.name}_{name}", arr_sort(sort_of(tname), 1))
                                for k in range(n):
                                    arr = z3.Store(arr, simp(lb + k), coerce(iv.elem([z3.IntVal(k)]), sort_of(tname)))
                            else:
                                arr = z3.K(I, coerce(iv, sort_of(tname)))
                        self.new_storage(key, tname, 1, init=arr)
                    frame.vars[name] = Binding(name, tname, key, rank=1, bounds=bounds)
                    continue
                if key not in self.store:
                    if init is not None:
                        iv = coerce(self.ev(init.items[1], frame, guard), sort_of(tname))
                    else:
                        iv = z3.Const(f"undef_save_{frame.name}_{name}", sort_of(tname))
                    self.new_storage(key, tname, 0, init=iv)
                frame.vars[name] = Binding(name, tname, key)
                continue
            key = keyprefix + name
            if frame.result_name == name and name in frame.vars:
                continue
            if tname == "struct":
                rank = len(shape.items) if shape is not None else 0
                self.new_storage(key, "struct", rank)
                frame.vars[name] = Binding(name, "struct", key, rank=rank, struct=dtype)
                continue
            is_global = frame.vars is self.globals
            if shape is None:
                if is_global:
                    self.new_storage(key, tname, 0, is_input=True)
                elif init is not None:
                    self.new_storage(key, tname, 0, init=coerce(self.ev(init.items[1], frame, guard),
                                                                sort_of(tname)))
                else:
                    self.new_storage(key, tname, 0, init=self._undef(frame, name, tname, 0))
                frame.vars[name] = Binding(name, tname, key)
            else:
                bounds = self._explicit_bounds(shape, frame, guard)
                rank = len(bounds)
                if is_global:
                    self.new_storage(key, tname, rank, is_input=True)
                else:
                    self.new_storage(key, tname, rank, init=self._undef(frame, name, tname, rank))
                frame.vars[name] = Binding(name, tname, key, rank=rank, bounds=bounds)

    def _explicit_bounds(self, shape, frame, guard):
        bounds = []
        for s in shape.items:
            if isinstance(s, F.Explicit_Shape_Spec):
                lb = self.ev(s.items[0], frame, guard) if s.items[0] is not None else z3.IntVal(1)
                ub = self.ev(s.items[1], frame, guard)
                bounds.append((lb, ub))
            else:
                raise Unsupported("local shape " + type(s).__name__)
        return bounds

    def _declare_input(self, name, tname, dtype, shape, frame, intent):
        """Top-level dummy: a symbolic input."""
        key = f"in_{name}"
        tt = z3.BoolVal(True)
        if tname == "struct":
            rank = len(shape.items) if shape is not None else 0
            self.new_storage(key, "struct", rank)
            frame.vars[name] = Binding(name, "struct", key, rank=rank, struct=dtype, intent=intent)
            return
        if shape is None:
            self.new_storage(key, tname, 0, is_input=True)
            frame.vars[name] = Binding(name, tname, key, intent=intent)
            return
        bounds = []
        for dpos, s in enumerate(shape.items):
            if isinstance(s, F.Explicit_Shape_Spec):
                lb = self.ev(s.items[0], frame, tt) if s.items[0] is not None else z3.IntVal(1)
                ub = self.ev(s.items[1], frame, tt)
            elif isinstance(s, F.Assumed_Shape_Spec):
                lb = self.ev(s.items[0], frame, tt) if s.items[0] is not None else z3.IntVal(1)
                ext = z3.Int(f"ext_{name}_{dpos}")
                self.assumptions.append(ext >= 0)
                self.inputs[f"ext_{name}_{dpos}"] = ext
                ext = self.concrete_inputs.get(f"ext_{name}_{dpos}", ext)
                ub = lb + ext - 1
            else:
                raise Unsupported("shape " + type(s).__name__)
            bounds.append((lb, ub))
        self.new_storage(key, tname, len(bounds), is_input=True)
        frame.vars[name] = Binding(name, tname, key, rank=len(bounds), bounds=bounds, intent=intent)

    def _bind_dummy(self, name, tname, dtype, shape, frame, actual, guard, optional, intent):
        if actual is None:
            if not optional:
                raise Unsupported("missing actual for " + name)
            b = Binding(name, tname, None)
            b.present = False
            frame.vars[name] = b
            return
        kind = actual[0]
        if tname == "struct":
            if kind != "struct":
                raise Unsupported("struct dummy with non-struct actual")
            b = actual[1]
            frame.vars[name] = Binding(name, "struct", b.key, rank=b.rank, struct=b.struct)
            return
        if shape is None:
            if kind == "value":
                self.callcount += 1
                key = f"{self.prefix}tmp{self.callcount}_{name}"
                self.new_storage(key, tname, 0, init=coerce(actual[1], sort_of(tname)))
                frame.vars[name] = Binding(name, tname, key, intent=intent)
            elif kind == "scalar":
                _, key, idx, atname = actual
                if atname != tname:
                    raise Unsupported("type mismatch in argument " + name)
                frame.vars[name] = Binding(name, tname, key, fixed=tuple(idx), intent=intent)
            else:
                raise Unsupported("array actual for scalar dummy")
            return
        # array dummy
        if kind == "arrval":
            av = actual[1]
            self.callcount += 1
            key = f"{self.prefix}tmp{self.callcount}_{name}"
            self.new_storage(key, tname, av.rank,
                             init=self._undef(frame, f"tmp{self.callcount}", tname, av.rank))
            exts = av.extents
            self._store_arrval(key, lambda ks: tuple(ks), exts, av, guard, tname)
            actual = ("section", key, exts, (lambda ks: tuple(ks)), tname)
            kind = "section"
        if kind != "section":
            raise Unsupported("scalar actual for array dummy")
        _, key, exts, smap, atname = actual
        if atname != tname:
            raise Unsupported("type mismatch in argument " + name)
        if len(shape.items) != len(exts):
            raise Unsupported("rank-changing argument association")
        bounds = []
        lbs = []
        for dpos, s in enumerate(shape.items):
            if isinstance(s, F.Assumed_Shape_Spec):
                lb = self.ev(s.items[0], frame, guard) if s.items[0] is not None else z3.IntVal(1)
                ub = lb + exts[dpos] - 1
            elif isinstance(s, F.Explicit_Shape_Spec):
                lb = self.ev(s.items[0], frame, guard) if s.items[0] is not None else z3.IntVal(1)
                ub = self.ev(s.items[1], frame, guard)
                # conformance: dummy extent must not exceed the actual's
                self.inbounds.append(z3.Implies(guard, ub - lb + 1 <= exts[dpos]))
                self.conformance.append((f"{frame.name}:{name} dimension {dpos + 1}",
                                         z3.Implies(guard, ub - lb + 1 <= exts[dpos])))
            else:
                raise Unsupported("dummy shape " + type(s).__name__)
            bounds.append((lb, ub))
            lbs.append(lb)

        def amap(idx, smap=smap, lbs=lbs):
            return smap([i - l for i, l in zip(idx, lbs)])
        frame.vars[name] = Binding(name, tname, key, rank=len(bounds), bounds=bounds, amap=amap,
                                   intent=intent)

    # ------------------------------------------------------------ name lookup
    def lookup(self, name, frame):
        name = name.lower()
        if name in frame.vars:
            return frame.vars[name]
        if name in self.globals:
            return self.globals[name]
        return None

    # ------------------------------------------------------------ statements
    def exec_block(self, stmts, frame, guard):
        i = 0
        stmts = list(stmts)
        while i < len(stmts):
            s = stmts[i]
            self.exec_stmt(s, frame, guard)
            i += 1

    def exec_stmt(self, s, frame, guard):
        lbl = getattr(getattr(s, "item", None), "label", None)
        if lbl is not None and lbl in frame.gotos:
            if frame.loops and frame.gotos_depth.get(lbl) != len(frame.loops):
                raise Unsupported("goto across a loop boundary")
            del frame.gotos[lbl]
        g = self.live(frame, guard)
        if z3.is_false(g):
            return
        prev = self.cur_stmt
        if not isinstance(s, F.Comment):
            self.cur_stmt = self.sid(s)
        try:
            self._exec_stmt(s, frame, g)
        finally:
            self.cur_stmt = prev

    def _exec_stmt(self, s, frame, g):
        if isinstance(s, F.Comment):
            if self.comment_handler and str(s).strip():
                self.comment_handler(self, str(s), frame, g)
            return
        if isinstance(s, F.Assignment_Stmt):
            return self.exec_assign(s.items[0], s.items[2], frame, g, None)
        if isinstance(s, F.If_Construct):
            return self.exec_if(s, frame, g)
        if isinstance(s, F.If_Stmt):
            c = self.ev_scalar(s.items[0], frame, g)
            return self.exec_stmt(s.items[1], frame, AND(g, c))
        if isinstance(s, (F.Block_Nonlabel_Do_Construct, F.Block_Label_Do_Construct)):
            return self.exec_do(s, frame, g)
        if isinstance(s, F.Case_Construct):
            return self.exec_case(s, frame, g)
        if isinstance(s, F.Where_Construct):
            return self.exec_where(s, frame, g)
        if isinstance(s, F.Where_Stmt):
            mask = self.ev(s.items[0], frame, g)
            a = s.items[1]
            return self.exec_assign(a.items[0], a.items[2], frame, g, mask)
        if isinstance(s, F.Call_Stmt):
            return self.exec_call(s, frame, g)
        if isinstance(s, F.Return_Stmt):
            frame.ret = OR(frame.ret, g)
            return
        if isinstance(s, F.Exit_Stmt):
            l = self._find_loop(frame, s.items[1])
            l.exit = OR(l.exit, g)
            return
        if isinstance(s, F.Cycle_Stmt):
            l = self._find_loop(frame, s.items[1])
            l.cycle = OR(l.cycle, g)
            return
        if isinstance(s, (F.Print_Stmt, F.Write_Stmt)):
            return self.exec_print(s, frame, g)
        if isinstance(s, F.Continue_Stmt):
            return
        if isinstance(s, F.Goto_Stmt):
            lbl = int(str(s.items[0]))
            if frame.loops:
                raise Unsupported("goto inside a loop")
            frame.gotos[lbl] = OR(frame.gotos.get(lbl, z3.BoolVal(False)), g)
            frame.gotos_depth[lbl] = len(frame.loops)
            return
        if isinstance(s, F.Stop_Stmt):
            if self.depth != 0:
                raise Unsupported("stop in a callee")
            frame.ret = OR(frame.ret, g)
            self.stopped = OR(getattr(self, "stopped", z3.BoolVal(False)), g)
            return
        if isinstance(s, (F.Allocate_Stmt, F.Deallocate_Stmt)):
            return self.exec_alloc(s, frame, g)
        if isinstance(s, F.Pointer_Assignment_Stmt):
            return self.exec_ptr_assign(s, frame, g)
        raise Unsupported("statement " + type(s).__name__)

    def exec_alloc(self, s, frame, g):
        raise Unsupported("allocate")

    def exec_ptr_assign(self, s, frame, g):
        raise Unsupported("pointer assignment")

    def _find_loop(self, frame, name):
        if not frame.loops:
            raise Unsupported("exit/cycle outside loop")
        if name is None:
            return frame.loops[-1]
        for l in reversed(frame.loops):
            if l.name == lname(name):
                return l
        raise Unsupported("exit/cycle to unknown construct")

    def exec_if(self, s, frame, g):
        rest = g
        cur = None
        body = []
        for c in s.content:
            if isinstance(c, (F.If_Then_Stmt, F.Else_If_Stmt, F.Else_Stmt, F.End_If_Stmt)):
                if cur is not None:
                    self.exec_block(body, frame, cur)
                body = []
                if isinstance(c, F.If_Then_Stmt):
                    cond = self.ev_scalar(c.items[0], frame, rest)
                    cur, rest = AND(rest, cond), AND(rest, NOT(cond))
                elif isinstance(c, F.Else_If_Stmt):
                    cond = self.ev_scalar(c.items[0], frame, rest)
                    cur, rest = AND(rest, cond), AND(rest, NOT(cond))
                elif isinstance(c, F.Else_Stmt):
                    cur = rest
                else:
                    cur = None
            else:
                body.append(c)

    def exec_case(self, s, frame, g):
        sel = None
        rest = g
        cur = None
        body = []
        default_body = None
        for c in s.content:
            if isinstance(c, F.Select_Case_Stmt):
                sel = self.ev_scalar(c.items[0], frame, g)
            elif isinstance(c, (F.Case_Stmt, F.End_Select_Stmt)):
                if cur is not None:
                    self.exec_block(body, frame, cur)
                elif cur is None and body and default_body == "collect":
                    default_body = body
                body = []
                cur = None
                if isinstance(c, F.Case_Stmt):
                    selector = c.items[0]
                    if selector.items[0] is None:     # DEFAULT
                        default_body = "collect"
                        continue
                    conds = []
                    vals = selector.items[0]
                    vals = vals.items if isinstance(vals, F.Case_Value_Range_List) else [vals]
                    for v in vals:
                        if isinstance(v, F.Case_Value_Range):
                            cs = []
                            if v.items[0] is not None:
                                lo = self.ev_scalar(v.items[0], frame, g)
                                cs.append(sel >= lo)
                            if v.items[1] is not None:
                                hi = self.ev_scalar(v.items[1], frame, g)
                                cs.append(sel <= hi)
                            conds.append(AND(*cs))
                        else:
                            x = self.ev_scalar(v, frame, g)
                            conds.append(sel == x)
                    m = OR(*conds)
                    # cases are disjoint in conforming code; keep first-match semantics
                    cur, rest = AND(rest, m), AND(rest, NOT(m))
            else:
                body.append(c)
        if isinstance(default_body, list):
            self.exec_block(default_body, frame, rest)

    def exec_do(self, s, frame, g):
        if self.loop_hook is not None and self.loop_hook(self, s, frame, g):
            return
        content = list(s.content)
        pre_comments = []
        while content and isinstance(content[0], F.Comment):
            pre_comments.append(content.pop(0))
        for c in pre_comments:
            self._exec_stmt(c, frame, g)
        head = content[0]
        if not isinstance(head, (F.Nonlabel_Do_Stmt, F.Label_Do_Stmt)):
            raise Unsupported("do head " + type(head).__name__)
        body = content[1:]
        if body and isinstance(body[-1], F.End_Do_Stmt):
            body = body[:-1]
        elif isinstance(head, F.Label_Do_Stmt):
            raise Unsupported("labelled do")
        cname = None
        if isinstance(head, F.Nonlabel_Do_Stmt) and head.items[0] is not None \
                and str(head.items[0]).upper() != "DO":
            cname = lname(head.items[0])
        if cname is None and hasattr(head, "get_start_name"):
            try:
                nm = head.get_start_name()
            except Exception:  # pylint: disable=broad-except
                nm = None
            if nm:
                cname = lname(nm)
        lc = head.items[-1] if isinstance(head.items[-1], F.Loop_Control) else head.items[1]
        if not isinstance(lc, F.Loop_Control):
            raise Unsupported("do forever")
        ctl = LoopCtl(cname)
        loop_id = self.sid(s)
        if lc.items[0] is not None:        # DO WHILE
            frame.loops.append(ctl)
            active = g
            for k in range(self.K):
                ctl.cycle = z3.BoolVal(False)
                cond = self.ev_scalar(lc.items[0], frame, active)
                active = AND(self.live_noloop(frame, active, ctl), cond)
                if z3.is_false(simp(active)):
                    break
                self.iters.append((loop_id, k, None))
                self.exec_block(body, frame, active)
                self.iters.pop()
            else:
                ctl.cycle = z3.BoolVal(False)
                cond = self.ev_scalar(lc.items[0], frame, active)
                self.bound_assumptions.append(
                    z3.Implies(self.live_noloop(frame, active, ctl), NOT(cond)))
            frame.loops.pop()
            return
        if lc.items[1] is None and len(lc.items) > 3 and isinstance(lc.items[3], F.Forall_Header):
            return self._exec_do_concurrent(lc.items[3], body, frame, g, ctl, loop_id)
        if lc.items[1] is None:
            raise Unsupported("do forever")
        var, lims = lc.items[1]
        vb = self.lookup(lname(var), frame)
        if vb is None or vb.rank or vb.tname != "integer":
            raise Unsupported("loop variable")
        lo = self.ev_scalar(lims[0], frame, g)
        hi = self.ev_scalar(lims[1], frame, g)
        st = self.ev_scalar(lims[2], frame, g) if len(lims) > 2 else z3.IntVal(1)
        frame.loops.append(ctl)
        self._run_counted(frame, g, vb, lo, hi, st, loop_id, ctl,
                          lambda itg: self.exec_block(body, frame, itg))
        frame.loops.pop()

    def _exec_do_concurrent(self, header, body, frame, g, ctl, loop_id):
        """DO CONCURRENT (i=l:u[:s], j=..., [mask]): all bounds are evaluated first; a conforming
        body gives the same result in any iteration order, so the construct is executed as a loop
        nest with the first index outermost."""
        trips = header.items[0]
        trips = list(trips.items) if isinstance(trips, F.Forall_Triplet_Spec_List) else [trips]
        mask = header.items[1]
        specs = []
        for t in trips:
            vb = self.lookup(lname(t.items[0]), frame)
            if vb is None or vb.rank or vb.tname != "integer":
                raise Unsupported("do concurrent index")
            lo = self.ev_scalar(t.items[1], frame, g)
            hi = self.ev_scalar(t.items[2], frame, g)
            st = self.ev_scalar(t.items[3], frame, g) if t.items[3] is not None else z3.IntVal(1)
            specs.append((vb, lo, hi, st))
        frame.loops.append(ctl)

        def level(d, itg):
            if d == len(specs):
                ctl.cycle = z3.BoolVal(False)
                m = self.ev_scalar(mask, frame, itg) if mask is not None else z3.BoolVal(True)
                self.exec_block(body, frame, AND(itg, m))
                return
            vb, lo, hi, st = specs[d]
            self._run_counted(frame, itg, vb, lo, hi, st, (loop_id, d) if d else loop_id, ctl,
                              lambda g2: level(d + 1, g2))
        level(0, g)
        frame.loops.pop()

    def _run_counted(self, frame, g, vb, lo, hi, st, loop_id, ctl, run_body):
        stv = intval(st)
        if stv == 0:
            raise Unsupported("zero step")
        if stv is None:
            self.assumptions.append(z3.Implies(g, st != 0))
        if stv == 1:
            raw = hi - lo + 1
        elif stv == -1:
            raw = lo - hi + 1
        else:
            raw = tdiv(hi - lo + st, st)
        trip = simp(z3.If(raw > 0, raw, z3.IntVal(0)))
        tc = intval(trip)
        self.trips.append((g, trip))
        if tc is not None:
            if tc > self.maxconc:
                raise Unsupported("concrete trip count too large")
            n = tc
        else:
            n = self.K
            self.bound_assumptions.append(z3.Implies(g, trip <= self.K))
        for k in range(n):
            itg = AND(g, simp(z3.IntVal(k) < trip))
            itg = self.live_noloop(frame, itg, ctl)
            if z3.is_false(itg):
                break
            ctl.cycle = z3.BoolVal(False)
            val = simp(lo + k * st)
            self.write(vb.key, vb.fixed, val, itg)
            self.iters.append((loop_id, k, val))
            self.ev_event(itg, "ITER", vb.key, ())
            run_body(itg)
            self.iters.pop()
        ctl.cycle = z3.BoolVal(False)
        fin = self.live_noloop(frame, g, ctl)
        self.write(vb.key, vb.fixed, simp(lo + trip * st), fin)

    def live_noloop(self, frame, guard, ctl):
        """guard ∧ not returned ∧ no enclosing exit ∧ this loop not exited (cycle ignored)."""
        dead = [frame.ret] + [l.exit for l in frame.loops] + \
               [l.cycle for l in frame.loops if l is not ctl]
        return AND(guard, NOT(OR(*dead)))

    def exec_where(self, s, frame, g):
        content = list(s.content)
        head = content[0]
        mask = self.ev(head.items[0], frame, g)
        if not isinstance(mask, ArrVal):
            raise Unsupported("scalar where mask")
        mask = self._freeze(mask, g)
        done = None          # union of earlier masks
        cur = mask
        for c in content[1:]:
            if isinstance(c, F.Assignment_Stmt):
                prev = self.cur_stmt
                self.cur_stmt = self.sid(c)
                self.exec_assign(c.items[0], c.items[2], frame, g, cur)
                self.cur_stmt = prev
            elif isinstance(c, F.Masked_Elsewhere_Stmt):
                done = cur if done is None else self._arr_binop(done, cur, OR)
                m2 = self._freeze(self.ev(c.items[0], frame, g), g)
                nd = self._arr_unop(done, NOT)
                curm = self._arr_binop(nd, m2, AND)
                # pending control mask for later ELSEWHERE = done OR m2
                cur = curm
                done = self._arr_binop(done, m2, OR)
                cur_is_masked = True
            elif isinstance(c, F.Elsewhere_Stmt):
                if done is None:
                    done = cur
                cur = self._arr_unop(done, NOT)
            elif isinstance(c, F.End_Where_Stmt):
                break
            elif isinstance(c, F.Comment):
                continue
            else:
                raise Unsupported("where body " + type(c).__name__)

    def _freeze(self, av, g):
        """Evaluate an ArrVal's elements now (values of the current state)."""
        n = [self._unroll_extent(e, g) for e in av.extents]
        cache = {}
        for ks in _ranges(n):
            saved = self.eguard
            self.eguard = AND(*[simp(z3.IntVal(k) < e) for k, e in zip(ks, av.extents)])
            try:
                cache[ks] = av.elem([z3.IntVal(k) for k in ks])
            finally:
                self.eguard = saved
        exts = av.extents

        def elem(ks, cache=cache):
            kv = tuple(intval(k) for k in ks)
            if any(k is None for k in kv):
                raise Unsupported("symbolic offset into frozen array value")
            if kv not in cache:
                raise Unsupported("offset outside frozen extent")
            return cache[kv]
        return ArrVal(exts, elem, av.tname)

    def _arr_unop(self, a, op):
        return ArrVal(a.extents, lambda ks: op(a.elem(ks)), a.tname)

    def _arr_binop(self, a, b, op):
        return ArrVal(a.extents, lambda ks: op(a.elem(ks), b.elem(ks)), a.tname)

    def _unroll_extent(self, ext, g):
        ext = simp(ext)
        c = intval(ext)
        if c is not None:
            if c > self.maxconc:
                raise Unsupported("concrete extent too large")
            return max(c, 0)
        self.bound_assumptions.append(z3.Implies(g, ext <= self.E))
        return self.E

    # ------------------------------------------------------------ assignment
    def exec_assign(self, lhs, rhs, frame, g, mask):
        lref = self.lvalue(lhs, frame, g)
        val = self.ev(rhs, frame, g)
        if lref[0] == "scalar":
            if isinstance(val, ArrVal):
                raise Unsupported("array value assigned to scalar")
            if mask is not None:
                raise Unsupported("masked scalar assignment")
            _, key, idx, tname = lref
            self.write(key, idx, self._conv(val, tname), g)
            return
        _, key, exts, smap, tname = lref
        if not isinstance(val, ArrVal):
            sv = val
            val = ArrVal(exts, lambda ks: sv, self._tname_of(sv))
        if val.rank != len(exts):
            raise Unsupported("rank mismatch in assignment")
        # conformance is the program's obligation
        for a, b in zip(exts, val.extents):
            if not (a is b):
                self.inbounds.append(z3.Implies(g, a == b))
        self._store_arrval(key, smap, exts, val, g, tname, mask)

    def _store_arrval(self, key, smap, exts, val, g, tname, mask=None):
        n = [self._unroll_extent(e, g) for e in exts]
        pending = []
        for ks in _ranges(n):
            kt = [z3.IntVal(k) for k in ks]
            eg = AND(g, *[simp(kt[d] < exts[d]) for d in range(len(ks))])
            if z3.is_false(eg):
                continue
            saved = self.eguard
            self.eguard = AND(*[simp(kt[d] < exts[d]) for d in range(len(ks))])
            try:
                if mask is not None:
                    eg = AND(eg, mask.elem(kt))
                    self.eguard = AND(self.eguard, mask.elem(kt))
                self.gcur = eg
                v = val.elem(kt)
            finally:
                self.eguard = saved
            pending.append((smap(kt), self._conv(v, tname), eg))
        for sidx, v, eg in pending:
            self.write(key, [simp(i) for i in sidx], v, eg)

    def _conv(self, v, tname):
        srt = sort_of(tname)
        if v.sort() == srt:
            return v
        if srt == B or v.sort() == B:
            raise Unsupported("logical/numeric conversion")
        return coerce(v, srt)

    def _tname_of(self, t):
        return {str(I): "integer", str(R): "real", str(B): "logical"}[str(t.sort())]

    # ------------------------------------------------------------ designators
    def lvalue(self, node, frame, g):
        """-> ("scalar", key, storage idx, tname) | ("section", key, extents, smap, tname)
        | ("struct", binding)"""
        if isinstance(node, F.Name):
            b = self.lookup(lname(node), frame)
            if b is None:
                raise Unsupported("unknown name " + str(node))
            if not b.present:
                raise Unsupported("absent optional used")
            if b.tname == "struct":
                return ("struct", b)
            if b.rank == 0:
                return ("scalar", b.key, tuple(b.fixed), b.tname)
            exts = [simp(ub - lb + 1) for lb, ub in b.bounds]
            exts = [simp(z3.If(e > 0, e, z3.IntVal(0))) if intval(e) is None else
                    z3.IntVal(max(intval(e), 0)) for e in exts]
            lbs = [lb for lb, _ in b.bounds]
            return ("section", b.key, exts,
                    (lambda ks, b=b, lbs=lbs: b.smap([l + k for l, k in zip(lbs, ks)])), b.tname)
        if isinstance(node, F.Part_Ref):
            b = self.lookup(lname(node.items[0]), frame)
            if b is None:
                raise Unsupported("unknown array " + str(node.items[0]))
            if b.tname == "struct":
                # element of an array of structures with literal subscripts: a separate object
                subs = node.items[1].items if isinstance(node.items[1], F.Section_Subscript_List) \
                    else [node.items[1]]
                ivs = []
                for sub in subs:
                    iv = None if isinstance(sub, F.Subscript_Triplet) else intval(self.ev_scalar(sub, frame, g))
                    if iv is None:
                        raise Unsupported("array of structures element")
                    ivs.append(iv)
                if len(ivs) != b.rank:
                    raise Unsupported("struct array rank")
                return ("struct", Binding(b.name, "struct", b.key + "[" + ",".join(map(str, ivs)) + "]",
                                          rank=0, struct=b.struct))
            return self._subscripted(b, node.items[1], frame, g)
        if isinstance(node, F.Data_Ref):
            return self._data_ref(node, frame, g)
        if isinstance(node, F.Parenthesis):
            raise Unsupported("parenthesised lvalue")
        raise Unsupported("lvalue " + type(node).__name__)

    def _subscripted(self, b, sublist, frame, g, key=None, tname=None, bounds=None, amap=None,
                     prefix_idx=()):
        key = key or b.key
        tname = tname or b.tname
        bounds = bounds if bounds is not None else b.bounds
        amap = amap or (b.smap if b is not None else (lambda idx: tuple(idx)))
        subs = sublist.items if isinstance(sublist, F.Section_Subscript_List) else [sublist]
        if len(subs) != len(bounds):
            raise Unsupported("rank mismatch in subscript")
        fixed = [None] * len(subs)
        secs = []      # (dim, lo, stride, extent)
        for d, sub in enumerate(subs):
            lb, ub = bounds[d]
            if isinstance(sub, F.Subscript_Triplet):
                lo = self.ev_scalar(sub.items[0], frame, g) if sub.items[0] is not None else lb
                hi = self.ev_scalar(sub.items[1], frame, g) if sub.items[1] is not None else ub
                st = self.ev_scalar(sub.items[2], frame, g) if sub.items[2] is not None \
                    else z3.IntVal(1)
                if hi is None:
                    raise Unsupported("assumed-size upper bound")
                stv = intval(st)
                if stv == 0:
                    raise Unsupported("zero stride")
                if stv is None:
                    self.inbounds.append(z3.Implies(g, st != 0))
                raw = (hi - lo + 1) if stv == 1 else tdiv(hi - lo + st, st)
                ext = simp(z3.If(raw > 0, raw, z3.IntVal(0)))
                secs.append((d, lo, st, ext))
                # in-bounds (only when non-empty)
                if lb is not None:
                    last = lo + (ext - 1) * st
                    self.inbounds.append(z3.Implies(AND(g, ext > 0),
                                                    z3.And(lo >= lb, lo <= ub, last >= lb, last <= ub)))
            else:
                v = self.ev(sub, frame, g)
                if isinstance(v, ArrVal):
                    raise Unsupported("vector subscript")
                if v.sort() != I:
                    raise Unsupported("non-integer subscript")
                fixed[d] = v
                if lb is not None and ub is not None:
                    self.inbounds.append(z3.Implies(g, z3.And(v >= lb, v <= ub)))
        if not secs:
            return ("scalar", key, tuple(prefix_idx) + tuple(amap(fixed)), tname)

        def smap(ks, fixed=fixed, secs=secs, amap=amap, prefix_idx=prefix_idx):
            idx = list(fixed)
            for (d, lo, st, _), k in zip(secs, ks):
                idx[d] = lo + k * st
            return tuple(prefix_idx) + tuple(amap(idx))
        return ("section", key, [e for _, _, _, e in secs], smap, tname)

    def _data_ref(self, node, frame, g):
        parts = node.items
        first = parts[0]
        bname = lname(first.items[0]) if isinstance(first, F.Part_Ref) else lname(first)
        b = self.lookup(bname, frame)
        if b is None or b.tname != "struct":
            raise Unsupported("structure base " + bname)
        key = b.key
        dtype = b.struct
        idx = []
        if isinstance(first, F.Part_Ref):
            subs = first.items[1].items
            for sub in subs:
                if isinstance(sub, F.Subscript_Triplet):
                    raise Unsupported("section of structure array")
                idx.append(self.ev_scalar(sub, frame, g))
            if len(idx) != b.rank:
                raise Unsupported("struct array rank")
        elif b.rank:
            raise Unsupported("whole array of structures")
        for pi, p in enumerate(parts[1:]):
            cname = lname(p.items[0]) if isinstance(p, F.Part_Ref) else lname(p)
            key = key + "%" + cname
            tname, rank, sub_dtype = self._comp_type(dtype, cname, key)
            last = pi == len(parts) - 2
            if tname == "struct":
                if last:
                    if idx or rank or isinstance(p, F.Part_Ref):
                        raise Unsupported("whole structure component")
                    return ("struct", Binding(cname, "struct", key, rank=0, struct=sub_dtype))
                if isinstance(p, F.Part_Ref):
                    for sub in p.items[1].items:
                        if isinstance(sub, F.Subscript_Triplet):
                            raise Unsupported("section of structure array")
                        idx.append(self.ev_scalar(sub, frame, g))
                elif rank:
                    raise Unsupported("whole array of structures")
                dtype = sub_dtype
                continue
            if not last:
                raise Unsupported("component of non-structure")
            total_rank = len(idx) + rank
            if key not in self.store:
                self.new_storage(key, tname, total_rank, is_input=True)
            if rank == 0:
                if isinstance(p, F.Part_Ref):
                    raise Unsupported("subscript on scalar component")
                return ("scalar", key, tuple(idx), tname)
            lit = self.comp_shapes.get((dtype, cname))
            if lit is not None and len(lit) == rank:
                bounds = [(z3.IntVal(l), z3.IntVal(u)) for l, u in lit]
                self.comp_literal_bounds[key] = lit
            else:
                bounds = self._comp_bounds(key, rank)
            if isinstance(p, F.Part_Ref):
                return self._subscripted(None, p.items[1], frame, g, key=key, tname=tname,
                                         bounds=bounds, amap=lambda i: tuple(i),
                                         prefix_idx=tuple(idx))
            exts = [simp(ub - lb + 1) for lb, ub in bounds]
            lbs = [lb for lb, _ in bounds]
            pidx = tuple(idx)
            return ("section", key, exts,
                    (lambda ks, lbs=lbs, pidx=pidx: pidx + tuple(l + k for l, k in zip(lbs, ks))),
                    tname)
        raise Unsupported("data ref")

    def _comp_type(self, dtype, cname, key):
        if dtype in self.dtypes and cname in self.dtypes[dtype]:
            return self.dtypes[dtype][cname]
        flat = key.split("%", 1)[1] if "%" in key else key
        for k in (key, flat, cname):
            if k in self.struct_hints:
                h = self.struct_hints[k]
                return (h[0], h[1], h[2] if len(h) > 2 else None)
        raise Unsupported(f"unknown component {cname} of type {dtype}")

    def _comp_bounds(self, key, rank):
        """Component arrays: lower bound 1, symbolic extent (input)."""
        bounds = []
        for d in range(rank):
            nm = f"ext_{key}_{d}"
            if nm not in self.inputs:
                e = z3.Int(nm)
                self.inputs[nm] = e
                self.assumptions.append(e >= 0)
            bounds.append((z3.IntVal(1), self.inputs[nm]))
        return bounds

    # ------------------------------------------------------------ expressions
    def ev_scalar(self, node, frame, g):
        v = self.ev(node, frame, g)
        if isinstance(v, ArrVal):
            raise Unsupported("array where scalar expected")
        return v

    def read_lref(self, lref, g):
        if lref[0] == "scalar":
            _, key, idx, _ = lref
            return self.read(key, idx, g)
        if lref[0] == "struct":
            raise Unsupported("whole structure value")
        _, key, exts, smap, tname = lref
        return ArrVal(exts, lambda ks: self.read(key, [simp(i) for i in smap(ks)],
                                                 g if self.eguard is None else AND(g, self.eguard)), tname)

    def ev(self, node, frame, g):
        self.gcur = g
        if isinstance(node, (F.Int_Literal_Constant, F.Real_Literal_Constant)):
            kind = node.items[1]
            if kind is not None and not str(kind).isdigit() and self.check_kinds:
                if self.lookup(lname(kind), frame) is None:
                    raise Unsupported(f"kind parameter {kind} is not declared at this point")
            if isinstance(node, F.Int_Literal_Constant):
                return z3.IntVal(int(node.items[0]))
            return _real_lit(node.items[0])
        if isinstance(node, F.Logical_Literal_Constant):
            return z3.BoolVal(str(node.items[0]).upper() == ".TRUE.")
        if isinstance(node, F.Name):
            nm = lname(node)
            b = self.lookup(nm, frame)
            if b is None:
                if nm in self.routines:
                    return self.call_function(nm, [], frame, g)
                raise Unsupported("unknown name " + nm)
            return self.read_lref(self.lvalue(node, frame, g), g)
        if isinstance(node, F.Parenthesis):
            return self.ev(node.items[1], frame, g)
        if isinstance(node, F.Part_Ref):
            nm = lname(node.items[0])
            b = self.lookup(nm, frame)
            if b is not None:
                return self.read_lref(self.lvalue(node, frame, g), g)
            args = node.items[1]
            args = args.items if isinstance(args, F.Section_Subscript_List) else [args]
            if nm in self.routines:
                return self.call_function(nm, list(args), frame, g)
            return self.extern_function(nm, list(args), frame, g)
        if isinstance(node, (F.Function_Reference, F.Structure_Constructor)):
            nm = lname(node.items[0])
            args = node.items[1]
            args = list(args.items) if args is not None and hasattr(args, "items") and \
                not isinstance(args, (F.Name,)) else ([args] if args is not None else [])
            if isinstance(node.items[1], (F.Actual_Arg_Spec, F.Component_Spec)):
                args = [node.items[1]]
            if nm in self.routines:
                return self.call_function(nm, args, frame, g)
            if nm.upper() in _INTRINSICS:
                return self.intrinsic(nm, args, frame, g)
            return self.extern_function(nm, args, frame, g)
        if isinstance(node, F.Data_Ref):
            return self.read_lref(self.lvalue(node, frame, g), g)
        if isinstance(node, F.Intrinsic_Function_Reference):
            nm = lname(node.items[0])
            args = node.items[1]
            args = list(args.items) if isinstance(args, F.Actual_Arg_Spec_List) else \
                ([args] if args is not None else [])
            return self.intrinsic(nm, args, frame, g)
        if isinstance(node, (F.Level_2_Unary_Expr,)):
            op = str(node.items[0])
            v = self.ev(node.items[1], frame, g)
            return self._unary(op, v)
        if isinstance(node, F.And_Operand):
            v = self.ev(node.items[1], frame, g)
            return self._unary(".NOT.", v)
        if hasattr(node, "items") and len(node.items) == 3 and isinstance(node.items[1], str):
            op = node.items[1].upper()
            a = self.ev(node.items[0], frame, g)
            b = self.ev(node.items[2], frame, g)
            return self._binary(op, a, b)
        if isinstance(node, F.Array_Constructor):
            return self._array_constructor(node, frame, g)
        raise Unsupported("expression " + type(node).__name__)

    def _array_constructor(self, node, frame, g):
        spec = node.items[1]
        vals = []
        items = spec.items if isinstance(spec, F.Ac_Value_List) else [spec]
        for it in items:
            if isinstance(it, F.Ac_Implied_Do):
                vals.extend(self._implied_do(it, frame, g))
                continue
            v = self.ev(it, frame, g)
            if isinstance(v, ArrVal):
                raise Unsupported("nested array constructor")
            vals.append(v)
        if not vals:
            raise Unsupported("empty array constructor")
        if len({str(v.sort()) for v in vals}) != 1:
            vals = [to_real(v) for v in vals]

        def elem(ks, vals=vals):
            k = intval(ks[0])
            if k is not None:
                return vals[k]
            r = vals[-1]
            for i in range(len(vals) - 2, -1, -1):
                r = ITE(ks[0] == i, vals[i], r)
            return r
        return ArrVal([z3.IntVal(len(vals))], elem, self._tname_of(vals[0]))

    def _implied_do(self, node, frame, g):
        """(expr-list, var = lo, hi[, st]) with literal control: the values in order"""
        exprs, ctl = node.items
        exprs = exprs.items if isinstance(exprs, F.Ac_Value_List) else [exprs]
        var = lname(ctl.items[0])
        lims = [intval(self.ev_scalar(x, frame, g)) for x in ctl.items[1]]
        if any(x is None for x in lims) or len(lims) not in (2, 3) or (len(lims) == 3 and lims[2] == 0):
            raise Unsupported("implied-do with non-literal control")
        b = self.lookup(var, frame)
        if b is None or b.rank or b.tname != "integer":
            raise Unsupported("implied-do variable " + var)
        st = lims[2] if len(lims) == 3 else 1
        rng = range(lims[0], lims[1] + (1 if st > 0 else -1), st)
        if len(rng) > self.maxconc:
            raise Unsupported("implied-do too long")
        saved = self.store[b.key]
        out = []
        try:
            for k in rng:
                self.store[b.key] = z3.IntVal(k)       # the implied-do variable is local to the constructor
                for x in exprs:
                    if isinstance(x, F.Ac_Implied_Do):
                        out.extend(self._implied_do(x, frame, g))
                        continue
                    v = self.ev(x, frame, g)
                    if isinstance(v, ArrVal):
                        raise Unsupported("array item in implied-do")
                    out.append(v)
        finally:
            self.store[b.key] = saved
        return out

    def _lift1(self, v, fn):
        if isinstance(v, ArrVal):
            probe = None
            return ArrVal(v.extents, lambda ks: fn(v.elem(ks)), None if probe is None else probe)
        return fn(v)

    def _lift(self, vals, fn, tname=None):
        arrs = [v for v in vals if isinstance(v, ArrVal)]
        if not arrs:
            return fn(*vals)
        a0 = arrs[0]
        for a in arrs[1:]:
            if a.rank != a0.rank:
                raise Unsupported("rank mismatch in elemental operation")
            for x, y in zip(a0.extents, a.extents):
                if not (x is y) and not x.eq(y):
                    self.inbounds.append(x == y)

        def elem(ks):
            return fn(*[(v.elem(ks) if isinstance(v, ArrVal) else v) for v in vals])
        return ArrVal(a0.extents, elem, tname)

    def _unary(self, op, v):
        if op == "-":
            return self._lift([v], lambda x: -x)
        if op == "+":
            return v
        if op.upper() == ".NOT.":
            return self._lift([v], NOT)
        raise Unsupported("unary " + op)

    def _binary(self, op, a, b):
        return self._lift([a, b], lambda x, y: self.scalar_binop(op, x, y))

    def scalar_binop(self, op, x, y):
        if op in ("+", "-", "*", "/", "**"):
            if x.sort() == B or y.sort() == B:
                raise Unsupported("arithmetic on logical")
            if op == "**":
                return power(x, y)
            x, y = numeric_pair(x, y)
            if op == "+":
                return x + y
            if op == "-":
                return x - y
            if op == "*":
                return x * y
            self._nonzero(y)
            if x.sort() == I:
                self.int_divs.append((x, y))
                return tdiv(x, y)
            return x / y
        rel = {"==": "==", ".EQ.": "==", "/=": "/=", ".NE.": "/=", "<": "<", ".LT.": "<",
               "<=": "<=", ".LE.": "<=", ">": ">", ".GT.": ">", ">=": ">=", ".GE.": ">="}
        if op in rel:
            if x.sort() == B or y.sort() == B:
                raise Unsupported("relational on logical")
            x, y = numeric_pair(x, y)
            o = rel[op]
            return {"==": x == y, "/=": x != y, "<": x < y, "<=": x <= y,
                    ">": x > y, ">=": x >= y}[o]
        if op == ".AND.":
            return AND(x, y)
        if op == ".OR.":
            return OR(x, y)
        if op == ".EQV.":
            return x == y
        if op == ".NEQV.":
            return x != y
        raise Unsupported("operator " + op)

    # ------------------------------------------------------------ intrinsics
    def _split_args(self, args, names):
        """positional + keyword actual args -> dict by canonical name."""
        out = {}
        pos = 0
        for a in args:
            if isinstance(a, (F.Actual_Arg_Spec, F.Component_Spec)):
                out[lname(a.items[0])] = a.items[1]
            else:
                if pos >= len(names):
                    raise Unsupported("too many intrinsic arguments")
                out[names[pos]] = a
                pos += 1
        return out

    def intrinsic(self, nm, args, frame, g):
        up = nm.upper()
        ev = lambda a: self.ev(a, frame, g)  # noqa: E731
        if up in ("ABS",):
            return self._lift([ev(args[0])], lambda x: ITE(x >= 0, x, -x))
        if up == "SIGN":
            return self._lift([ev(args[0]), ev(args[1])], self._sign)
        if up in ("MIN", "MAX"):
            vals = [ev(a) for a in args]
            return self._lift(vals, lambda *xs: self._minmax(up, xs))
        if up == "MOD":
            return self._lift([ev(args[0]), ev(args[1])], self._mod)
        if up == "MODULO":
            def modulo(x, y):
                self._nonzero(y)
                if x.sort() == I and y.sort() == I:
                    return fmodulo(x, y)
                return uf("modulo_r", R, R, R)(to_real(x), to_real(y))
            return self._lift([ev(args[0]), ev(args[1])], modulo)
        if up == "MERGE":
            d = self._split_args(args, ["tsource", "fsource", "mask"])
            return self._lift([ev(d["tsource"]), ev(d["fsource"]), ev(d["mask"])],
                              lambda t, f, m: ITE(m, *numeric_pair(t, f)) if t.sort() != B
                              else ITE(m, t, f))
        if up in ("REAL", "DBLE", "FLOAT", "SNGL"):
            d = self._split_args(args, ["a", "kind"])
            return self._lift([ev(d["a"])], to_real)
        if up == "INT":
            d = self._split_args(args, ["a", "kind"])
            return self._lift([ev(d["a"])], trunc)
        if up == "NINT":
            d = self._split_args(args, ["a", "kind"])
            return self._lift([ev(d["a"])], nint)
        if up in ("SIZE", "LBOUND", "UBOUND"):
            return self._inquiry(up, args, frame, g)
        if up in ("SUM", "PRODUCT", "MINVAL", "MAXVAL", "COUNT", "ANY", "ALL"):
            return self._reduction(up, args, frame, g)
        if up == "DOT_PRODUCT":
            a, b = ev(args[0]), ev(args[1])
            if not (isinstance(a, ArrVal) and isinstance(b, ArrVal)) or a.rank != 1:
                raise Unsupported("dot_product args")
            self.inbounds.append(z3.Implies(g, a.extents[0] == b.extents[0]))
            n = self._unroll_extent(a.extents[0], g)
            tot = None
            for k in range(n):
                kt = [z3.IntVal(k)]
                saved = self.eguard
                self.eguard = simp(kt[0] < a.extents[0])
                try:
                    x, y = numeric_pair(a.elem(kt), b.elem(kt))
                finally:
                    self.eguard = saved
                term = ITE(simp(kt[0] < a.extents[0]), x * y, _zero(x.sort()))
                tot = term if tot is None else tot + term
            return tot if tot is not None else z3.RealVal(0)
        if up == "MATMUL":
            return self._matmul(ev(args[0]), ev(args[1]), g)
        if up == "TRANSPOSE":
            a = ev(args[0])
            if not isinstance(a, ArrVal) or a.rank != 2:
                raise Unsupported("transpose arg")
            return ArrVal([a.extents[1], a.extents[0]], lambda ks: a.elem([ks[1], ks[0]]), a.tname)
        if up in ("HUGE", "TINY", "EPSILON"):
            v = ev(args[0])
            s = (v.elem([z3.IntVal(0)] * v.rank) if isinstance(v, ArrVal) else v).sort()
            c = z3.Const(f"{up.lower()}_{s}", s)
            if up != "HUGE":
                self.assumptions.append(c > 0)
            return c
        if up == "PRESENT":
            b = self.lookup(lname(args[0]), frame)
            return z3.BoolVal(bool(b is not None and b.present))
        if up.lower() in ELEMENTAL_UF:
            vals = [ev(a) for a in args]
            return self._lift(vals, lambda *xs: uf("f_" + up.lower(), *([R] * len(xs)), R)(
                *[to_real(x) for x in xs]))
        if up == "KIND":
            return z3.IntVal(4)
        raise Unsupported("intrinsic " + up)

    def _sign(self, a, b):
        a, b = numeric_pair(a, b)
        aa = ITE(a >= 0, a, -a)
        return ITE(b >= 0, aa, -aa)

    def _nonzero(self, y):
        """Division by zero is non-conforming: a hypothesis for the original program, an
        obligation for the transformed one (same list as the subscript bounds)."""
        yv = simp(y)
        if z3.is_int_value(yv) or z3.is_rational_value(yv):
            if not z3.is_true(simp(yv != 0)):
                raise Unsupported("literal division by zero")
            return
        g = getattr(self, "gcur", None)
        c = z3.Implies(g, y != 0) if g is not None else y != 0
        self.inbounds.append(c)
        self.nonzero_conds.append(c)

    def _mod(self, x, y):
        self._nonzero(y)
        if x.sort() == I and y.sort() == I:
            self.int_mods.append((x, y))
            return tmod(x, y)
        x, y = to_real(x), to_real(y)
        q = x / y
        return x - to_real(trunc(q)) * y

    def _minmax(self, up, xs):
        if len({str(x.sort()) for x in xs}) != 1:
            xs = [to_real(x) for x in xs]
        r = xs[0]
        for x in xs[1:]:
            r = ITE(x < r, x, r) if up == "MIN" else ITE(x > r, x, r)
        return r

    def _inquiry(self, up, args, frame, g):
        d = self._split_args(args, ["array", "dim", "kind"])
        arr = d["array"]
        dim = self.ev_scalar(d["dim"], frame, g) if d.get("dim") is not None else None
        whole = None
        if isinstance(arr, F.Name):
            b = self.lookup(lname(arr), frame)
            if b is not None and b.rank:
                whole = b.bounds
        if whole is None:
            saved = self.trace_on
            self.trace_on = False
            try:
                v = self.ev(arr, frame, g)
            finally:
                self.trace_on = saved
            if not isinstance(v, ArrVal):
                raise Unsupported("inquiry on scalar")
            whole = [(z3.IntVal(1), e) for e in v.extents]
        exts = [simp(z3.If(ub - lb + 1 > 0, ub - lb + 1, z3.IntVal(0))) for lb, ub in whole]
        if up == "SIZE":
            if dim is None:
                r = exts[0]
                for e in exts[1:]:
                    r = r * e
                return r
            return self._pick(exts, dim)
        if dim is None:
            if len(whole) != 1:
                raise Unsupported("array-valued bound inquiry")
            dim = z3.IntVal(1)
        if up == "LBOUND":
            # zero-sized dimension has lbound 1
            return self._pick([ITE(e > 0, lb, z3.IntVal(1)) for (lb, _), e in zip(whole, exts)], dim)
        return self._pick([ITE(e > 0, ub, z3.IntVal(0)) for (_, ub), e in zip(whole, exts)], dim)

    def _pick(self, vals, dim):
        dv = intval(dim)
        if dv is not None:
            if not 1 <= dv <= len(vals):
                raise Unsupported("dim out of range")
            return vals[dv - 1]
        r = vals[-1]
        for i in range(len(vals) - 2, -1, -1):
            r = ITE(dim == i + 1, vals[i], r)
        return r

    def _reduction(self, up, args, frame, g):
        names = ["array", "dim", "mask"] if up not in ("COUNT", "ANY", "ALL") else ["mask", "dim"]
        d = self._split_args(args, names)
        a = self.ev(d["array" if "array" in names else "mask"], frame, g)
        if not isinstance(a, ArrVal):
            raise Unsupported("reduction of scalar")
        dim = None
        if d.get("dim") is not None:
            dim = intval(self.ev_scalar(d["dim"], frame, g))
            if dim is None:
                raise Unsupported("symbolic DIM")
        mask = None
        if up not in ("COUNT", "ANY", "ALL") and d.get("mask") is not None:
            mask = self.ev(d["mask"], frame, g)
        n = [self._unroll_extent(e, g) for e in a.extents]
        if a.rank == 1:
            dim = None

        def fold(fixed):
            """fold over all dims (fixed=None) or over `dim` with other offsets fixed."""
            acc = None
            if fixed is None:
                space = list(_ranges(n))
            else:
                space = [tuple(fixed[:dim - 1]) + (k,) + tuple(fixed[dim - 1:])
                         for k in range(n[dim - 1])]
            for ks in space:
                kt = [k if z3.is_expr(k) else z3.IntVal(k) for k in ks]
                inr = AND(*[simp(kt[x] < a.extents[x]) for x in range(a.rank)
                            if fixed is None or x == dim - 1])
                saved = self.eguard
                self.eguard = inr if saved is None else AND(saved, inr)
                try:
                    if mask is not None:
                        m = mask.elem(kt) if isinstance(mask, ArrVal) else mask
                        inr = AND(inr, m)
                        self.eguard = inr if saved is None else AND(saved, inr)
                    x = a.elem(kt)
                finally:
                    self.eguard = saved
                acc = self._red_step(up, acc, x, inr)
            if acc is None:
                acc = self._red_init(up, None)
            return acc
        if dim is None:
            return fold(None)
        oexts = [e for i, e in enumerate(a.extents) if i != dim - 1]
        return ArrVal(oexts, lambda ks: fold(list(ks)), a.tname)

    def _red_init(self, up, x):
        s = x.sort() if x is not None else R
        if up == "SUM":
            return _zero(s)
        if up == "PRODUCT":
            return z3.IntVal(1) if s == I else z3.RealVal(1)
        if up == "MINVAL":
            return z3.Const(f"huge_{s}", s)
        if up == "MAXVAL":
            return -z3.Const(f"huge_{s}", s)
        if up == "COUNT":
            return z3.IntVal(0)
        if up == "ANY":
            return z3.BoolVal(False)
        if up == "ALL":
            return z3.BoolVal(True)
        raise Unsupported(up)

    def _red_step(self, up, acc, x, inr):
        if acc is None:
            acc = self._red_init(up, x)
            if up in ("MINVAL", "MAXVAL"):
                pass
        if up in ("MINVAL", "MAXVAL"):
            h = z3.Const(f"huge_{x.sort()}", x.sort())
            self.assumptions.append(z3.And(x <= h, x >= -h))
        if up == "SUM":
            return acc + ITE(inr, x, _zero(x.sort()))
        if up == "PRODUCT":
            return acc * ITE(inr, x, z3.IntVal(1) if x.sort() == I else z3.RealVal(1))
        if up == "MINVAL":
            return ITE(AND(inr, x < acc), x, acc)
        if up == "MAXVAL":
            return ITE(AND(inr, x > acc), x, acc)
        if up == "COUNT":
            return acc + ITE(AND(inr, x), z3.IntVal(1), z3.IntVal(0))
        if up == "ANY":
            return OR(acc, AND(inr, x))
        if up == "ALL":
            return AND(acc, OR(NOT(inr), x))
        raise Unsupported(up)

    def _matmul(self, a, b, g):
        if not (isinstance(a, ArrVal) and isinstance(b, ArrVal)):
            raise Unsupported("matmul args")
        if a.rank == 2 and b.rank == 2:
            inner = a.extents[1]
            self.inbounds.append(z3.Implies(g, inner == b.extents[0]))
            n = self._unroll_extent(inner, g)

            def elem(ks):
                tot = None
                for k in range(n):
                    kt = z3.IntVal(k)
                    saved = self.eguard
                    self.eguard = simp(kt < inner) if saved is None else AND(saved, simp(kt < inner))
                    try:
                        x, y = numeric_pair(a.elem([ks[0], kt]), b.elem([kt, ks[1]]))
                    finally:
                        self.eguard = saved
                    t = ITE(simp(kt < inner), x * y, _zero(x.sort()))
                    tot = t if tot is None else tot + t
                return tot if tot is not None else z3.RealVal(0)
            return ArrVal([a.extents[0], b.extents[1]], elem, a.tname)
        if a.rank == 2 and b.rank == 1:
            inner = a.extents[1]
            self.inbounds.append(z3.Implies(g, inner == b.extents[0]))
            n = self._unroll_extent(inner, g)

            def elem(ks):
                tot = None
                for k in range(n):
                    kt = z3.IntVal(k)
                    saved = self.eguard
                    self.eguard = simp(kt < inner) if saved is None else AND(saved, simp(kt < inner))
                    try:
                        x, y = numeric_pair(a.elem([ks[0], kt]), b.elem([kt]))
                    finally:
                        self.eguard = saved
                    t = ITE(simp(kt < inner), x * y, _zero(x.sort()))
                    tot = t if tot is None else tot + t
                return tot if tot is not None else z3.RealVal(0)
            return ArrVal([a.extents[0]], elem, a.tname)
        raise Unsupported("matmul rank")

    # ------------------------------------------------------------ calls
    def _actual(self, a, frame, g):
        """classify an actual argument"""
        if isinstance(a, (F.Name, F.Part_Ref, F.Data_Ref)):
            is_var = True
            if isinstance(a, F.Name) and self.lookup(lname(a), frame) is None:
                is_var = False
            if isinstance(a, F.Part_Ref) and self.lookup(lname(a.items[0]), frame) is None:
                is_var = False
            if is_var:
                b = self.lookup(lname(a), frame) if isinstance(a, F.Name) else None
                if b is not None and b.is_param:
                    return ("value", self.read(b.key, (), g))
                if b is not None and not b.present:
                    return None
                lref = self.lvalue(a, frame, g)
                if lref[0] == "struct":
                    return ("struct", lref[1])
                if lref[0] == "scalar":
                    # the value is read at the call (for tracing and by-value use)
                    return ("scalar", lref[1], lref[2], lref[3])
                return lref
        v = self.ev(a, frame, g)
        if isinstance(v, ArrVal):
            return ("arrval", v)
        return ("value", v)

    def _bind_actuals(self, node, args, frame, g):
        stmt = node.content[0]
        dummies = [lname(x) for x in stmt.items[2].items] if stmt.items[2] is not None else []
        actuals = {}
        pos = 0
        for a in args:
            if isinstance(a, (F.Actual_Arg_Spec, F.Component_Spec)):
                nm = lname(a.items[0])
                if nm not in dummies:
                    raise Unsupported("unknown keyword " + nm)
                actuals[nm] = self._actual(a.items[1], frame, g)
            else:
                if pos >= len(dummies):
                    raise Unsupported("too many actual arguments")
                actuals[dummies[pos]] = self._actual(a, frame, g)
                pos += 1
        return actuals

    def _invoke(self, nm, args, frame, g):
        node, mname = self.routines[nm]
        if self.depth > 6:
            raise Unsupported("call depth")
        actuals = self._bind_actuals(node, args, frame, g)
        self.ev_event(g, "CALL", nm, ())
        callee = Frame(node, nm)
        self._enter_modules(node, mname)
        self._declare(node, callee, actuals, top=False, guard=g)
        self.depth += 1
        try:
            self.exec_routine_body(node, callee, g)
        finally:
            self.depth -= 1
        return callee

    def call_function(self, nm, args, frame, g):
        node, _ = self.routines[nm]
        if not isinstance(node, F.Function_Subprogram):
            raise Unsupported("subroutine used as function")
        callee = self._invoke(nm, args, frame, g)
        rb = callee.vars[callee.result_name]
        if rb.rank:
            raise Unsupported("array-valued function")
        return self.read(rb.key, (), g)

    def exec_call(self, s, frame, g):
        target = s.items[0]
        args = s.items[1]
        args = list(args.items) if isinstance(args, F.Actual_Arg_Spec_List) else \
            ([args] if args is not None else [])
        if isinstance(target, F.Name) and lname(target) in self.routines:
            node, _ = self.routines[lname(target)]
            if not isinstance(node, F.Subroutine_Subprogram):
                raise Unsupported("function called as subroutine")
            self._invoke(lname(target), args, frame, g)
            return
        name = str(target).lower().replace(" ", "")
        if self.extern_handler is not None and self.extern_handler(self, name, args, frame, g):
            return
        if name in INTRINSIC_SUBS:
            return self.intrinsic_sub(name, args, frame, g)
        self.default_extern_call(name, args, frame, g)

    def intrinsic_sub(self, name, args, frame, g):
        """Intrinsic subroutines by their footprint from the standard: `in` arguments are read,
        `out` arguments receive an arbitrary (fresh) value, `inout` both."""
        names, intents = INTRINSIC_SUBS[name]
        d = {}
        pos = 0
        for a in args:
            if isinstance(a, (F.Actual_Arg_Spec, F.Component_Spec)):
                d[lname(a.items[0])] = a.items[1]
            else:
                if pos >= len(names):
                    raise Unsupported("too many arguments to " + name)
                d[names[pos]] = a
                pos += 1
        for nm, intent in zip(names, intents):
            if nm not in d:
                continue
            a = d[nm]
            if intent == "in":
                v = self.ev(a, frame, g)
                if isinstance(v, ArrVal):
                    n = [self._unroll_extent(e, g) for e in v.extents]
                    for ks in _ranges(n):
                        v.elem([z3.IntVal(k) for k in ks])
                continue
            lref = self.lvalue(a, frame, g)
            if intent == "inout":
                cur = self.read_lref(lref, g)
                if isinstance(cur, ArrVal):
                    n = [self._unroll_extent(e, g) for e in cur.extents]
                    for ks in _ranges(n):
                        cur.elem([z3.IntVal(k) for k in ks])
            self.callcount += 1
            if lref[0] == "scalar":
                _, key, idx, tname = lref
                self.write(key, idx, z3.Const(f"isub_{name}_{self.callcount}", sort_of(tname)), g)
            elif lref[0] == "section":
                _, key, exts, smap, tname = lref
                fresh = uf(f"isub_{name}_{self.callcount}", *([I] * len(exts)), sort_of(tname))
                av = ArrVal(exts, lambda ks, fresh=fresh: fresh(*ks), tname)
                self._store_arrval(key, smap, exts, av, g, tname)
            else:
                raise Unsupported("structure argument to intrinsic subroutine")

    def default_extern_call(self, name, args, frame, g):
        """External subroutine: an observable event carrying its scalar argument values;
        designator arguments are havocked deterministically (a function of the call
        ordinal, the callee name and the scalar values passed)."""
        raise Unsupported("external call " + name)

    def extern_function(self, nm, args, frame, g):
        if nm.upper() in _INTRINSICS:
            return self.intrinsic(nm, args, frame, g)
        vals = []
        for a in args:
            if isinstance(a, (F.Actual_Arg_Spec, F.Component_Spec)):
                raise Unsupported("keyword to external function")
            v = self.ev(a, frame, g)
            if isinstance(v, ArrVal):
                raise Unsupported("array arg to external function")
            vals.append(v)
        f = uf("ext_" + nm, *[v.sort() for v in vals], R)
        return f(*vals)

    # ------------------------------------------------------------ output
    def emit(self, val, g):
        if val.sort() == B:
            val = ITE(val, z3.RealVal(1), z3.RealVal(0))
        val = to_real(val)
        self.out = ITE(g, z3.Store(self.out, self.out_cnt, val), self.out)
        self.out_cnt = ITE(g, self.out_cnt + 1, self.out_cnt)

    def exec_print(self, s, frame, g):
        if isinstance(s, F.Print_Stmt):
            items = s.items[1]
        else:
            ctl = str(s.items[0]).replace(" ", "")
            if ctl not in ("*,*", "UNIT=*,FMT=*", "6,*"):
                raise Unsupported("write control " + ctl)
            items = s.items[1]
        self.ev_event(g, "PRINT", "stdout", ())
        self.emit(z3.RealVal(7777), g)     # record separator
        if items is None:
            return
        items = items.items if isinstance(items, F.Output_Item_List) else [items]
        for it in items:
            if isinstance(it, F.Char_Literal_Constant):
                continue
            v = self.ev(it, frame, g)
            if isinstance(v, ArrVal):
                n = [self._unroll_extent(e, g) for e in v.extents]
                # Fortran array element order: first index fastest
                for ks in _ranges(list(reversed(n))):
                    ks = tuple(reversed(ks))
                    kt = [z3.IntVal(k) for k in ks]
                    eg = AND(g, *[simp(kt[d] < v.extents[d]) for d in range(len(ks))])
                    saved = self.eguard
                    self.eguard = AND(*[simp(kt[d] < v.extents[d]) for d in range(len(ks))])
                    try:
                        self.emit(v.elem(kt), eg)
                    finally:
                        self.eguard = saved
            else:
                self.emit(v, g)


def _zero(s):
    return z3.IntVal(0) if s == I else z3.RealVal(0)


def _ranges(ns):
    if not ns:
        yield ()
        return
    import itertools
    yield from itertools.product(*[range(n) for n in ns])


def _real_lit(s):
    from fractions import Fraction
    s = str(s).lower().replace("d", "e")
    if "e" in s:
        m, e = s.split("e")
        fr = Fraction(m) * (Fraction(10) ** int(e))
    else:
        fr = Fraction(s)
    return z3.RealVal(str(fr))


INTRINSIC_SUBS = {
    "random_number": (["harvest"], ["out"]),
    "random_seed": (["size", "put", "get"], ["out", "in", "out"]),
    "cpu_time": (["time"], ["out"]),
    "system_clock": (["count", "count_rate", "count_max"], ["out", "out", "out"]),
    "date_and_time": (["date", "time", "zone", "values"], ["out", "out", "out", "out"]),
    "mvbits": (["from", "frompos", "len", "to", "topos"], ["in", "in", "in", "inout", "in"]),
}

_INTRINSICS = {"ABS", "SIGN", "MIN", "MAX", "MOD", "MODULO", "MERGE", "REAL", "DBLE", "FLOAT",
               "SNGL", "INT", "NINT", "SIZE", "LBOUND", "UBOUND", "SUM", "PRODUCT", "MINVAL",
               "MAXVAL", "COUNT", "ANY", "ALL", "DOT_PRODUCT", "MATMUL", "TRANSPOSE", "HUGE",
               "TINY", "EPSILON", "PRESENT", "KIND"} | {x.upper() for x in ELEMENTAL_UF}
