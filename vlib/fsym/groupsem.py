"""Grouping-sensitive semantics for Fortran *expressions* (C02).

Two evaluators produce z3 terms from (a) a PSyIR expression tree - the structure of
the tree IS the grouping - and (b) the fparser2 parse tree of the text the writer
emitted - fparser2's expression grammar decides how Fortran groups that text.

Semantics (DESIGN 5/C02, grouping mode): every numeric value lives in a tiny IEEE
format FPSort(5, 11) with round-to-nearest-even, so that + - * / are NOT associative
and any re-association has a witness value even for integer-typed trees; `**`, unary
minus/plus, the logical operators, intrinsic calls, array/structure accesses and
literal kinds are uninterpreted functions (their real semantics has algebraic
identities - -(a*b) = (-a)*b, (p.and.q).and.r = p.and.(q.and.r) - that would hide a
regrouping).  Relational operators are the IEEE comparisons."""
import z3
from fparser.two import Fortran2003 as F

FP = z3.FPSort(5, 11)
RM = z3.RNE()
B = z3.BoolSort()


class GroupUnsupported(Exception):
    pass


_UF = {}
_PARSER_READY = False


def uf(name, *sorts):
    key = (name,) + tuple(str(s) for s in sorts)
    if key not in _UF:
        _UF[key] = z3.Function(name, *sorts)
    return _UF[key]


def leaf(name, logical=False):
    return z3.Const("v_" + name.lower(), B if logical else FP)


def lit_num(text, kind):
    """numeric literal: value in FP, tagged with its kind/precision (None = default)"""
    t = text.lower().replace("d", "e")
    neg = t.startswith("-")
    t = t.lstrip("+-")
    try:
        val = float(t)
    except ValueError as e:
        raise GroupUnsupported("literal " + text) from e
    v = z3.FPVal(val, FP)
    if kind:
        v = uf("kind_" + str(kind).lower(), FP, FP)(v)
    if neg:
        v = uf("neg", FP, FP)(v)
    return v


MODE = "fp"     # "fp": IEEE arithmetic/comparisons; "uf": every operator uninterpreted (pure structure)


def arith(op, a, b):
    if a.sort() != FP or b.sort() != FP:
        raise GroupUnsupported("arithmetic on non-numeric")
    if MODE == "uf":
        return uf("op_" + op, FP, FP, FP)(a, b)
    if op == "+":
        return z3.fpAdd(RM, a, b)
    if op == "-":
        return z3.fpSub(RM, a, b)
    if op == "*":
        return z3.fpMul(RM, a, b)
    if op == "/":
        return z3.fpDiv(RM, a, b)
    if op == "**":
        return uf("pow", FP, FP, FP)(a, b)
    raise GroupUnsupported(op)


def rel(op, a, b):
    if a.sort() != FP or b.sort() != FP:
        raise GroupUnsupported("relational on non-numeric")
    if MODE == "uf":
        return uf("rel_" + op, FP, FP, B)(a, b)
    return {"==": z3.fpEQ, "/=": z3.fpNEQ, "<": z3.fpLT, "<=": z3.fpLEQ, ">": z3.fpGT,
            ">=": z3.fpGEQ}[op](a, b)


def logic(op, a, b):
    if a.sort() != B or b.sort() != B:
        raise GroupUnsupported("logical operator on non-logical")
    return uf("l_" + op, B, B, B)(a, b)


def unary(op, a):
    if op == "not":
        if a.sort() != B:
            raise GroupUnsupported(".not. on non-logical")
        return uf("l_not", B, B)(a)
    if a.sort() != FP:
        raise GroupUnsupported("sign on non-numeric")
    return uf("neg" if op == "-" else "pos", FP, FP)(a)


def call(name, args, logical=False):
    return uf("f_" + name.lower(), *[a.sort() for a in args], B if logical else FP)(*args)


# ------------------------------------------------------------------ PSyIR side
LOGICAL_INTRINSICS = {"ANY", "ALL", "PRESENT", "ASSOCIATED", "ALLOCATED"}


def from_psyir(node, logical_names):
    from psyclone.psyir import nodes as N
    from psyclone.psyir.symbols import ScalarType, DataSymbol
    from psyclone.psyir.nodes.array_mixin import ArrayMixin
    bop, uop = N.BinaryOperation.Operator, N.UnaryOperation.Operator
    if isinstance(node, N.Literal):
        intr = node.datatype.intrinsic
        if intr == ScalarType.Intrinsic.BOOLEAN:
            return z3.BoolVal(node.value == "true")
        if intr in (ScalarType.Intrinsic.INTEGER, ScalarType.Intrinsic.REAL):
            prec = node.datatype.precision
            kind = None
            if isinstance(prec, DataSymbol):
                kind = prec.name
            elif isinstance(prec, int):
                kind = str(prec)
            elif prec == ScalarType.Precision.DOUBLE:
                kind = "double"
            return lit_num(node.value, kind)
        raise GroupUnsupported("literal type")
    if isinstance(node, N.BinaryOperation):
        a = from_psyir(node.children[0], logical_names)
        b = from_psyir(node.children[1], logical_names)
        o = node.operator
        ar = {bop.ADD: "+", bop.SUB: "-", bop.MUL: "*", bop.DIV: "/", bop.POW: "**"}
        rl = {bop.EQ: "==", bop.NE: "/=", bop.GT: ">", bop.LT: "<", bop.GE: ">=", bop.LE: "<="}
        lg = {bop.AND: "and", bop.OR: "or", bop.EQV: "eqv", bop.NEQV: "neqv"}
        if o in ar:
            return arith(ar[o], a, b)
        if o in rl:
            return rel(rl[o], a, b)
        if o in lg:
            return logic(lg[o], a, b)
        raise GroupUnsupported("operator " + o.name)
    if isinstance(node, N.UnaryOperation):
        a = from_psyir(node.children[0], logical_names)
        return unary({uop.MINUS: "-", uop.PLUS: "+", uop.NOT: "not"}[node.operator], a)
    if isinstance(node, N.IntrinsicCall):
        args = []
        names = node.argument_names
        for nm, c in zip(names, node.arguments):
            v = from_psyir(c, logical_names)
            if nm:
                v = uf("kw_" + nm.lower(), v.sort(), v.sort())(v)
            args.append(v)
        return call(node.intrinsic.name, args, node.intrinsic.name in LOGICAL_INTRINSICS)
    if isinstance(node, N.StructureReference):
        # s%m(j)%k : name path + all indices in order
        path, idx = [node.symbol.name.lower()], []
        cur = node
        if isinstance(cur, ArrayMixin):
            idx += [from_psyir(i, logical_names) for i in cur.indices]
        while hasattr(cur, "member") and cur.children and isinstance(cur.children[0], N.Member):
            cur = cur.children[0]
            path.append(cur.name.lower())
            if isinstance(cur, ArrayMixin):
                idx += [from_psyir(i, logical_names) for i in cur.indices]
        nm = "%".join(path)
        return call("acc_" + nm, idx, nm in logical_names)
    if isinstance(node, N.ArrayReference):
        idx = [from_psyir(i, logical_names) for i in node.indices]
        return call("acc_" + node.symbol.name, idx, node.symbol.name.lower() in logical_names)
    if isinstance(node, N.Reference):
        return leaf(node.symbol.name, node.symbol.name.lower() in logical_names)
    raise GroupUnsupported("node " + type(node).__name__)


# ------------------------------------------------------------------ text side
def parse_expr(text):
    from fparser.two.parser import ParserFactory
    from fparser.two.utils import NoMatchError, FortranSyntaxError
    global _PARSER_READY
    if not _PARSER_READY:
        ParserFactory().create(std="f2008")
        _PARSER_READY = True
    try:
        return F.Expr(text)
    except (NoMatchError, FortranSyntaxError) as e:
        raise SyntaxError(str(e)) from e


def from_text(node, logical_names, array_names, intrinsic_names):
    rec = lambda n: from_text(n, logical_names, array_names, intrinsic_names)  # noqa: E731
    if isinstance(node, F.Int_Literal_Constant) or isinstance(node, F.Real_Literal_Constant):
        txt = str(node.items[0])
        kind = node.items[1]
        if kind is None and isinstance(node, F.Real_Literal_Constant) and "d" in txt.lower():
            kind = "double"
        return lit_num(txt, kind)
    if isinstance(node, F.Logical_Literal_Constant):
        return z3.BoolVal(str(node.items[0]).upper() == ".TRUE.")
    if isinstance(node, F.Name):
        return leaf(str(node), str(node).lower() in logical_names)
    if isinstance(node, F.Parenthesis):
        return rec(node.items[1])
    if isinstance(node, F.Level_2_Unary_Expr):
        return unary(str(node.items[0]), rec(node.items[1]))
    if isinstance(node, F.And_Operand):
        return unary("not", rec(node.items[1]))
    if isinstance(node, (F.Part_Ref, F.Function_Reference, F.Intrinsic_Function_Reference,
                         F.Structure_Constructor)):
        nm = str(node.items[0])
        args = node.items[1]
        if args is None:
            args = []
        elif hasattr(args, "items") and isinstance(args, (F.Section_Subscript_List, F.Actual_Arg_Spec_List,
                                                          F.Component_Spec_List)):
            args = list(args.items)
        else:
            args = [args]
        vals = []
        for a in args:
            if isinstance(a, (F.Actual_Arg_Spec, F.Component_Spec)):
                v = rec(a.items[1])
                v = uf("kw_" + str(a.items[0]).lower(), v.sort(), v.sort())(v)
            else:
                v = rec(a)
            vals.append(v)
        if nm.lower() in array_names:
            return call("acc_" + nm, vals, nm.lower() in logical_names)
        return call(nm.upper(), vals, nm.upper() in LOGICAL_INTRINSICS)
    if isinstance(node, F.Data_Ref):
        path, idx = [], []
        for p in node.items:
            if isinstance(p, F.Part_Ref):
                path.append(str(p.items[0]).lower())
                subs = p.items[1]
                subs = list(subs.items) if isinstance(subs, F.Section_Subscript_List) else [subs]
                idx += [rec(s) for s in subs]
            else:
                path.append(str(p).lower())
        nm = "%".join(path)
        return call("acc_" + nm, idx, nm in logical_names)
    if hasattr(node, "items") and len(node.items) == 3 and isinstance(node.items[1], str):
        op = node.items[1].upper()
        a, b = rec(node.items[0]), rec(node.items[2])
        if op in ("+", "-", "*", "/", "**"):
            return arith(op, a, b)
        rl = {"==": "==", ".EQ.": "==", "/=": "/=", ".NE.": "/=", "<": "<", ".LT.": "<", "<=": "<=",
              ".LE.": "<=", ">": ">", ".GT.": ">", ">=": ">=", ".GE.": ">="}
        if op in rl:
            return rel(rl[op], a, b)
        lg = {".AND.": "and", ".OR.": "or", ".EQV.": "eqv", ".NEQV.": "neqv"}
        if op in lg:
            return logic(lg[op], a, b)
        raise GroupUnsupported("operator " + op)
    raise GroupUnsupported("text node " + type(node).__name__)
