"""Equivalence queries between two Fortran texts (translation validation) and
gfortran replay of counterexamples."""
import os
import shutil
import subprocess
import tempfile
import time
from fractions import Fraction

import z3

from .interp import Interp, Unsupported, ArrVal
from .terms import I, R, B, select, simp, sort_of, arr_sort


def _const_for(key, meta):
    tname, rank = meta
    return z3.Const(key, arr_sort(sort_of(tname), rank))


class Result:
    def __init__(self, verdict, **kw):
        self.verdict = verdict          # unsat | sat | unknown | trivial
        self.model = kw.get("model")
        self.diff = kw.get("diff")      # description of the differing observable
        self.solver_s = kw.get("solver_s", 0.0)
        self.reach = kw.get("reach")    # reachability twin verdict
        self.nontrivial = kw.get("nontrivial", False)
        self.i1, self.i2 = kw.get("i1"), kw.get("i2")
        self.oob = kw.get("oob")        # transformed program may go out of bounds
        self.zero_trip_only = kw.get("zero_trip_only", False)


def observable_keys(it):
    """Storage keys that outlive the routine: dummies (in_*), their components,
    module variables (g_*)."""
    return [k for k in it.store if k.startswith("in_") or k.startswith("g_")]


def build(src, routine, K, E, trace=False, setup=None, tree=None):
    it = Interp(src, K=K, E=E, trace=trace, tree=tree)
    if setup:
        setup(it)
    it.run(routine)
    return it


def final_result(it):
    fr = it.top_frame
    if fr.result_name:
        b = fr.vars[fr.result_name]
        return it.store[b.key]
    return None


def differences(i1, i2, idxname="oi", obs_filter=None):
    """List of (description, z3 Bool 'differs', extra constraints)."""
    diffs = []
    keys = []
    for k in observable_keys(i1) + observable_keys(i2):
        if k not in keys:
            keys.append(k)
    for k in keys:
        meta = i1.meta.get(k) or i2.meta.get(k)
        if meta[0] == "struct":
            continue
        if obs_filter is not None and not obs_filter(k, meta):
            continue
        a = i1.store.get(k, _const_for(k, meta))
        b = i2.store.get(k, _const_for(k, meta))
        if a.eq(b):
            continue
        rank = meta[1]
        if rank == 0:
            diffs.append((k, a != b, []))
        else:
            idx = [z3.Int(f"{idxname}_{k}_{d}") for d in range(rank)]
            cons = _bounds_constraints(i1, k, idx)
            diffs.append((k, select(a, idx) != select(b, idx), cons))
    if obs_filter is not None:
        return diffs
    r1, r2 = final_result(i1), final_result(i2)
    if r1 is not None and r2 is not None and not r1.eq(r2):
        diffs.append(("result", r1 != r2, []))
    if not i1.out_cnt.eq(i2.out_cnt) or not i1.out.eq(i2.out):
        oi = z3.Int(f"{idxname}_out")
        diffs.append(("stdout", z3.Or(i1.out_cnt != i2.out_cnt,
                                      z3.And(oi >= 0, oi < i1.out_cnt,
                                             z3.Select(i1.out, oi) != z3.Select(i2.out, oi))), []))
    return diffs


def _bounds_constraints(it, key, idx):
    """Index inside the declared bounds of the top-level dummy / global that owns key."""
    fr = it.top_frame
    for b in list(fr.vars.values()) + list(it.globals.values()):
        if b.key == key and b.rank == len(idx) and b.amap is None:
            return [z3.And(i >= lb, i <= ub) for i, (lb, ub) in zip(idx, b.bounds)]
    return []


def is_nontrivial(it):
    """Some observable's final term differs from its initial term."""
    for k in observable_keys(it):
        if k in it.inputs and not it.store[k].eq(it.inputs[k]):
            return True
    if final_result(it) is not None:
        return True
    return not it.out_cnt.eq(z3.IntVal(0))


def compare(src1, src2, routine, K=3, E=3, timeout_ms=20000, setup=None, check_oob=False,
            tree1=None, tree2=None):
    """Are the observables of `routine` equal in src1 and src2 for all inputs within
    the bounds?  Raises Unsupported."""
    i1 = build(src1, routine, K, E, setup=setup, tree=tree1)
    i2 = build(src2, routine, K, E, setup=setup, tree=tree2)
    return compare_interps(i1, i2, timeout_ms, check_oob)


def compare_interps(i1, i2, timeout_ms=20000, check_oob=False, extra_assumptions=(), obs_filter=None):
    diffs = differences(i1, i2, obs_filter=obs_filter)
    nontrivial = is_nontrivial(i1)
    if not diffs:
        return Result("unsat", nontrivial=nontrivial, i1=i1, i2=i2, reach="skipped")
    assume = list(i1.assumptions) + list(i1.inbounds) + list(i1.bound_assumptions) + \
        list(i2.assumptions) + list(i2.bound_assumptions) + list(extra_assumptions)
    s = z3.Solver()
    s.set("timeout", timeout_ms)
    for a in assume:
        s.add(a)
    t0 = time.time()
    # reachability twin: the assumptions alone must be satisfiable
    reach = str(s.check())
    verdict = "unsat"
    model = None
    which = None
    zto = False
    if reach == "unsat":
        return Result("vacuous", solver_s=time.time() - t0, reach=reach, i1=i1, i2=i2)
    unknown = reach == "unknown"
    for desc, d, cons in diffs:
        s.push()
        for c in cons:
            s.add(c)
        s.add(d)
        s.set("timeout", min(timeout_ms, 4000))
        r = str(s.check())
        s.set("timeout", timeout_ms)
        if r == "unknown":
            if _abstract_unsat(assume, cons, d, timeout_ms):
                s.pop()
                continue
            r = str(s.check())
        if r == "sat":
            # prefer a witness with small integral values (replayable in gfortran)
            model = _nice_model(s, i1) or s.model()
            verdict, which = "sat", desc
            # classification: does the difference need some loop of the original to be zero-trip?
            s.push()
            for tg, trip in i1.trips:
                s.add(z3.Implies(tg, trip >= 1))
            zto = all(_unsat_with(s, d2, c2) for _, d2, c2 in diffs)
            s.pop()
            s.pop()
            break
        if r == "unknown":
            unknown = True
        s.pop()
    if verdict != "sat" and unknown:
        verdict = "unknown"
    oob = None
    if verdict == "unsat" and check_oob and i2.inbounds:
        # the original is assumed conforming (its in-bounds conditions are hypotheses); the
        # transformed program must then stay in bounds too
        s.push()
        s.add(z3.Not(z3.And(*i2.inbounds)))
        if str(s.check()) == "sat":
            oob = _nice_model(s, i1) or s.model()
            verdict, model, which = "sat", oob, "out-of-bounds access in the transformed program"
        s.pop()
    return Result(verdict, model=model, diff=which, solver_s=time.time() - t0, reach=reach,
                  nontrivial=nontrivial, i1=i1, i2=i2, oob=oob, zero_trip_only=zto)


def _abstract_unsat(assume, cons, d, timeout_ms):
    """Retry with non-linear products abstracted to uninterpreted functions: unsat there
    implies unsat of the real query; anything else means nothing."""
    from .terms import abstract_nl
    ts = abstract_nl(list(assume) + list(cons) + [d])
    s2 = z3.Solver()
    s2.set("timeout", timeout_ms)
    for t in ts:
        s2.add(t)
    return str(s2.check()) == "unsat"


def _unsat_with(s, d, cons):
    s.push()
    for c in cons:
        s.add(c)
    s.add(d)
    r = str(s.check())
    s.pop()
    return r == "unsat"


def _nice_model(s, it, lim=6):
    """Try to find a model whose scalar real inputs are small integers."""
    s.push()
    try:
        for k, t in it.inputs.items():
            if not z3.is_expr(t):
                continue
            if t.sort() == R:
                s.add(z3.IsInt(t), t >= -lim, t <= lim)
            elif t.sort() == I:
                s.add(t >= -lim * 2, t <= lim * 2)
        if str(s.check()) == "sat":
            return s.model()
        return None
    finally:
        s.pop()


# ---------------------------------------------------------------- gfortran replay
def mval(model, t):
    v = model.eval(t, model_completion=True)
    v = z3.simplify(v)
    if z3.is_int_value(v):
        return v.as_long()
    if z3.is_rational_value(v):
        return Fraction(v.numerator_as_long(), v.denominator_as_long())
    if z3.is_true(v):
        return True
    if z3.is_false(v):
        return False
    if z3.is_algebraic_value(v):
        return Fraction(v.approx(20).numerator_as_long(), v.approx(20).denominator_as_long())
    raise ValueError("cannot evaluate " + str(t) + " -> " + str(v))


def _flit(v, tname):
    if tname == "logical":
        return ".true." if v else ".false."
    if tname == "integer":
        return str(int(v))
    fr = Fraction(v)
    if fr.denominator == 1:
        return f"{fr.numerator}.0d0"
    return f"({fr.numerator}.0d0/{fr.denominator}.0d0)"


def make_driver(it, routine, model, modname):
    """Fortran driver program: sets inputs from the model, calls the routine, prints
    the observables.  `it` is the interpreter of the ORIGINAL program (declarations)."""
    from fparser.two import Fortran2003 as F
    node, mname = it.routines[routine.lower()]
    fr = it.top_frame
    decls, sets, prints = [], [], []
    tspec = _type_specs(node)
    gl = _type_specs_module(it, mname) if mname else {}
    allvars = [(d, fr.vars[d], tspec) for d in fr.dummies]
    for gname, gb in it.globals.items():
        if not gb.is_param and gb.tname != "struct":
            allvars.append((gname, gb, gl))
    for name, b, specs in allvars:
        is_dummy = specs is tspec
        if b.tname == "struct":
            if not is_dummy or b.rank:
                raise Unsupported("struct in driver")
            decls.append(f"  type({b.struct}) :: v_{name}")
            for ck, (ctn, crank) in it.meta.items():
                if not ck.startswith(b.key + "%") or ctn == "struct" or ck not in it.inputs:
                    continue
                comp = ck[len(b.key) + 1:]
                if "%" in comp:
                    raise Unsupported("nested struct in driver")
                if crank == 0:
                    sets.append(f"  v_{name}%{comp} = {_flit(mval(model, it.inputs[ck]), ctn)}")
                    prints.append((f"v_{name}%{comp}", ctn, None))
                else:
                    lit = it.comp_literal_bounds.get(ck)
                    if lit is None or crank != 1:
                        raise Unsupported("struct array component without literal bounds in driver")
                    for i in range(lit[0][0], lit[0][1] + 1):
                        v = mval(model, select(it.inputs[ck], [z3.IntVal(i)]))
                        sets.append(f"  v_{name}%{comp}({i}) = {_flit(v, ctn)}")
                    prints.append((f"v_{name}%{comp}", ctn, lit))
            continue
        ts = specs.get(name, {"integer": "integer", "real": "real", "logical": "logical"}[b.tname])
        dname = f"v_{name}" if is_dummy else name
        if b.rank == 0:
            if is_dummy:
                decls.append(f"  {ts} :: {dname}")
            if b.key in it.inputs:
                sets.append(f"  {dname} = {_flit(mval(model, it.inputs[b.key]), b.tname)}")
            prints.append((dname, b.tname, None))
        else:
            bnds = [(mval(model, lb), mval(model, ub)) for lb, ub in b.bounds]
            if is_dummy:
                decls.append(f"  {ts}, allocatable :: {dname}({','.join(':' * 1 for _ in bnds)})")
                sets.append(f"  allocate({dname}({','.join(f'{l}:{u}' for l, u in bnds)}))")
            import itertools
            rngs = [range(l, u + 1) for l, u in bnds]
            n = 1
            for r in rngs:
                n *= max(len(r), 0)
            if n > 4000:
                raise Unsupported("array too large for driver")
            arr0 = it.inputs.get(b.key)
            for idx in itertools.product(*rngs):
                if arr0 is not None:
                    v = mval(model, select(arr0, [z3.IntVal(i) for i in idx]))
                    sets.append(f"  {dname}({','.join(map(str, idx))}) = {_flit(v, b.tname)}")
            prints.append((dname, b.tname, bnds))
    is_func = fr.result_name is not None
    lines = ["program drv"]
    if mname:
        lines.append(f"  use {modname or mname}")
        # module variables the driver sets / prints may live in other modules of the same text
        for other in getattr(it, "modules", {}):
            if other != mname and not modname:
                lines.append(f"  use {other}")
    lines.append("  implicit none")
    lines += decls
    if is_func:
        rb = fr.vars[fr.result_name]
        lines.append(f"  {tspec.get(fr.result_name, rb.tname)} :: v_result")
    if not mname:
        lines.append(f"  external :: {routine}")
    lines += sets
    args = ", ".join(f"v_{d}" for d in fr.dummies)
    if is_func:
        if not mname:
            raise Unsupported("external function in driver")
        lines.append(f"  v_result = {routine}({args})")
        prints.append(("v_result", fr.vars[fr.result_name].tname, None))
    else:
        lines.append(f"  call {routine}({args})")
    lines.append("  print *, 'OBS-BEGIN'")
    for dname, tname, bnds in prints:
        if bnds is None:
            lines.append(f"  print *, '{dname}', {dname}")
        else:
            lines.append(f"  print *, '{dname}', {dname}")
    lines.append("end program drv")
    return "\n".join(lines) + "\n"


def _type_specs(node):
    from fparser.two import Fortran2003 as F
    out = {}
    for part in node.content:
        if isinstance(part, F.Specification_Part):
            for d in part.content:
                if isinstance(d, F.Type_Declaration_Stmt):
                    for ent in d.items[2].items:
                        out[str(ent.items[0]).lower()] = str(d.items[0])
    return out


def _type_specs_module(it, mname):
    from fparser.two import Fortran2003 as F
    out = {}
    for part in it.modules[mname].content:
        if isinstance(part, F.Specification_Part):
            for d in part.content:
                if isinstance(d, F.Type_Declaration_Stmt):
                    for ent in d.items[2].items:
                        out[str(ent.items[0]).lower()] = str(d.items[0])
    return out


def run_gfortran(src, driver, workdir, flags=(), timeout=300, env=None):
    os.makedirs(workdir, exist_ok=True)
    with open(os.path.join(workdir, "unit.f90"), "w", encoding="utf-8") as fh:
        fh.write(src)
    with open(os.path.join(workdir, "drv.f90"), "w", encoding="utf-8") as fh:
        fh.write(driver)
    cmd = ["gfortran", "-O0", "-ffree-line-length-none", "-fno-range-check", "-fcheck=bounds", *flags,
           "unit.f90", "drv.f90", "-o", "a.out"]
    try:
        p = subprocess.run(cmd, cwd=workdir, capture_output=True, text=True, timeout=timeout)
    except subprocess.TimeoutExpired:
        return None, "COMPILE-TIMEOUT"
    if p.returncode != 0:
        return None, "COMPILE-ERROR\n" + p.stderr[-2000:]
    try:
        e = dict(os.environ)
        if env:
            e.update(env)
        q = subprocess.run(["./a.out"], cwd=workdir, capture_output=True, text=True,
                           timeout=timeout, env=e)
    except subprocess.TimeoutExpired:
        return None, "RUN-TIMEOUT"
    if q.returncode != 0:
        return None, f"RUNTIME-ERROR rc={q.returncode}\n" + q.stdout[-1500:] + q.stderr[-1500:]
    return q.stdout, q.stderr


def parse_numbers(out):
    vals = []
    for tok in out.replace(",", " ").split():
        try:
            vals.append(float(tok))
        except ValueError:
            if tok in ("T", "F"):
                vals.append(1.0 if tok == "T" else 0.0)
            elif tok.lower() in ("nan", "infinity", "-infinity", "+infinity"):
                vals.append(tok.lower())
    return vals


def outputs_differ(o1, o2, tol=1e-9):
    a, b = parse_numbers(o1), parse_numbers(o2)
    if len(a) != len(b):
        return True
    for x, y in zip(a, b):
        if isinstance(x, str) or isinstance(y, str):
            if x != y:
                return True
            continue
        if abs(x - y) > tol * max(1.0, abs(x), abs(y)):
            return True
    return False


def replay(res, src1, src2, routine, flags=(), keep=None):
    """Compile both programs with a driver built from the model and compare stdout.
    -> (reproduced: bool|None, text).  None = could not replay (compile error etc.)."""
    it = res.i1
    try:
        driver = make_driver(it, routine, res.model, None)
    except (Unsupported, ValueError) as e:
        return None, f"driver generation failed: {e}"
    base = tempfile.mkdtemp(prefix="fsym_replay_")
    try:
        o1, e1 = run_gfortran(src1, driver, os.path.join(base, "a"), flags)
        o2, e2 = run_gfortran(src2, driver, os.path.join(base, "b"), flags)
        text = (f"! ---- driver ----\n{driver}\n! ---- original ----\n{src1}\n"
                f"! ---- transformed ----\n{src2}\n! ---- stdout original ----\n{o1}\n{e1 if o1 is None else ''}"
                f"\n! ---- stdout transformed ----\n{o2}\n{e2 if o2 is None else ''}\n"
                f"! differing observable (solver): {res.diff}\n")
        if o1 is None:
            return None, "original failed: " + e1 + "\n" + text
        if o2 is None and e2.startswith(("COMPILE-TIMEOUT", "RUN-TIMEOUT")):
            return None, "transformed timed out (machine load?): " + e2 + "\n" + text
        if o2 is None:
            # transformed program does not compile / run: that is itself a reproduced defect
            return True, "transformed failed: " + e2 + "\n" + text
        return outputs_differ(o1, o2), text
    finally:
        if keep:
            shutil.copytree(base, keep, dirs_exist_ok=True)
        shutil.rmtree(base, ignore_errors=True)
