"""z3 term helpers with Fortran semantics (mathematical integers, exact reals)."""
import z3

I, R, B = z3.IntSort(), z3.RealSort(), z3.BoolSort()


def simp(t):
    return z3.simplify(t) if z3.is_expr(t) else t


def is_num(t):
    return z3.is_int_value(t) or z3.is_rational_value(t)


def intval(t):
    """Python int if t simplifies to an integer numeral else None."""
    if isinstance(t, int):
        return t
    t = z3.simplify(t)
    if z3.is_int_value(t):
        return t.as_long()
    return None


def is_true(t):
    return z3.is_true(z3.simplify(t))


def is_false(t):
    return z3.is_false(z3.simplify(t))


def AND(*xs):
    xs = [x for x in xs if not z3.is_true(x)]
    if any(z3.is_false(x) for x in xs):
        return z3.BoolVal(False)
    if not xs:
        return z3.BoolVal(True)
    if len(xs) == 1:
        return xs[0]
    return z3.And(*xs)


def OR(*xs):
    xs = [x for x in xs if not z3.is_false(x)]
    if any(z3.is_true(x) for x in xs):
        return z3.BoolVal(True)
    if not xs:
        return z3.BoolVal(False)
    if len(xs) == 1:
        return xs[0]
    return z3.Or(*xs)


def NOT(x):
    if z3.is_true(x):
        return z3.BoolVal(False)
    if z3.is_false(x):
        return z3.BoolVal(True)
    return z3.Not(x)


def ITE(c, a, b):
    if z3.is_true(c):
        return a
    if z3.is_false(c):
        return b
    if a is b or (z3.is_expr(a) and z3.is_expr(b) and a.eq(b)):
        return a
    return z3.If(c, a, b)


def tdiv(a, b):
    """Fortran integer division: truncation toward zero."""
    bv, av = intval(b), intval(a)
    if bv is not None and av is not None and bv != 0:
        q = abs(av) // abs(bv)
        return z3.IntVal(q if (av >= 0) == (bv > 0) else -q)
    if bv is not None and bv > 0:
        return z3.If(a >= 0, a / b, -((-a) / b))
    if bv is not None and bv < 0:
        return z3.If(a >= 0, -(a / (-b)), (-a) / (-b))
    return z3.If(b > 0, z3.If(a >= 0, a / b, -((-a) / b)),
                 z3.If(a >= 0, -(a / (-b)), (-a) / (-b)))


def tmod(a, b):
    """Fortran MOD (sign of a)."""
    return a - tdiv(a, b) * b


def fmodulo(a, b):
    """Fortran MODULO (sign of b) for integers."""
    r = tmod(a, b)
    return z3.If(z3.And(r != 0, (r < 0) != (b < 0)), r + b, r)


def to_real(t):
    if t.sort() == R:
        return t
    if t.sort() == I:
        return z3.ToReal(t)
    raise TypeError("to_real of " + str(t.sort()))


def trunc(t):
    """real -> integer, toward zero."""
    if t.sort() == I:
        return t
    return z3.If(t >= 0, z3.ToInt(t), -z3.ToInt(-t))


def nint(t):
    if t.sort() == I:
        return t
    half = z3.RealVal("1/2")
    return z3.If(t >= 0, z3.ToInt(t + half), -z3.ToInt(-t + half))


def coerce(t, sort):
    if t.sort() == sort:
        return t
    if sort == R and t.sort() == I:
        return z3.ToReal(t)
    if sort == I and t.sort() == R:
        return trunc(t)
    raise TypeError(f"cannot coerce {t.sort()} to {sort}")


def numeric_pair(a, b):
    if a.sort() == b.sort():
        return a, b
    return to_real(a), to_real(b)


_UF = {}


def uf(name, *sorts):
    key = (name,) + tuple(str(s) for s in sorts)
    if key not in _UF:
        _UF[key] = z3.Function(name, *sorts)
    return _UF[key]


def power(a, b):
    bv = intval(b) if b.sort() == I else None
    if bv is not None and 0 <= bv <= 12:
        if bv == 0:
            return z3.IntVal(1) if a.sort() == I else z3.RealVal(1)
        r = a
        for _ in range(bv - 1):
            r = r * a
        return r
    f = uf(f"pow_{a.sort()}_{b.sort()}", a.sort(), b.sort(), a.sort())
    return f(a, b)


def sort_of(tname):
    return {"integer": I, "real": R, "logical": B, "double": R}[tname]


def arr_sort(elem, rank):
    s = elem
    for _ in range(rank):
        s = z3.ArraySort(I, s)
    return s


def select(a, idx):
    for i in idx:
        a = z3.Select(a, i)
    return a


def store(a, idx, v):
    if len(idx) == 1:
        return z3.Store(a, idx[0], v)
    inner = z3.Select(a, idx[0])
    return z3.Store(a, idx[0], store(inner, idx[1:], v))


def abstract_nl(terms):
    """Replace every product of two or more non-numeral factors (and every division by a
    non-numeral) by an uninterpreted function application (arguments ordered by term id so
    commutativity is kept).  `unsat` of the abstracted query implies `unsat` of the
    original (the abstraction only forgets facts); `sat` means nothing."""
    cache = {}
    axioms = []
    mulr = z3.Function("nl_mul_R", R, R, R)
    muli = z3.Function("nl_mul_I", I, I, I)
    divr = z3.Function("nl_div_R", R, R, R)

    def walk(t):
        k = t.get_id()
        if k in cache:
            return cache[k]
        if z3.is_quantifier(t) or not z3.is_app(t) or t.num_args() == 0:
            cache[k] = t
            return t
        kind = t.decl().kind()
        if kind == z3.Z3_OP_MUL:
            # flatten nested products so that the abstraction is canonical for a multiset of factors
            flat, todo = [], list(t.children())
            while todo:
                c = todo.pop(0)
                if z3.is_app(c) and c.decl().kind() == z3.Z3_OP_MUL:
                    todo = list(c.children()) + todo
                else:
                    flat.append(c)
            args = [walk(a) for a in flat]
        else:
            args = [walk(a) for a in t.children()]
        r = None
        if kind == z3.Z3_OP_MUL:
            nums = [a for a in args if is_num(a)]
            others = sorted([a for a in args if not is_num(a)], key=lambda a: a.get_id())
            if len(others) >= 2:
                f = mulr if t.sort() == R else muli
                acc = others[0]
                for o in others[1:]:
                    axioms.append(f(acc, o) == f(o, acc))
                    acc = f(acc, o)
                r = acc
                for n in nums:
                    r = n * r
        elif kind == z3.Z3_OP_DIV and not is_num(args[1]):
            r = divr(args[0], args[1])
        if r is None and kind == z3.Z3_OP_MUL:
            r = args[0]
            for a in args[1:]:
                r = r * a
        if r is None:
            r = t.decl()(*args) if args else t
        cache[k] = r
        return r
    out = [walk(t) for t in terms]
    return out + axioms
