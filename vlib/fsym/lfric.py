"""LFRic stub table for front end F (DESIGN section 3, `Calls`): enough of field_type /
field_proxy_type / function_space_type / mesh_type / scalar_type for generated PSy layers.

Contract (every item is an assumption of the checks that use this module):
* a field object F owns one data array  F%data(1:undf_F)  (real or integer, taken from the
  declaration of the pointer that is associated with it);
* F%get_proxy() is the same object; proxy%vspace%get_undf() = undf_F,
  get_last_dof_owned() = owned_F, get_last_dof_annexed() = annexed_F with
  0 <= owned_F <= annexed_F <= undf_F; get_last_dof_halo(d) = halo_F(d) with
  annexed_F <= halo_F(d) <= undf_F;
* mesh%get_halo_depth() is a positive integer; scalar_type%get_sum() returns %value (one rank);
* set_dirty / set_clean / halo_exchange* / is_dirty calls are recorded as events and have no
  effect on data (C20 does not depend on halo contents)."""
import z3
from fparser.two import Fortran2003 as F

from .interp import Interp, Unsupported, Binding, lname
from .terms import AND, simp


class LfricInterp(Interp):
    def __init__(self, *a, **kw):
        super().__init__(*a, **kw)
        self.allow_save_struct = True
        self.field_ints = {}          # (object key, what) -> z3 Int
        self.lfric_events = []        # (guard, object key, method, args)
        self.extern_handler = self._lfric_call
        self.comment_handler = None
        self.struct_hints.update({"value": ("real", 0)})

    # ------------------------------------------------------------ environment
    def use_handler(self, d, frame):
        return True

    def fint(self, okey, what):
        k = (okey, what)
        if k not in self.field_ints:
            v = z3.Int(f"{what}_{okey}")
            self.field_ints[k] = v
            self.inputs[f"{what}_{okey}"] = v
            if what == "undf":
                self.assumptions.append(v >= 0)
            elif what == "owned":
                self.assumptions += [v >= 0, v <= self.fint(okey, "annexed")]
            elif what == "annexed":
                self.assumptions += [v >= 0, v <= self.fint(okey, "undf")]
            elif what == "halo_depth":
                self.assumptions.append(v >= 1)
        return self.field_ints[k]

    # ------------------------------------------------------------ declarations
    def _declare_stmt(self, d, frame, dummies, actuals, top, guard, keyprefix):
        attrs = d.items[1].items if d.items[1] is not None else []
        if any(isinstance(a, F.Attr_Spec) and str(a).upper() == "POINTER" for a in attrs):
            tname, dtype = self._type_of_spec(d.items[0])
            rank = 0
            for a in attrs:
                if isinstance(a, F.Dimension_Attr_Spec):
                    rank = len(a.items[1].items)
            for ent in d.items[2].items:
                name = lname(ent.items[0])
                if ent.items[1] is not None:
                    rank = len(ent.items[1].items)
                b = Binding(name, tname, None, rank=rank, struct=dtype)
                b.is_pointer = True
                frame.vars[name] = b
            return
        return super()._declare_stmt(d, frame, dummies, actuals, top, guard, keyprefix)

    def _type_of_spec(self, spec):
        if isinstance(spec, F.Intrinsic_Type_Spec):
            t = str(spec.items[0]).lower()
            if t.startswith("double"):
                return "real", None
            if t in ("integer", "real", "logical"):
                return t, None
        return super()._type_of_spec(spec)

    # ------------------------------------------------------------ statements
    def exec_assign(self, lhs, rhs, frame, g, mask):
        # proxy = field%get_proxy(): the proxy IS the field object
        if isinstance(lhs, F.Name) and self._is_method(rhs, "get_proxy"):
            base = self._method_base(rhs, frame)
            frame.vars[lname(lhs)] = Binding(lname(lhs), "struct", base.key, rank=base.rank, struct=base.struct)
            return
        return super().exec_assign(lhs, rhs, frame, g, mask)

    def exec_ptr_assign(self, s, frame, g):
        lhs, rhs = s.items[0], s.items[2]
        name = lname(lhs)
        b = frame.vars.get(name)
        if b is None:
            raise Unsupported("pointer assignment to " + name)
        if self._is_method(rhs, None):
            # mesh => proxy%vspace%get_mesh(): an opaque object
            base = self._method_base(rhs, frame)
            frame.vars[name] = Binding(name, "struct", base.key + "%mesh", struct="mesh_type")
            return
        if isinstance(rhs, F.Data_Ref):
            parts = rhs.items
            base = self.lookup(lname(parts[0]), frame)
            if base is None or base.tname != "struct":
                raise Unsupported("pointer target")
            comp = "%".join(lname(p) for p in parts[1:])
            key = base.key + "%" + comp
            if b.tname == "struct":
                frame.vars[name] = Binding(name, "struct", key, struct=b.struct)
                return
            if key not in self.store:
                self.new_storage(key, b.tname, b.rank, is_input=True)
            elif self.meta[key][0] != b.tname:
                raise Unsupported("pointer type mismatch for " + key)
            if b.rank == 1:
                bounds = [(z3.IntVal(1), self.fint(base.key, "undf"))]
            elif b.rank == 0:
                bounds = []
            else:
                raise Unsupported("rank-%d pointer target" % b.rank)
            frame.vars[name] = Binding(name, b.tname, key, rank=b.rank, bounds=bounds)
            return
        raise Unsupported("pointer assignment form")

    # ------------------------------------------------------------ expressions
    def _method_parts(self, node):
        """(base name, method, args) for `a%b%meth(args)` in either of fparser2's two shapes"""
        if isinstance(node, F.Function_Reference) and isinstance(node.items[0], F.Procedure_Designator):
            pd = node.items[0]
            base = pd.items[0]
            base = base.items[0] if isinstance(base, F.Data_Ref) else base
            args = node.items[1]
            args = [] if args is None else (list(args.items) if hasattr(args, "items") and
                                            not isinstance(args, F.Name) else [args])
            return lname(base), lname(pd.items[2]), args
        if isinstance(node, F.Data_Ref):
            last = node.items[-1]
            if isinstance(last, F.Part_Ref) and lname(last.items[0]).startswith(("get_", "is_")):
                args = last.items[1]
                args = [] if args is None else (list(args.items) if isinstance(args, F.Section_Subscript_List)
                                                else [args])
                return lname(node.items[0]), lname(last.items[0]), args
        return None

    def _is_method(self, node, which):
        mp = self._method_parts(node)
        if mp is None:
            return False
        return mp[1] == which if which else True

    def _method_base(self, node, frame):
        mp = self._method_parts(node)
        b = self.lookup(mp[0], frame)
        if b is None or b.tname != "struct":
            raise Unsupported("method on non-object " + mp[0])
        return b

    def ev(self, node, frame, g):
        if self._is_method(node, None):
            base = self._method_base(node, frame)
            _, meth, args = self._method_parts(node)
            okey = base.key.split("%mesh")[0]
            if meth == "get_undf":
                return self.fint(okey, "undf")
            if meth == "get_last_dof_owned":
                return self.fint(okey, "owned")
            if meth == "get_last_dof_annexed":
                return self.fint(okey, "annexed")
            if meth == "get_last_dof_halo":
                d = self.ev_scalar(args[0], frame, g) if args else z3.IntVal(1)
                h = z3.Function(f"halo_{okey}", z3.IntSort(), z3.IntSort())(d)
                self.assumptions += [h >= self.fint(okey, "annexed"), h <= self.fint(okey, "undf")]
                return h
            if meth == "get_halo_depth":
                return self.fint("mesh", "halo_depth")
            if meth == "get_sum":
                key = base.key + "%value"
                if key not in self.store:
                    raise Unsupported("get_sum before value is set")
                return self.store[key]
            if meth in ("get_ncell", "get_nlayers", "get_last_edge_cell", "get_last_halo_cell", "get_ncolours"):
                return self.fint(okey, meth[4:])
            if meth == "is_dirty":
                d = self.ev_scalar(args[0], frame, g) if args else z3.IntVal(1)
                self.lfric_events.append((g, okey, "is_dirty", (d,)))
                return z3.Function(f"dirty_{okey}", z3.IntSort(), z3.BoolSort())(d)
            raise Unsupported("LFRic method " + meth)
        return super().ev(node, frame, g)

    @staticmethod
    def _lfric_call(self, name, args, frame, g):
        if "%" in name:
            obj, meth = name.rsplit("%", 1)
            b = self.lookup(obj.split("%")[0], frame)
            okey = b.key if b is not None else obj
            vals = []
            for a in args:
                try:
                    vals.append(self.ev_scalar(a, frame, g))
                except Unsupported:
                    vals.append(None)
            self.lfric_events.append((g, okey, meth, tuple(vals)))
            return True
        return False
