"""LFRic stub table for front end F (DESIGN section 3, `Calls`): enough of field_type /
field_proxy_type / function_space_type / mesh_type / scalar_type for generated PSy layers.

Contract (every item is an assumption of the checks that use this module):
* a field object F owns one data array  F%data(1:undf_F)  (real or integer, taken from the
  declaration of the pointer that is associated with it);
* F%get_proxy() is the same object; proxy%vspace%get_undf() = undf_F,
  get_last_dof_owned() = owned_F, get_last_dof_annexed() = annexed_F with
  0 <= owned_F <= annexed_F <= undf_F; get_last_dof_halo(d) = halo_F(d) with
  annexed_F <= halo_F(d) <= undf_F;
* mesh%get_halo_depth() is a positive integer; scalar_type%get_sum() returns %value (one rank);
* set_dirty / set_clean / halo_exchange* / is_dirty calls are recorded as events and have no
  effect on data (C20 does not depend on halo contents)."""
import z3
from fparser.two import Fortran2003 as F

from .interp import Interp, Unsupported, Binding, lname
from .terms import AND, simp


class _First:
    def __init__(self, node, mid):
        self.node, self.mid = node, mid

    def __str__(self):
        return str(self.node)


class LfricInterp(Interp):
    def __init__(self, *a, **kw):
        super().__init__(*a, **kw)
        self.allow_save_struct = True
        self.field_ints = {}
        self.check_kinds = False      # kinds come from external (infrastructure) modules          # (object key, what) -> z3 Int
        self.lfric_events = []        # (guard, object key, method, args)
        self.extern_handler = self._lfric_call
        self.struct_hints.update({"value": ("real", 0)})
        for nm in ("np_xy", "np_z", "np_xyz", "nfaces", "nedges", "ncell_3d", "nrow", "ncol", "bandwidth", "alpha",
                   "beta", "gamma_m", "gamma_p", "ncell_2d"):
            self.struct_hints[nm] = ("integer", 0)
        for nm in ("vspace", "fs_from", "fs_to"):
            self.struct_hints[nm] = ("struct", 0, "function_space_type")
        self.basis_of = {}
        self.extent_contract = {}     # see contract_bounds
        self.obj_args = {}            # accessor object -> argument values it was obtained with
        self.key_alias = {}           # element of a local array of proxies -> the object it is a proxy of
        self.kernel_calls = []        # (guard, name, [arg descriptors], loop stack snapshot)
        self.kernel_effect = None     # callable(self, kernel name, arg nodes, frame, guard): data effect of a kernel
        self.summarise = False        # True: every DO loop is summarised by a Skolem loop variable
        self.loops_seen = []          # dicts: var, skolem, lo, hi, guard, directive, region
        self.loop_stack = []
        self.pending_directive = None
        self.region_stack = []        # enclosing `!$omp parallel` / `!$acc parallel|kernels` regions
        self.comment_handler = self._directive_comment
        self.loop_hook = self._loop_hook

    # ------------------------------------------------------------ environment
    def use_handler(self, d, frame):
        return True

    def fint(self, okey, what):
        k = (okey, what)
        if k not in self.field_ints:
            v = z3.Int(f"{what}_{okey}")
            self.field_ints[k] = v
            self.inputs[f"{what}_{okey}"] = v
            if what == "undf":
                self.assumptions.append(v >= 0)
            elif what == "owned":
                self.assumptions += [v >= 0, v <= self.fint(okey, "annexed")]
            elif what == "annexed":
                self.assumptions += [v >= 0, v <= self.fint(okey, "undf")]
            elif what == "halo_depth":
                self.assumptions.append(v >= 1)
        return self.field_ints[k]

    def extern_function(self, nm, args, frame, g):
        # OpenMP run-time library: one thread's view (thread number arbitrary below the team size)
        low = nm.lower()
        if low == "omp_get_max_threads":
            n = self.fint("omp", "max_threads")
            if not getattr(self, "_omp_assumed", False):
                self._omp_assumed = True
                self.assumptions += [n >= 1, n <= self.K]
            return n
        if low == "omp_get_thread_num":
            n = self.extern_function("omp_get_max_threads", [], frame, g)
            t = self.fint("omp", "thread_num")
            self.assumptions += [t >= 0, t < n]
            return t
        return super().extern_function(nm, args, frame, g)

    # ------------------------------------------------------------ declarations
    def _declare_stmt(self, d, frame, dummies, actuals, top, guard, keyprefix):
        attrs = d.items[1].items if d.items[1] is not None else []
        if any(isinstance(a, F.Attr_Spec) and str(a).upper() in ("POINTER", "ALLOCATABLE") for a in attrs):
            tname, dtype = self._type_of_spec(d.items[0])
            rank = 0
            for a in attrs:
                if isinstance(a, F.Dimension_Attr_Spec):
                    rank = len(a.items[1].items)
            for ent in d.items[2].items:
                name = lname(ent.items[0])
                if ent.items[1] is not None:
                    rank = len(ent.items[1].items)
                b = Binding(name, tname, None, rank=rank, struct=dtype)
                b.is_pointer = True
                frame.vars[name] = b
            return
        return super()._declare_stmt(d, frame, dummies, actuals, top, guard, keyprefix)

    def _type_of_spec(self, spec):
        if isinstance(spec, F.Intrinsic_Type_Spec):
            t = str(spec.items[0]).lower()
            if t.startswith("double"):
                return "real", None
            if t in ("integer", "real", "logical"):
                return t, None
        return super()._type_of_spec(spec)

    # ------------------------------------------------------------ statements
    def exec_assign(self, lhs, rhs, frame, g, mask):
        # proxy = field%get_proxy(): the proxy IS the field object
        if isinstance(lhs, F.Name) and self._is_proxy_getter(rhs):
            base = self._method_base(rhs, frame)
            frame.vars[lname(lhs)] = Binding(lname(lhs), "struct", base.key, rank=base.rank, struct=base.struct)
            return
        if isinstance(lhs, F.Part_Ref) and self._is_proxy_getter(rhs):
            # f_proxy(2) = f(2)%get_proxy(): element-wise alias
            lb = self.lookup(lname(lhs.items[0]), frame)
            if lb is None or lb.tname != "struct":
                raise Unsupported("proxy array " + str(lhs))
            base = self._method_base(rhs, frame)
            subs = lhs.items[1].items if isinstance(lhs.items[1], F.Section_Subscript_List) else [lhs.items[1]]
            ivs = [z3.simplify(self.ev_scalar(x, frame, g)) for x in subs]
            if not all(z3.is_int_value(v) for v in ivs):
                raise Unsupported("proxy array element with a non-literal subscript")
            self.key_alias[lb.key + "[" + ",".join(str(v.as_long()) for v in ivs) + "]"] = base.key
            return
        if self._is_method(rhs, "call_function"):
            return          # evaluator values: contents do not matter here
        if isinstance(lhs, F.Name) and self._is_method(rhs, None):
            b = frame.vars.get(lname(lhs))
            if b is not None and getattr(b, "is_pointer", False) and b.rank > 0:
                self._bind_method_array(lname(lhs), b, rhs, frame)
                return
        return super().exec_assign(lhs, rhs, frame, g, mask)

    def _bind_method_array(self, name, b, rhs, frame):
        base = self._method_base(rhs, frame)
        _, meth, _ = self._method_parts(rhs)
        okey = base.key.split("%mesh")[0] if meth.startswith(("get_colour", "get_last", "get_ncol")) else base.key
        key = f"{okey}%{meth}"
        if key not in self.store:
            self.new_storage(key, b.tname, b.rank, is_input=True)
        bounds = self.contract_bounds(key, b.rank, okey, meth)
        frame.vars[name] = Binding(name, b.tname, key, rank=b.rank, bounds=bounds)

    def exec_alloc(self, s, frame, g):
        if isinstance(s, F.Deallocate_Stmt):
            return
        al = s.items[1]
        for a in (al.items if isinstance(al, F.Allocation_List) else [al]):
            name = lname(a.items[0])
            b = frame.vars.get(name)
            if b is None or not getattr(b, "is_pointer", False) or b.tname == "struct":
                raise Unsupported("allocate " + name)
            shp = a.items[1]
            dims = list(shp.items) if shp is not None else []
            ubs = []
            for d in dims:
                if isinstance(d, F.Allocate_Shape_Spec):
                    if d.items[0] is not None:
                        raise Unsupported("allocate with lower bound")
                    d = d.items[1]
                ubs.append(self.ev_scalar(d, frame, g))
            self.fresh += 1
            key = f"{self.prefix}alloc{self.fresh}_{name}"
            self.new_storage(key, b.tname, len(ubs), is_input=True)     # contents undefined: arbitrary
            nb = Binding(name, b.tname, key, rank=len(ubs), bounds=[(z3.IntVal(1), u) for u in ubs])
            nb.is_pointer = True
            frame.vars[name] = nb

    def exec_ptr_assign(self, s, frame, g):
        lhs, rhs = s.items[0], s.items[2]
        name = lname(lhs)
        b = frame.vars.get(name)
        if b is None:
            raise Unsupported("pointer assignment to " + name)
        if self._is_method(rhs, None) and b.tname != "struct" and b.rank > 0:
            self._bind_method_array(name, b, rhs, frame)
            return
        if self._is_method(rhs, None):
            # mesh => proxy%vspace%get_mesh(): an opaque object
            base = self._method_base(rhs, frame)
            meth = self._method_parts(rhs)[1]
            if meth == "get_mesh":
                frame.vars[name] = Binding(name, "struct", base.key + "%mesh", struct="mesh_type")
            else:       # stencil maps, reference elements, ...: one object per (owner, accessor)
                okey = base.key + "%" + meth
                frame.vars[name] = Binding(name, "struct", okey, struct=b.struct)
                vals = []
                for a in self._method_parts(rhs)[2]:
                    a = a.items[1] if isinstance(a, (F.Actual_Arg_Spec, F.Component_Spec)) else a
                    try:
                        vals.append(self.ev_scalar(a, frame, g))
                    except Unsupported:
                        vals.append(None)
                self.obj_args[okey] = vals
            return
        if isinstance(rhs, F.Data_Ref):
            parts = rhs.items
            bkey, bstruct = self.obj_key(parts[0], frame)
            base = Binding("obj", "struct", bkey, struct=bstruct)
            comp = "%".join(lname(p) for p in parts[1:])
            key = base.key + "%" + comp
            if b.tname == "struct":
                frame.vars[name] = Binding(name, "struct", key, struct=b.struct)
                return
            if key not in self.store:
                self.new_storage(key, b.tname, b.rank, is_input=True)
            elif self.meta[key][0] != b.tname:
                raise Unsupported("pointer type mismatch for " + key)
            if b.rank == 1 and lname(parts[-1]) not in self.extent_contract:
                bounds = [(z3.IntVal(1), self.fint(base.key, "undf"))]
            elif b.rank == 0:
                bounds = []
            else:
                bounds = self.contract_bounds(key, b.rank, base.key, lname(parts[-1]))
            frame.vars[name] = Binding(name, b.tname, key, rank=b.rank, bounds=bounds)
            return
        raise Unsupported("pointer assignment form")

    def contract_bounds(self, key, rank, okey, what):
        """bounds of an infrastructure array: symbolic extents, with the extents the LFRic API documents for
        this accessor substituted (`self.extent_contract`: what -> [callable(self, okey) or None per dimension])"""
        bounds = self._comp_bounds(key, rank)
        spec = self.extent_contract.get(what)
        if spec:
            for d, fn in enumerate(spec[:rank]):
                if fn is not None:
                    e = fn(self, okey)
                    self.assumptions.append(bounds[d][1] == e)
        return bounds

    # ------------------------------------------------------------ expressions
    def _method_parts(self, node):
        """(first part, method, args) for `a%b%meth(args)` in either of fparser2's two shapes; the first
        part is a Name or a Part_Ref (element of an array of objects); `self._mid` receives the components
        between the two"""
        if isinstance(node, F.Function_Reference) and isinstance(node.items[0], F.Procedure_Designator):
            pd = node.items[0]
            base = pd.items[0]
            mid = []
            if isinstance(base, F.Data_Ref):
                mid = [lname(x.items[0]) if isinstance(x, F.Part_Ref) else lname(x) for x in base.items[1:]]
                base = base.items[0]
            args = node.items[1]
            args = [] if args is None else (list(args.items) if hasattr(args, "items") and
                                            not isinstance(args, F.Name) else [args])
            return _First(base, mid), lname(pd.items[2]), args
        if isinstance(node, F.Data_Ref):
            last = node.items[-1]
            if isinstance(last, F.Part_Ref) and lname(last.items[0]).startswith(("get_", "is_", "call_function")):
                args = last.items[1]
                args = [] if args is None else (list(args.items) if isinstance(args, F.Section_Subscript_List)
                                                else [args])
                mid = [lname(x.items[0]) if isinstance(x, F.Part_Ref) else lname(x) for x in node.items[1:-1]]
                return _First(node.items[0], mid), lname(last.items[0]), args
        return None

    def _is_proxy_getter(self, node):
        mp = self._method_parts(node)
        return mp is not None and mp[1] in ("get_proxy", "get_quadrature_proxy")

    def _is_method(self, node, which):
        mp = self._method_parts(node)
        if mp is None:
            return False
        return mp[1] == which if which else True

    def obj_key(self, first, frame):
        """key of the object a Name / Part_Ref with literal subscripts denotes (through proxy aliases)"""
        if isinstance(first, F.Part_Ref):
            b = self.lookup(lname(first.items[0]), frame)
            if b is None or b.tname != "struct":
                raise Unsupported("method on non-object " + str(first))
            subs = first.items[1].items if isinstance(first.items[1], F.Section_Subscript_List) else [first.items[1]]
            ivs = []
            for x in subs:
                v = None if isinstance(x, F.Subscript_Triplet) else z3.simplify(self.ev_scalar(x, frame, z3.BoolVal(True)))
                if v is None or not z3.is_int_value(v):
                    raise Unsupported("element of an array of objects with a non-literal subscript")
                ivs.append(v.as_long())
            key = b.key + "[" + ",".join(map(str, ivs)) + "]"
            struct = b.struct
        else:
            b = self.lookup(lname(first), frame)
            if b is None or b.tname != "struct":
                raise Unsupported("method on non-object " + str(first))
            key, struct = b.key, b.struct
        return self.key_alias.get(key, key), struct

    def _method_base(self, node, frame):
        mp = self._method_parts(node)
        key, struct = self.obj_key(mp[0].node, frame)
        for c in mp[0].mid:
            if c != "vspace":            # the function space of a field is identified with the field
                key += "%" + c
        return Binding("obj", "struct", key, struct=struct)

    def ev(self, node, frame, g):
        if isinstance(node, F.Name) and self.lookup(lname(node), frame) is None:
            # a named constant of an infrastructure module (BASIS, x_direction, ...): an arbitrary integer
            return self.fint("extern", lname(node))
        if self._is_method(node, None):
            base = self._method_base(node, frame)
            _, meth, args = self._method_parts(node)
            args = [a.items[1] if isinstance(a, (F.Actual_Arg_Spec, F.Component_Spec)) else a for a in args]
            okey = base.key.split("%mesh")[0]
            if meth == "get_undf":
                return self.fint(okey, "undf")
            if meth == "get_last_dof_owned":
                return self.fint(okey, "owned")
            if meth == "get_last_dof_annexed":
                return self.fint(okey, "annexed")
            if meth == "get_last_dof_halo":
                # no depth argument: the deepest halo of the mesh
                d = self.ev_scalar(args[0], frame, g) if args else self.fint("mesh", "halo_depth")
                h = z3.Function(f"halo_{okey}", z3.IntSort(), z3.IntSort())(d)
                self.assumptions += [h >= self.fint(okey, "annexed"), h <= self.fint(okey, "undf")]
                return h
            if meth == "get_last_halo_cell" and args:
                d = self.ev_scalar(args[0], frame, g)
                k = (f"{okey}@{d}", "last_halo_cell")
                if k not in self.field_ints:
                    self.field_ints[k] = z3.Function(f"last_halo_cell_{okey}", z3.IntSort(), z3.IntSort())(d)
                return self.field_ints[k]
            if meth == "get_halo_depth":
                return self.fint("mesh", "halo_depth")
            if meth == "get_sum":
                key = base.key + "%value"
                if key not in self.store:
                    raise Unsupported("get_sum before value is set")
                return self.store[key]
            if meth in ("get_ncell", "get_nlayers", "get_last_edge_cell", "get_last_halo_cell", "get_ncolours"):
                return self.fint(okey, meth[4:])
            if meth == "is_dirty":
                d = self.ev_scalar(args[0], frame, g) if args else z3.IntVal(1)
                self.lfric_events.append((g, okey, "is_dirty", (d,)))
                return z3.Function(f"dirty_{okey}", z3.IntSort(), z3.BoolSort())(d)
            if meth.startswith("get_") and not args:
                return self.fint(okey, meth[4:])
            raise Unsupported("LFRic method " + meth)
        return super().ev(node, frame, g)

    @staticmethod
    def _lfric_call(self, name, args, frame, g):
        if "%" in name:
            obj, meth = name.rsplit("%", 1)
            b = self.lookup(obj.split("%")[0], frame)
            okey = b.key if b is not None else obj
            vals = []
            for a in args:
                if isinstance(a, (F.Actual_Arg_Spec, F.Component_Spec)):
                    a = a.items[1]
                try:
                    vals.append(self.ev_scalar(a, frame, g))
                except Unsupported:
                    vals.append(None)
            self.lfric_events.append((g, okey, meth, tuple(vals)))
            if meth == "compute_function" and args and isinstance(args[-1], F.Name):
                ba = self.lookup(lname(args[-1]), frame)
                if ba is not None and ba.key:
                    self.basis_of[ba.key] = okey        # evaluator array <- the quadrature object that filled it
            return True
        if name.endswith("_code"):
            descr = []
            for a in args:
                if isinstance(a, F.Name):
                    b = self.lookup(lname(a), frame)
                    descr.append(("name", lname(a), b.key if b is not None else None))
                elif isinstance(a, F.Part_Ref):
                    subs = a.items[1]
                    subs = list(subs.items) if isinstance(subs, F.Section_Subscript_List) else [subs]
                    fixed = [self.ev_scalar(x, frame, g) for x in subs if not isinstance(x, F.Subscript_Triplet)]
                    b = self.lookup(lname(a.items[0]), frame)
                    descr.append(("section", lname(a.items[0]), b.key if b is not None else None, fixed))
                else:
                    try:
                        descr.append(("value", self.ev_scalar(a, frame, g)))
                    except Unsupported:
                        descr.append(("other", str(a)))
            self.kernel_calls.append((g, name[:-5], descr, list(self.loop_stack), list(self.region_stack)))
            if self.kernel_effect is not None:
                self.kernel_effect(self, name[:-5], args, frame, g)
            return True
        return False

    # ------------------------------------------------------------ directives and loop summaries
    @staticmethod
    def _directive_comment(self, text, frame, g):
        low = " ".join(text.strip().lower().split())
        if low.startswith("!$omp parallel do") or low.startswith("!$omp do") or low.startswith("!$acc loop"):
            self.pending_directive = low
        elif low.startswith("!$omp parallel") or low.startswith("!$acc parallel") or low.startswith("!$acc kernels"):
            self.region_stack.append(low)
        elif low.startswith(("!$omp end parallel do", "!$omp end do")):
            pass
        elif low.startswith(("!$omp end parallel", "!$acc end parallel", "!$acc end kernels")):
            if self.region_stack:
                self.region_stack.pop()

    @staticmethod
    def _loop_hook(self, s, frame, g):
        if not self.summarise:
            self.pending_directive = None
            return False
        content = [c for c in s.content if not isinstance(c, F.Comment)]
        head = content[0]
        # fparser2 attaches the comments that precede a DO statement to the construct: directives first
        lead = s.content[:s.content.index(head)]
        for c in lead:
            self._directive_comment(self, c.tostr() if hasattr(c, "tostr") else str(c), frame, g)
        body = [c for c in s.content[len(lead):] if c is not head and not isinstance(c, F.End_Do_Stmt)]
        lc = head.items[-1] if isinstance(head.items[-1], F.Loop_Control) else head.items[1]
        if not isinstance(lc, F.Loop_Control) or lc.items[1] is None:
            raise Unsupported("loop control")
        var, lims = lc.items[1]
        vb = self.lookup(lname(var), frame)
        lo = self.ev_scalar(lims[0], frame, g)
        hi = self.ev_scalar(lims[1], frame, g)
        self.fresh += 1
        sk = z3.Int(f"sk_{lname(var)}_{self.fresh}")
        info = {"var": lname(var), "skolem": sk, "lo": lo, "hi": hi, "guard": g,
                "directive": self.pending_directive, "regions": list(self.region_stack), "id": self.fresh}
        self.pending_directive = None
        self.loops_seen.append(info)
        self.store[vb.key] = sk
        self.loop_stack.append(info)
        self.exec_block(body, frame, AND(g, sk >= lo, sk <= hi))
        self.loop_stack.pop()
        return True
