"""G-L: loop-nest program family (DESIGN Appendix F).  Every case is
(template id, params dict, Fortran source, routine name)."""
import itertools
import random

HEAD = """module m
  implicit none
  integer, parameter :: wp = 8
contains
  subroutine s(a, b, c, a2, b2, n, m2, lo, hi, t, k, r, len1)
    integer, intent(in) :: n, m2, lo, hi
    integer, dimension(0:m2+3), intent(in) :: len1
    real(kind=wp), dimension(0:n+3), intent(inout) :: a, b, c
    real(kind=wp), dimension(0:n+3,0:m2+3), intent(inout) :: a2, b2
    real(kind=wp), intent(inout) :: t, r
    integer, intent(inout) :: k
    integer :: i, j{locals}
{body}
  end subroutine s
  subroutine bump(x)
    integer, intent(inout) :: x
    x = x + 10
  end subroutine bump
  subroutine scale2(x, y)
    real(kind=wp), intent(in) :: x
    real(kind=wp), intent(out) :: y
    y = x * 2.0
  end subroutine scale2
end module m
"""


def prog(body, locals_=""):
    body = "\n".join("    " + l for l in body.strip("\n").split("\n"))
    return HEAD.format(body=body, locals=locals_)


def off(v, d):
    if d == 0:
        return v
    return f"{v}+{d}" if d > 0 else f"{v}-{-d}"


def bounds(step):
    if step == 1:
        return "lo, hi"
    if step == -1:
        return "hi, lo, -1"
    return f"lo, hi, {step}"


def gen(tier, seed):
    rnd = random.Random(seed)
    cases = []
    D = [-1, 0, 1, 2]

    def add(tmpl, params, body, locals_=""):
        cases.append({"template": tmpl, "params": params, "src": prog(body, locals_),
                      "routine": "s"})

    # fuse_rw
    for d1, d2, step in itertools.product(D, D, [1, 2, -1]):
        add("fuse_rw", {"d1": d1, "d2": d2, "step": step}, f"""
do i = {bounds(step)}
  a({off('i', d1)}) = b(i) + 1.0
end do
do i = {bounds(step)}
  c(i) = a({off('i', d2)}) * 2.0
end do""")
    # fuse_wr : loop 1 reads, loop 2 writes (anti dependence)
    for d1, d2 in itertools.product(D, D):
        add("fuse_wr", {"d1": d1, "d2": d2}, f"""
do i = lo, hi
  c(i) = a({off('i', d1)}) * 2.0
end do
do i = lo, hi
  a({off('i', d2)}) = b(i) + 1.0
end do""")
    # fuse_ww
    for d1, d2 in itertools.product(D, D):
        add("fuse_ww", {"d1": d1, "d2": d2}, f"""
do i = lo, hi
  a({off('i', d1)}) = b(i) + 1.0
end do
do i = lo, hi
  a({off('i', d2)}) = c(i) * 2.0
end do""")
    # fuse_scalar
    for c1, c2, mode in itertools.product([0, 1], [0, 1], ["ww", "wr", "rw"]):
        s1 = "t = b(i)" if mode[0] == "w" else "c(i) = t"
        s2 = "t = a(i) + 1.0" if mode[1] == "w" else "a(i) = t * 2.0"
        if c1:
            s1 = f"if (b(i) > 0.0) {s1}"
        if c2:
            s2 = f"if (c(i) > 0.0) {s2}"
        add("fuse_scalar", {"cond1": c1, "cond2": c2, "mode": mode}, f"""
do i = lo, hi
  {s1}
end do
do i = lo, hi
  {s2}
end do""")
    # fuse_vars
    for same, uses in itertools.product([0, 1], [0, 1, 2]):
        v2 = "i" if same else "j"
        extra = {0: "", 1: " + j", 2: " + k"}[uses]
        add("fuse_vars", {"same": same, "uses": uses}, f"""
do i = lo, hi
  a(i) = b(i){extra}
end do
do {v2} = lo, hi
  c({v2}) = a({v2}) * 2.0
end do""")
    # fuse with different but equal-looking bounds
    for kind in ["n_vs_n", "mod_bound", "bound_written"]:
        if kind == "n_vs_n":
            b1, b2, pre = "1, n", "1, n + 0", ""
        elif kind == "mod_bound":
            b1, b2, pre = "1, k", "1, k", ""
        else:
            b1, b2, pre = "1, k", "1, k", "k = k - 1"
        body = f"""
do i = {b1}
  a(i) = b(i) + 1.0
  {pre}
end do
do i = {b2}
  c(i) = a(i) * 2.0
end do"""
        add("fuse_bounds", {"kind": kind}, body.replace("\n  \n", "\n"))
    # swap2
    swaps = list(itertools.product([0, 1], [0, -1, 1], [0, -1, 1], [0, -1, 1], [0, 1]))
    if tier == "quick":
        swaps = [s for s in swaps if s[0] == 0 or (s[1], s[2]) == (0, 0)]
    for tri, dj, ei, ej, sc in swaps:
        inner = "1, j" if tri else "1, n"
        scal = "\n    t = a2(i,j)" if sc else ""
        add("swap2", {"tri": tri, "dj": dj, "ei": ei, "ej": ej, "sc": sc}, f"""
do j = 1, m2
  do i = {inner}
    a2(i,{off('j', dj)}) = a2({off('i', ei)},{off('j', ej)}) + b2(i,j){scal}
  end do
end do""")
    # swap2 with a bound that depends on the other loop's variable only through an array subscript
    for v, (ob, ib) in enumerate([("1, m2", "1, len1(j)"), ("1, m2", "len1(j), n"), ("1, m2", "1, n, len1(j)")]):
        add("swap2dep", {"v": v}, f"""
do j = {ob}
  do i = {ib}
    a2(i,j) = a2(i,j) + b2(i,j)
  end do
end do""")
    # chunk
    for step, d in itertools.product([1, 2, -1, 3], [-1, 0, 1]):
        add("chunk", {"step": step, "d": d}, f"""
do i = {bounds(step)}
  a(i) = a({off('i', d)}) + b(i)
end do""")
    # tile2
    for di, dj in itertools.product([-1, 0, 1], [-1, 0, 1]):
        add("tile2", {"di": di, "dj": dj}, f"""
do j = 1, m2
  do i = 1, n
    a2(i,j) = a2({off('i', di)},{off('j', dj)}) + b2(i,j)
  end do
end do""")
    # hoist
    exprs = {"const": "2.0", "c1": "c(1)", "bi": "b(i)", "t1": "t + 1.0", "a1": "a(1)",
             "an": "a(n)", "r": "r * 2.0"}
    for ek, pos, obs in itertools.product(exprs, ["first", "last"], ["arg", "local"]):
        tv = "t" if obs == "arg" else "tl"
        e = exprs[ek].replace("t +", f"{tv} +")
        s_h = f"{tv} = {e}"
        s_u = f"a(i) = {tv} + b(i)"
        body = [s_h, s_u] if pos == "first" else [s_u, s_h]
        pre = f"{tv} = 0.5\n" if obs == "local" else ""
        post = f"\nr = {tv}" if obs == "local" else ""
        add("hoist", {"expr": ek, "pos": pos, "obs": obs},
            f"{pre}do i = lo, hi\n  {body[0]}\n  {body[1]}\nend do{post}",
            locals_="\n    real(kind=wp) :: tl")
    # hoist with dependent statements
    add("hoist_chain", {"v": 1}, """
do i = lo, hi
  t = c(1)
  r = t * 2.0
  a(i) = r + b(i)
end do""")
    add("hoist_chain", {"v": 2}, """
do i = lo, hi
  r = t * 2.0
  t = c(1)
  a(i) = r + b(i)
end do""")
    add("hoist_chain", {"v": 3}, """
do i = lo, hi
  k = n + 1
  a(i) = b(k)
  c(i) = k
end do""")
    # hoistbound
    for kind in ["ubound", "size", "nplusk", "mod_n", "call"]:
        ub = {"ubound": "ubound(a, 1) - 3", "size": "size(a) - 4", "nplusk": "n + k",
              "mod_n": "n + k", "call": "lo + hi"}[kind]
        extra = "\n  k = k + 1" if kind == "mod_n" else ""
        add("hoistbound", {"kind": kind}, f"""
do i = 1, {ub}
  a(i) = b(i) + 1.0{extra}
end do""")
    # induct
    for c, form, post, init in itertools.product([1, 2], ["inc", "lin"], [0, 1], ["k", "0"]):
        upd = f"k = k + {c}" if form == "inc" else f"k = i * {c} + 1"
        pre = "" if init == "k" else "k = 0\n"
        pst = "\nr = k" if post else ""
        add("induct", {"c": c, "form": form, "post": post, "init": init},
            f"{pre}do i = lo, hi\n  {upd}\n  a(i) = b(k)\nend do{pst}")
        add("induct_after", {"c": c, "form": form, "post": post, "init": init},
            f"{pre}do i = lo, hi\n  a(i) = b(k)\n  {upd}\nend do{pst}")
    # loops containing calls to (impure) module routines
    for v in [1, 2, 3, 4, 5]:
        body = {1: "k = i - 1\n  call bump(k)\n  a(i) = k",
                2: "k = n + 1\n  call bump(k)\n  a(i) = k",
                3: "call bump(k)\n  a(i) = b(i) + k",
                4: "t = b(i)\n  call scale2(t, r)\n  a(i) = r",
                5: "k = i\n  a(i) = k\n  call bump(k)\n  c(i) = k"}[v]
        add("loop_call", {"v": v}, f"do i = lo, hi\n  {body}\nend do")
    add("fuse_call", {"v": 1}, """
do i = lo, hi
  call bump(k)
end do
do i = lo, hi
  a(i) = k
end do""")
    add("fuse_call", {"v": 2}, """
do i = lo, hi
  call scale2(b(i), a(i))
end do
do i = lo, hi
  c(i) = a(i+1)
end do""")
    # foldret
    for depth, neg in itertools.product([1, 2], [0, 1]):
        conds = ["n < 1", "t > 0.0"][:depth]
        lines = [f"if ({c}) then\n  return\nend if" for c in conds]
        if neg:
            lines[0] = f"if ({conds[0]}) then\n  r = 1.0\n  return\nend if"
        add("foldret", {"depth": depth, "neg": neg}, "\n".join(lines) + """
do i = lo, hi
  a(i) = b(i) + 1.0
end do
t = 3.0""")
    if tier == "quick":
        return _quick_subset(cases, rnd)
    return cases


def _quick_subset(cases, rnd):
    """Quick tier: a fixed core of each template + a seeded sample."""
    by = {}
    for c in cases:
        by.setdefault(c["template"], []).append(c)
    out = []
    for t, lst in by.items():
        core = lst[:10]
        rest = lst[10:]
        rnd.shuffle(rest)
        out += core + rest[:6]
    return out
