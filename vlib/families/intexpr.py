"""G-E (integer part): integer expression pairs for C17.
AST: ('v',name) ('n',int) ('neg',e) ('+',a,b) ('-',a,b) ('*',a,b) ('/',a,b) ('pow',a,n)
('mod',a,b) ('min',a,b) ('max',a,b) ('arr',name,e) ('sarr',e1,e2,e3) = c(e1,e2)%w(e3), an array component
of an element of a rank-2 array of structures"""
import itertools
import random

VARS = ["i", "j", "n", "m"]
# scalar members of two different structures whose '_'-joined names coincide (pa%x_y / pa_x%y -> pa_x_y), and one
# that does not clash; written as variables whose name is the Fortran text of the access
MEMBERS = ["pa%x_y", "pa_x%y", "pa%z"]


def txt(e):
    k = e[0]
    if k == "v":
        return e[1]
    if k == "n":
        return str(e[1]) if e[1] >= 0 else f"({e[1]})"
    if k == "neg":
        return f"(-{txt(e[1])})"
    if k in "+-*/":
        return f"({txt(e[1])} {k} {txt(e[2])})"
    if k == "pow":
        return f"({txt(e[1])} ** {e[2]})"
    if k in ("mod", "min", "max"):
        return f"{k}({txt(e[1])}, {txt(e[2])})"
    if k == "arr":
        return f"{e[1]}({txt(e[2])})"
    if k == "sarr":
        return f"c({txt(e[1])}, {txt(e[2])})%w({txt(e[3])})"
    raise ValueError(k)


def size(e):
    return 1 + sum(size(x) for x in e[1:] if isinstance(x, tuple))


def has(e, kinds):
    return e[0] in kinds or any(has(x, kinds) for x in e[1:] if isinstance(x, tuple))


def V(n):
    return ("v", n)


def N(n):
    return ("n", n)


def rand_expr(rnd, depth, leaves=None, ops=None):
    leaves = leaves or VARS
    if depth == 0 or rnd.random() < 0.25:
        if rnd.random() < 0.35:
            return N(rnd.choice([1, 2, 3, 4, 5]))
        return V(rnd.choice(leaves))
    ops = ops or ["+", "-", "*", "/", "neg", "mod", "min", "max", "pow", "arr", "+", "-", "*"]
    op = rnd.choice(ops)
    if op == "neg":
        return ("neg", rand_expr(rnd, depth - 1, leaves, ops))
    if op == "pow":
        return ("pow", rand_expr(rnd, depth - 1, leaves, ops), rnd.choice([2, 3]))
    if op == "arr":
        return ("arr", "a", rand_expr(rnd, depth - 1, leaves, ops))
    if op in ("/", "mod"):
        den = N(rnd.choice([2, 3, 4])) if rnd.random() < 0.8 else V(rnd.choice(leaves))
        return (op, rand_expr(rnd, depth - 1, leaves, ops), den)
    return (op, rand_expr(rnd, depth - 1, leaves, ops), rand_expr(rnd, depth - 1, leaves, ops))


def rewrites(e, rnd):
    """Yield (name, e') 'probably equal' rewrites at the root of e."""
    k = e[0]
    if k in "+*":
        yield "commute", (k, e[2], e[1])
    if k == "+" and e[1][0] == "+":
        yield "assoc", ("+", e[1][1], ("+", e[1][2], e[2]))
    if k == "*" and e[2][0] in "+-":
        yield "distribute", (e[2][0], ("*", e[1], e[2][1]), ("*", e[1], e[2][2]))
    if k == "/" and e[1][0] in "+-":
        yield "div_distribute", (e[1][0], ("/", e[1][1], e[2]), ("/", e[1][2], e[2]))
    if k == "neg" and e[1][0] == "-":
        yield "neg_sub", ("-", e[1][2], e[1][1])
    if k == "pow" and e[2] == 2:
        yield "square", ("*", e[1], e[1])
    if k == "/" and e[1][0] == "/":
        yield "div_div", ("/", e[1][1], ("*", e[1][2], e[2]))


def wrap_equal(x, rnd):
    """Expressions built around x that are equal to x for real arithmetic."""
    c = N(rnd.choice([2, 3, 4]))
    return [
        ("cancel_div_mul", ("*", ("/", x, c), c)),
        ("cancel_mul_div", ("/", ("*", x, c), c)),
        ("mod_recompose", ("+", ("mod", x, c), ("*", c, ("/", x, c)))),
        ("halves", ("+", ("/", x, N(2)), ("/", x, N(2)))),
        ("minmax_sum", ("-", ("+", ("min", x, V("j")), ("max", x, V("j"))), V("j"))),
        ("add_sub", ("-", ("+", x, V("m")), V("m"))),
        ("div_by_one_trick", ("/", ("*", x, N(4)), ("*", N(2), N(2)))),
    ]


def sympy_const_fortran_var(rnd):
    """Terms that sympy simplifies to a non-zero constant but that can be zero (or other)
    in Fortran integer arithmetic."""
    x = V(rnd.choice(VARS))
    return [
        ("odd_trunc", ("+", ("-", ("*", ("/", x, N(2)), N(2)), x), N(1))),   # 1 in sympy; 0 for odd x
        ("const1", N(1)),
        ("const_neg2", N(-2)),
        ("third", ("+", ("-", ("*", ("/", x, N(3)), N(3)), x), N(2))),
    ]


def gen_pairs(tier, seed):
    rnd = random.Random(seed * 7919 + 17)
    pairs = []   # dicts {template, params, e1, e2}
    depth_list = [1, 2] if tier == "quick" else [1, 2, 3]
    nrand = 30 if tier == "quick" else 900
    bases = []
    # exhaustive small bases
    leaves = [V("i"), V("n"), N(2), ("arr", "a", V("i")), ("sarr", V("i"), V("j"), V("n"))]
    for op in ["+", "-", "*", "/"]:
        for a, b in itertools.product(leaves, leaves):
            if op == "/" and b[0] != "n":
                continue
            bases.append((op, a, b))
    for d in depth_list:
        for _ in range(nrand):
            bases.append(rand_expr(rnd, d))
    # structure accesses with several indices per component inside sums and products
    S1, S2 = ("sarr", V("i"), V("j"), V("m")), ("sarr", V("j"), ("+", V("i"), N(1)), V("n"))
    bases += [("*", ("+", S1, V("n")), V("m")), ("+", ("*", N(2), S1), ("*", V("i"), S2)), ("-", S2, ("*", S1, ("+", V("n"), N(1)))),
              ("*", ("+", V("i"), N(1)), ("+", S1, S2))]
    seen = set()
    for b in bases:
        for nm, e2 in rewrites(b, rnd):
            pairs.append({"template": "rewrite", "params": {"rule": nm}, "e1": b, "e2": e2})
        ws = wrap_equal(b, rnd)
        picks = ws if size(b) <= 3 else rnd.sample(ws, 2)
        for nm, e2 in picks:
            pairs.append({"template": "wrap", "params": {"rule": nm}, "e1": b, "e2": e2})
        ts = sympy_const_fortran_var(rnd)
        picks = ts if size(b) <= 3 else rnd.sample(ts, 1)
        for nm, t in picks:
            pairs.append({"template": "offset", "params": {"rule": nm}, "e1": b, "e2": ("+", b, t)})
        pairs.append({"template": "self", "params": {"rule": "self"}, "e1": b, "e2": b})
        if size(b) <= 5:
            # rational difference is a non-integer constant: (b+k)/c - b/c = k/c
            for c, k in [(2, 1), (3, 1), (3, 2), (4, 2)]:
                pairs.append({"template": "frac_offset", "params": {"rule": f"{k}/{c}"},
                              "e1": ("/", b, N(c)), "e2": ("/", ("+", b, N(k)), N(c))})
                pairs.append({"template": "frac_offset", "params": {"rule": f"m+{k}/{c}"},
                              "e1": ("+", V("m"), ("/", b, N(c))),
                              "e2": ("+", V("m"), ("/", ("+", b, N(k)), N(c)))})
    # distinct structure members must stay distinct symbols
    for x, y in itertools.permutations(MEMBERS, 2):
        for nm, wrap in [("bare", lambda t: t), ("plus_i", lambda t: ("+", t, V("i"))),
                         ("times2", lambda t: ("*", N(2), t)), ("index", lambda t: ("arr", "a", t)),
                         ("mixed", lambda t: ("-", ("+", t, V("n")), V("j")))]:
            pairs.append({"template": "members", "params": {"rule": nm}, "e1": wrap(V(x)), "e2": wrap(V(y))})
    for x in MEMBERS:
        pairs.append({"template": "members", "params": {"rule": "same"}, "e1": ("+", V(x), V("i")),
                      "e2": ("+", V("i"), V(x))})
    for _ in range(nrand):
        d = rnd.choice(depth_list)
        pairs.append({"template": "random", "params": {"rule": "random"},
                      "e1": rand_expr(rnd, d), "e2": rand_expr(rnd, d)})
    out = []
    for p in pairs:
        k = (txt(p["e1"]), txt(p["e2"]))
        if k in seen or size(p["e1"]) + size(p["e2"]) > 40:
            continue
        seen.add(k)
        p["params"]["has_div"] = has(p["e1"], ("/",)) or has(p["e2"], ("/",))
        p["params"]["has_mod"] = has(p["e1"], ("mod",)) or has(p["e2"], ("mod",))
        out.append(p)
    return out


def index_pairs(tier, seed):
    """(read index, written index) pairs in the loop variable i for the distance solver."""
    rnd = random.Random(seed * 31 + 5)
    forms = []
    for c in [1, 2, 3]:
        for d in [-2, -1, 0, 1, 2, 3]:
            forms.append(("+", ("*", N(c), V("i")), N(d)) if c != 1 else ("+", V("i"), N(d)))
    forms += [("/", V("i"), N(2)), ("/", ("+", V("i"), N(1)), N(2)), ("mod", V("i"), N(2)),
              ("*", V("i"), V("i")), ("+", V("i"), V("n")), ("-", V("n"), V("i")),
              ("arr", "a", V("i")), ("/", ("*", V("i"), N(2)), N(2)), ("*", ("/", V("i"), N(2)), N(2)),
              ("+", ("/", V("i"), N(3)), V("i")), ("max", V("i"), N(2)), ("min", V("i"), V("n"))]
    out = []
    allp = list(itertools.product(forms, forms))
    if tier == "quick":
        rnd.shuffle(allp)
        core = [(a, b) for a, b in allp if a[0] in ("/", "mod") or b[0] in ("/", "mod")][:60]
        allp = core + allp[:140]
    for a, b in allp:
        out.append({"template": "index", "params": {"has_div": has(a, ("/",)) or has(b, ("/",)),
                                                     "has_mod": has(a, ("mod",)) or has(b, ("mod",))},
                    "e1": a, "e2": b})
    return out
