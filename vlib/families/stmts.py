"""Statement family for C11: routines whose top-level statements cover the statement forms the
property lists (assignments, nested expressions, loops, branches, calls with intent(in/out/
inout) dummies, PURE subroutines, intrinsic subroutines, structure members, WHERE, sections)."""
from vlib.families import regions as R

HEAD = """module m
  implicit none
  integer, parameter :: wp = 8
  type :: fld
    real, dimension(0:20) :: m
    integer :: cnt
  end type fld
  type :: inner
    real, dimension(6) :: d
    integer :: tag
  end type inner
  type :: outer
    type(inner), dimension(3) :: g
    integer :: sel
  end type outer
  real(kind=wp) :: gacc
contains
  subroutine s(a, b, c, a2, idx, f, o, n, m2, lo, hi, t, q, k, l, flag)
    integer, intent(in) :: n, m2, lo, hi
    real(kind=wp), dimension(n), intent(inout) :: a, b, c
    real(kind=wp), dimension(n,m2), intent(inout) :: a2
    integer, dimension(n), intent(inout) :: idx
    type(fld), intent(inout) :: f
    type(outer), intent(inout) :: o
    real(kind=wp), intent(inout) :: t, q
    integer, intent(inout) :: k, l
    logical, intent(inout) :: flag
    integer :: i, j
    real(kind=wp) :: w
{body}
  end subroutine s
  subroutine set_out(x, y)
    real(kind=wp), intent(out) :: x
    real(kind=wp), intent(in) :: y
    x = 2.0_wp * y
  end subroutine set_out
  pure subroutine pure_out(x, y)
    real(kind=wp), intent(out) :: x
    real(kind=wp), intent(in) :: y
    x = y + 1.0_wp
  end subroutine pure_out
  pure subroutine pure_inout(x, y)
    real(kind=wp), intent(inout) :: x
    real(kind=wp), intent(in) :: y
    x = x + y
  end subroutine pure_inout
  elemental subroutine elem_out(x, y)
    real(kind=wp), intent(out) :: x
    real(kind=wp), intent(in) :: y
    x = y - 1.0_wp
  end subroutine elem_out
  impure elemental subroutine ielem_inout(x, y)
    real(kind=wp), intent(inout) :: x
    real(kind=wp), intent(in) :: y
    x = x * y
  end subroutine ielem_inout
  subroutine arr_out(x, nn, v)
    integer, intent(in) :: nn
    real(kind=wp), dimension(nn), intent(out) :: x
    real(kind=wp), intent(in) :: v
    integer :: ii
    do ii = 1, nn
      x(ii) = v
    end do
  end subroutine arr_out
  subroutine arr4_out(x, nn, v)
    integer, intent(in) :: nn
    real, dimension(nn), intent(out) :: x
    real(kind=wp), intent(in) :: v
    integer :: ii
    do ii = 1, nn
      x(ii) = v
    end do
  end subroutine arr4_out
  subroutine bump(x)
    integer, intent(inout) :: x
    x = x + 10
  end subroutine bump
  subroutine only_in(x, r)
    real(kind=wp), intent(in) :: x
    real(kind=wp), intent(inout) :: r
    r = r + x
  end subroutine only_in
  function twice(p) result(res)
    real(kind=wp), intent(in) :: p
    real(kind=wp) :: res
    res = 2.0_wp * p
  end function twice
end module m
"""

STMTS = [
    "t = q + 1.0_wp", "a(k) = b(l) * c(idx(k))", "a(idx(k)) = b(idx(l) + 1) + a(idx(k))", "t = a(k) + a(l)",
    "a2(k,l) = a2(l,k) + twice(t)", "f%m(k) = f%cnt + t", "f%cnt = f%cnt + idx(k)", "q = f%m(f%cnt)",
    "t = max(q, a(k)) + abs(b(l)) - sign(t, c(1))", "k = mod(l, 3) + k / 2", "flag = t > q .and. .not. flag",
    "a(:) = b(:) + t", "a(lo:hi) = c(lo:hi) * q", "t = sum(a) + maxval(b(lo:hi))", "c = a + b",
    "where (a > 0.0_wp) b = a", "where (a > t)\n  b = a\nelsewhere\n  b = q\nend where",
    "do i = lo, hi\n  a(i) = b(i) + t\nend do", "do i = 1, n\n  t = t + a(i)\nend do",
    "do i = lo, min(hi, n)\n  a(i) = 0.0_wp\nend do", "do i = k, l, 2\n  idx(i) = i\nend do",
    "do j = 1, m2\n  do i = 1, n\n    a2(i,j) = a(i) * j\n  end do\nend do",
    "if (t > q) then\n  a(1) = t\nelse\n  b(1) = q\nend if", "if (flag) t = q", "if (a(k) > 0.0_wp) then\n  k = k + 1\nend if",
    "call set_out(t, q)", "call set_out(a(k), b(l))", "call pure_out(t, q)", "call pure_out(a(k), t)",
    "call pure_inout(t, q)", "call arr_out(a, n, t)", "call arr_out(b(lo:hi), hi - lo + 1, q)", "call bump(k)",
    "call only_in(t, q)", "call only_in(a(k) + 1.0_wp, q)", "call set_out(f%m(k), t)",
    "call random_number(t)", "call random_number(a)", "call random_number(a(lo:hi))", "call cpu_time(t)",
    "call system_clock(k)", "call system_clock(count=k, count_rate=l)", "call mvbits(k, 0, 2, l, 1)",
    "call date_and_time(values=idx)", "w = t\nt = w", "t = twice(a(k)) + twice(q)",
    "do while (k < n)\n  k = k + 1\n  a(k) = t\nend do", "select case (k)\ncase (1)\n  t = q\ncase default\n  q = t\nend select",
    "gacc = gacc + t", "t = gacc * 2.0_wp",
    "call arr4_out(o%g(k)%d, 6, t)", "t = o%g(l)%d(k)", "o%g(k)%d(l) = t", "call bump(o%g(k)%tag)",
    "o%g(o%sel)%tag = o%g(k)%tag + 1", "call arr4_out(o%g(o%sel)%d, 6, q)", "call arr4_out(f%m(k:k+2), 3, t)",
    # sections whose bounds are (or equal) the declared bounds: the bound variables are still read
    "a(1:n) = 1.0_wp", "a2(1:n,1:m2) = 2.0_wp", "c(1:n) = a(1:n) + a2(1:n,1)", "t = sum(a(1:n))",
    "a2(1:n,m2) = b(1:n)", "call arr_out(a(1:n), n, t)", "a(1:n:1) = q",
    # elemental subroutines (scalar actuals): an ELEMENTAL prefix says nothing about the intents
    "call elem_out(t, q)", "call elem_out(a(k), t)", "call ielem_inout(t, q)", "call ielem_inout(b(l), a(k))",
    "do i = lo, hi\n  call ielem_inout(a(i), b(i))\nend do",
]


def gen(tier, seed):
    cases = []
    # one program per statement form; the unit analysed is the whole body (usually one statement)
    for p, st in enumerate(STMTS):
        cases.append({"template": f"stmt{p}", "params": {}, "src": HEAD.format(body=R.ind(st)),
                      "routine": "s", "nstmts": 1, "stmts": [st], "whole_body": True})
    for c in R.gen(tier, seed):
        cases.append(dict(c, template="region_" + c["template"], whole_body=False))
    return cases
