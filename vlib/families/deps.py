"""G-D: dependence family (DESIGN Appendix F) for C08 / C09.  One subroutine `s` per case;
`target` names which loop (0 = outermost first in walk order) the analysis is asked about
(None = every loop)."""
import itertools

HEAD = """module m
  implicit none
  integer, parameter :: wp = 8
  type :: fld
    real, dimension(0:20) :: m
    integer :: cnt
  end type fld
contains
  subroutine s(a, b, c, a2, b2, idx, f, n, m2, np3, mp3, lo, hi, t, r, k{extra_args})
    integer, intent(in) :: n, m2, np3, mp3, lo, hi
    real(kind=wp), dimension(0:np3), intent(inout) :: a, b, c
    real(kind=wp), dimension(0:np3,0:mp3), intent(inout) :: a2, b2
    integer, dimension(0:np3), intent(inout) :: idx
    type(fld), intent(inout) :: f
    real(kind=wp), intent(inout) :: t, r
    integer, intent(inout) :: k{extra_decl}
    integer :: i, j{locals}
{body}
  end subroutine s
end module m
"""


def ind(txt, n=4):
    return "\n".join(" " * n + l for l in txt.strip("\n").split("\n"))


def prog(body, locals_="", extra_args="", extra_decl=""):
    return HEAD.format(body=ind(body), locals=locals_, extra_args=extra_args, extra_decl=extra_decl)


SUBS = ["i", "i+1", "i-1", "2*i", "2*i+1", "i/2", "mod(i,2)", "idx(i)", "n", "n-i", "1", "i+k", "(i+1)/2", "i*2-i",
        "i/2*2", "n+1-i"]


def gen(tier, seed):
    cases = []

    def add(tmpl, params, body, **kw):
        cases.append({"template": tmpl, "params": params, "src": prog(body, **kw), "routine": "s"})

    for f, g in itertools.product(SUBS, SUBS):
        add("sub", {"f": f, "g": g}, f"do i = lo, hi\n  a({f}) = a({g}) + b(i)\nend do")
    for f in SUBS:
        add("subw", {"f": f}, f"do i = lo, hi\n  a({f}) = b(i)\nend do")
        add("subr", {"g": f}, f"do i = lo, hi\n  c(i) = a({f}) + a(i)\nend do")
    # two statements / two writes to the same array
    two = [("a(i) = b(i)", "c(i) = a(i+1)"), ("a(i) = b(i)", "c(i) = a(i)"), ("a(i) = b(i)", "a(i+1) = c(i)"),
           ("a2(i,1) = b(i)", "a2(i,2) = a2(i+1,2)"), ("a2(i,1) = b(i)", "a2(3,2) = b(i)"),
           ("a2(i,1) = b(i)", "a2(i,2) = a2(i,1)"), ("a2(i,2) = a2(i+1,2)", "a2(i,1) = b(i)"),
           ("a2(1,i) = b(i)", "a2(2,i) = a2(1,i-1)"), ("c(i) = a(i-1)", "a(i) = b(i)"),
           ("a(i) = b(i)", "b(i+1) = a(i)"), ("f%m(i) = b(i)", "c(i) = f%m(i+1)"), ("f%m(i) = f%m(i) + 1.0_wp", "c(i) = b(i)"),
           ("f%m(1) = b(i)", "c(i) = a(i)"), ("f%cnt = f%cnt + 1", "a(i) = b(i)"), ("f%m(idx(i)) = b(i)", "c(i) = b(i)"),
           ("f%m(i) = a(i)", "a(i) = f%m(i-1)")]
    for v, (s1, s2) in enumerate(two):
        add("two", {"v": v}, f"do i = lo, hi\n  {s1}\n  {s2}\nend do")
    # nests: ask about outer (target 0) and inner (target 1)
    for di, dj in itertools.product([-1, 0, 1], [-1, 0, 1]):
        for order in ("ji", "ij"):
            o, inn = ("j", "i") if order == "ji" else ("i", "j")
            ob, ib = ("1, m2", "1, n") if order == "ji" else ("1, n", "1, m2")
            add("nest", {"di": di, "dj": dj, "order": order},
                f"do {o} = {ob}\n  do {inn} = {ib}\n    a2(i,j) = a2(i+({di}),j+({dj})) + b2(i,j)\n  end do\nend do")
    add("nest", {"v": "tri"}, "do j = 1, m2\n  do i = 1, j\n    a2(i,j) = a2(j,i) + 1.0_wp\n  end do\nend do")
    add("nest", {"v": "col"}, "do j = 1, m2\n  do i = 1, n\n    a(i) = a(i) + b2(i,j)\n  end do\nend do")
    add("nest", {"v": "row"}, "do j = 1, m2\n  do i = 1, n\n    a2(i,1) = b2(i,j)\n  end do\nend do")
    # scalars
    scal = {"uncond_first": "t = b(i)\n  a(i) = t * 2.0_wp",
            "cond": "if (b(i) > 0.0_wp) then\n    t = b(i)\n  end if\n  a(i) = t",
            "cond_noread": "if (b(i) > 0.0_wp) then\n    t = b(i)\n  end if\n  a(i) = b(i)",
            "read_then_write": "a(i) = t\n  t = b(i)",
            "only_write": "t = b(i)",
            "reduction": "t = t + b(i)",
            "both_branches": "if (b(i) > 0.0_wp) then\n    t = b(i)\n  else\n    t = -b(i)\n  end if\n  a(i) = t",
            "cond_branch_read": "if (b(i) > 0.0_wp) then\n    t = b(i)\n    a(i) = t\n  end if",
            "int_counter": "k = k + 1\n  a(k) = b(i)",
            "int_uncond": "k = i + 1\n  a(k) = b(i)",
            "two_scalars": "t = b(i)\n  r = t + c(i)\n  a(i) = r",
            "write_after_cond_read": "if (c(i) > 0.0_wp) then\n    a(i) = t\n  end if\n  t = b(i)",
            "inner_loop_scalar": "t = 0.0_wp\n  do j = 1, m2\n    t = t + b2(i,j)\n  end do\n  a(i) = t",
            "inner_loop_noinit": "do j = 1, m2\n    t = t + b2(i,j)\n  end do\n  a(i) = t",
            "only_read": "a(i) = t + b(i)"}
    for v, body in scal.items():
        add("scal", {"v": v}, f"do i = lo, hi\n  {body}\nend do")
    # names colliding with the analysis' internal d_<var> symbols
    add("names", {"v": 1}, "do i = lo, hi\n  a(i + d_i) = a(i) + 1.0_wp\nend do",
        extra_args=", d_i", extra_decl="\n    integer, intent(in) :: d_i")
    add("names", {"v": 2}, "do i = lo, hi\n  a(i + d_i + d1_i) = a(i) + 1.0_wp\nend do",
        extra_args=", d_i, d1_i", extra_decl="\n    integer, intent(in) :: d_i, d1_i")
    add("names", {"v": 3}, "do i = lo, hi\n  a(i) = a(i + d_i) + 1.0_wp\nend do",
        extra_args=", d_i", extra_decl="\n    integer, intent(in) :: d_i")
    add("names", {"v": 4}, "do i = lo, hi\n  a(i) = b(i + d_i + d1_i)\nend do",
        extra_args=", d_i, d1_i", extra_decl="\n    integer, intent(in) :: d_i, d1_i")
    # dependences hidden in expressions PSyclone keeps as code blocks (implied-do array constructors)
    add("exprblock", {"v": 1}, "do i = lo, hi\n  a(i) = b(i) + sum((/ (c(j)*a(i-j), j = 1, 2) /))\nend do")
    add("exprblock", {"v": 2}, "do i = lo, hi\n  a(i) = b(i) + sum((/ (c(j)*b(i-j), j = 1, 2) /))\nend do")
    add("exprblock", {"v": 3}, "do i = lo, hi\n  c(i) = maxval((/ (a(i+j), j = 0, 1) /))\n  a(i) = b(i)\nend do")
    # steps and bounds
    for st, d in itertools.product([2, 3, -1, -2], [1, 2, -1]):
        hd = f"lo, hi, {st}" if st > 0 else f"hi, lo, {st}"
        add("step", {"st": st, "d": d}, f"do i = {hd}\n  a(i) = a(i+({d})) + b(i)\nend do")
    # array sections with constant bounds inside the loop body: sections shifted by constants that still overlap,
    # the loop variable in the other subscript carries (or does not carry) the dependence
    secs = ["1:2", "2:3", "0:1", "1:3", "0:2:2", "1:1"]
    for (s1, s2), d in itertools.product(itertools.product(secs[:4], secs[:4]), [0, -1, 1]):
        if s1 == s2 and d == 0:
            continue
        n1 = int(s1[2]) - int(s1[0])
        n2 = int(s2[2]) - int(s2[0])
        if n1 != n2:
            continue
        add("sect", {"w": s1, "r": s2, "d": d, "pos": 2},
            f"do i = lo, hi\n  a2({s1},i) = a2({s2},i+({d})) + 1.0_wp\nend do")
        add("sect", {"w": s1, "r": s2, "d": d, "pos": 1},
            f"do i = lo, hi\n  a2(i,{s1}) = a2(i+({d}),{s2}) + 1.0_wp\nend do")
    add("sect", {"v": "stride"}, "do i = lo, hi\n  a2(0:2:2,i) = a2(1:3:2,i-1) + 1.0_wp\nend do")
    add("sect", {"v": "stride2"}, "do i = lo, hi\n  a2(0:2:2,i) = a2(2:4:2,i-1) + 1.0_wp\nend do")
    add("sect", {"v": "1d"}, "do i = lo, hi\n  a(1:2) = a(2:3) + b(i)\nend do")
    # the loop variable inside the section bounds
    for v, body in enumerate(["a(i:i+1) = b(i)", "a(2*i:2*i+1) = b(i)", "a(i:i+1) = a(i+2:i+3) + 1.0_wp",
                              "a(2*i:2*i+1) = a(2*i+2:2*i+3) + 1.0_wp", "c(i) = a(i) + 1.0_wp\n  a(i:i+1) = b(i)",
                              "a2(i:i+1,1) = a2(i:i+1,2)", "a2(1,i:i+1) = a2(2,i:i+1)"]):
        add("sectvar", {"v": v}, f"do i = lo, hi\n  {body}\nend do")
    add("sect", {"v": "scalar_vs_section"}, "do i = lo, hi\n  a2(1:2,i) = a2(2,i-1) + 1.0_wp\nend do")
    return cases
