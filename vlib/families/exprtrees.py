"""G-E (C02): PSyIR expression trees built with the node API.
A tree is described by a nested tuple so that it is picklable and printable:
  ("ref", name) | ("lit", value, type, prec) | ("aref", name, idx) | ("sref", ...) |
  ("un", OP, t) | ("bin", OP, t1, t2) | ("intr", NAME, [args], [argnames])"""
import itertools
import random

NUM_BIN = ["ADD", "SUB", "MUL", "DIV", "POW"]
REL_BIN = ["EQ", "NE", "GT", "LT", "GE", "LE"]
LOG_BIN = ["AND", "OR", "EQV", "NEQV"]
NUM_UN = ["MINUS", "PLUS"]

NUM_LEAVES = [("ref", "a"), ("ref", "b"), ("ref", "i"), ("ref", "j"),
              ("lit", "1", "int", None), ("lit", "2", "int", "i_def"), ("lit", "-3", "int", None),
              ("lit", "1.5", "real", None), ("lit", "2.0", "real", "wp"), ("lit", "-1.0", "real", None),
              ("lit", "1.0e3", "real", None), ("lit", "2.5", "real", "double"), ("lit", "1.0e-2", "real", "double"),
              ("lit", "4", "int", 8), ("lit", "0.5", "real", 4),
              ("aref", "x", ("ref", "i")), ("aref", "x", ("bin", "ADD", ("ref", "i"), ("lit", "1", "int", None))),
              ("aref", "y2", ("ref", "i"), ("bin", "SUB", ("ref", "j"), ("lit", "1", "int", None))),
              ("sref", "s", "m", ("ref", "j")), ("sref", "s", "v", None)]
LOG_LEAVES = [("ref", "p"), ("ref", "q"), ("lit", "true", "bool", None), ("lit", "false", "bool", None),
              ("aref", "lmask", ("ref", "i"))]


def num_trees(depth, leaves):
    if depth == 0:
        return list(leaves)
    sub = num_trees(depth - 1, leaves)
    out = list(sub)
    seen = set(out)
    for op in NUM_UN:
        for t in sub:
            out.append(("un", op, t))
    for op in NUM_BIN:
        for a, b in itertools.product(sub, sub):
            out.append(("bin", op, a, b))
    res = []
    for t in out:
        if t not in seen or t in leaves:
            res.append(t)
            seen.add(t)
    return list(dict.fromkeys(out))


def log_trees(depth, nleaves, lleaves):
    if depth == 0:
        return list(lleaves)
    subl = log_trees(depth - 1, nleaves, lleaves)
    subn = num_trees(depth - 1, nleaves)
    out = list(subl)
    for t in subl:
        out.append(("un", "NOT", t))
    for op in LOG_BIN:
        for a, b in itertools.product(subl, subl):
            out.append(("bin", op, a, b))
    for op in REL_BIN:
        for a, b in itertools.product(subn, subn):
            out.append(("bin", op, a, b))
    return list(dict.fromkeys(out))


def decorate(t, rnd, prob):
    """replace some leaves a/b/p/q by random richer leaves"""
    if t[0] == "ref":
        if rnd.random() < prob:
            return rnd.choice(LOG_LEAVES if t[1] in ("p", "q") else NUM_LEAVES)
        return t
    if t[0] == "un":
        return ("un", t[1], decorate(t[2], rnd, prob))
    if t[0] == "bin":
        return ("bin", t[1], decorate(t[2], rnd, prob), decorate(t[3], rnd, prob))
    return t


def random_tree(rnd, depth, logical=False):
    if depth == 0 or rnd.random() < 0.15:
        return rnd.choice(LOG_LEAVES if logical else NUM_LEAVES)
    if logical:
        k = rnd.random()
        if k < 0.2:
            return ("un", "NOT", random_tree(rnd, depth - 1, True))
        if k < 0.6:
            return ("bin", rnd.choice(LOG_BIN), random_tree(rnd, depth - 1, True), random_tree(rnd, depth - 1, True))
        return ("bin", rnd.choice(REL_BIN), random_tree(rnd, depth - 1), random_tree(rnd, depth - 1))
    k = rnd.random()
    if k < 0.2:
        return ("un", rnd.choice(NUM_UN), random_tree(rnd, depth - 1))
    if k < 0.3:
        nm = rnd.choice(["MAX", "MIN", "MOD", "SIGN", "ABS", "REAL", "SQRT"])
        if nm in ("ABS", "SQRT"):
            return ("intr", nm, (random_tree(rnd, depth - 1),), (None,))
        if nm == "REAL":
            return ("intr", nm, (random_tree(rnd, depth - 1), ("ref", "wp")), (None, "kind"))
        return ("intr", nm, (random_tree(rnd, depth - 1), random_tree(rnd, depth - 1)), (None, None))
    return ("bin", rnd.choice(NUM_BIN), random_tree(rnd, depth - 1), random_tree(rnd, depth - 1))


def gen(tier, seed):
    rnd = random.Random(seed + 11)
    trees = []
    base_n = [("ref", "a"), ("ref", "b")]
    base_l = [("ref", "p"), ("ref", "q")]
    core = num_trees(2, base_n) + log_trees(2, base_n, base_l)
    trees += [("core", t) for t in core]
    ndec = 1 if tier == "quick" else 4
    for t in core:
        for _ in range(ndec):
            d = decorate(t, rnd, 0.5)
            if d != t:
                trees.append(("decorated", d))
    # identical-operand shapes (structural equality corner)
    for op1, op2 in itertools.product(NUM_BIN, NUM_BIN):
        for lf in NUM_LEAVES[:6]:
            inner = ("bin", op2, lf, ("ref", "b"))
            trees.append(("twin", ("bin", op1, inner, inner)))
    for op1 in NUM_BIN:
        for u in NUM_UN:
            inner = ("un", u, ("ref", "a"))
            trees.append(("twin", ("bin", op1, inner, inner)))
    # a unary sign below two binary operators, in each of the four operand positions, and below a second sign
    A, B, C = ("ref", "a"), ("ref", "b"), ("ref", "i")
    for op1, op2 in itertools.product(NUM_BIN, NUM_BIN):
        for u in NUM_UN:
            ub = ("un", u, B)
            trees.append(("unchain", ("bin", op1, A, ("bin", op2, ub, C))))
            trees.append(("unchain", ("bin", op1, ("bin", op2, ub, C), A)))
            trees.append(("unchain", ("bin", op1, A, ("bin", op2, C, ub))))
            trees.append(("unchain", ("bin", op1, ("bin", op2, C, ub), A)))
    for op2 in NUM_BIN:
        for u, u2 in itertools.product(NUM_UN, NUM_UN):
            trees.append(("unchain", ("un", u2, ("bin", op2, ("un", u, B), C))))
            trees.append(("unchain", ("bin", "POW", A, ("bin", "POW", C, ("bin", op2, ("un", u, B), A)))))
    n3 = 1500 if tier == "quick" else 20000
    for _ in range(n3):
        trees.append(("rand3", random_tree(rnd, 3, rnd.random() < 0.3)))
    n4 = 300 if tier == "quick" else 6000
    for _ in range(n4):
        trees.append(("rand4", random_tree(rnd, 4, rnd.random() < 0.3)))
    seen = set()
    out = []
    for fam, t in trees:
        if t not in seen:
            seen.add(t)
            out.append({"template": fam, "tree": t})
    return out
