"""G-TL: tangent-linear kernels (DESIGN section 4) for C19.  Active variables: arrays a, b and
scalar s (plus active local w where used); passive: coefficient array c, scalar p, extent n."""
import itertools

HEAD = """module kern_mod
  implicit none
  integer, parameter :: r_def = 8
  public
contains
  subroutine kern(a, b, s, c, p, n)
    integer, intent(in) :: n
    real(kind=r_def), intent(inout) :: a({ext}), b({ext}), s
    real(kind=r_def), intent(in) :: c({ext}), p
    integer :: i
    real(kind=r_def) :: w
{body}
  end subroutine kern
end module kern_mod
"""


def ind(txt, n=4):
    return "\n".join(" " * n + l for l in txt.strip("\n").split("\n"))


def prog(body, ext="n", imported=False):
    t = HEAD.format(body=ind(body), ext=ext)
    if imported:
        # a passive coefficient imported from a module PSyclone cannot see (unresolved type): array statements
        # that use it are not converted to loops and reach the adjoint rules in array notation
        t = t.replace("    integer, intent(in) :: n\n", "    use consts_mod, only: kk\n    integer, intent(in) :: n\n")
    return t


# array-notation statements: the same section spelt in different ways, full arrays, shifted sections
SECTIONS = ["a(1:n-1) = p*a(:n-1) + KK*b(2:n)", "a(:n) = a(1:n) + KK*b(1:n)", "a(:) = a(:) + KK*b(:)",
            "a = a + KK*b", "b(2:n) = KK*a(1:n-1)", "a(1:n) = KK*a(1:n)", "a(2:n) = a(2:n) - KK*c(2:n)*b(1:n-1)",
            "b(:) = KK*a(:) + b", "a(1::2) = a(::2) + KK*b(1::2)", "a(:n-1) = KK*b(:n-1) - a(1:n-1)"]


SYM_HEADERS = ["1, n", "n, 1, -1", "1, n, 2", "2, n", "2, n - 1", "n, 2, -2", "1, n - 1, 3", "n - 1, 1, -1"]
LIT_HEADERS = ["1, 10, 2", "2, 9, 2", "1, 9, 3", "1, 10, 3", "10, 1, -3", "1, 10", "10, 1, -1", "3, 3", "5, 4",
               "2, 10, 4", "9, 2, -2", "10, 2, -4"]
# (statement, offset needed below, offset needed above)
STMTS = [("a(i) = a(i) + c(i)*b(i)", 0, 0), ("b(i) = c(i)*a(i)", 0, 0), ("a(i) = b(i)", 0, 0),
         ("a(i) = 0.0_r_def", 0, 0), ("a(i) = a(i) - b(i)", 0, 0), ("a(i) = -a(i)", 0, 0),
         ("a(i) = b(i) - a(i)", 0, 0), ("a(i) = a(i)/c(i)", 0, 0), ("a(i) = p*b(i) + c(i)*a(i) + 2.0_r_def*s", 0, 0),
         ("b(i) = b(i) + c(i)*a(i-1)", 1, 0), ("a(i) = a(i+1) + b(i)", 0, 1), ("s = s + c(i)*a(i)", 0, 0),
         ("a(i) = a(i) + p*s", 0, 0), ("w = c(i)*a(i)\nb(i) = b(i) + w", 0, 0), ("a(i) = a(i-1)", 1, 0),
         ("b(i) = a(i) + a(i)", 0, 0), ("a(i) = (b(i) + a(i))*c(i)", 0, 0), ("a(i) = b(i)*p - c(i)*(a(i) - s)", 0, 0)]
STRAIGHT = ["s = s + c(2)*a(1)", "s = c(3)*b(1)", "a(1) = a(1) + b(2)\nb(2) = a(1)", "s = 0.0_r_def\na(1) = s + b(1)",
            "w = a(1)\na(1) = b(1)\nb(1) = w", "a(1) = s\ns = a(2)\na(2) = a(1)", "s = p*s", "b(1) = b(1) + b(1)",
            "a(2) = a(1) - a(2)\na(1) = a(2) - a(1)"]


def gen(tier, seed):
    cases = []

    def add(tmpl, params, body, ext="n", imported=False, assumed=False):
        cases.append({"template": tmpl, "params": params, "src": prog(body, ext, imported), "routine": "kern",
                      "imported": imported, "assumed": assumed,
                      "active": ["a", "b", "s"] + (["w"] if "w =" in body or "w " in body.split("=")[0] else []),
                      "ext": ext})

    def shrink(h, lo_off, hi_off):
        return h
    for (h, (st, lo_off, hi_off)) in itertools.product(SYM_HEADERS, STMTS):
        if lo_off or hi_off:
            # keep subscripts in bounds: only headers that leave room
            if lo_off and h not in ("2, n", "2, n - 1", "n, 2, -2"):
                continue
            if hi_off and h not in ("2, n - 1", "1, n - 1, 3", "n - 1, 1, -1"):
                continue
        add("symloop", {"h": h, "st": st}, f"do i = {h}\n  " + st.replace("\n", "\n  ") + "\nend do")
    for (h, (st, lo_off, hi_off)) in itertools.product(LIT_HEADERS, STMTS):
        nums = [int(x) for x in h.split(",")[:2]]
        if lo_off and min(nums) < 2:
            continue
        if hi_off and max(nums) > 9:
            continue
        add("litloop", {"h": h, "st": st}, f"do i = {h}\n  " + st.replace("\n", "\n  ") + "\nend do", ext="10")
    for v, st in enumerate(STRAIGHT):
        add("straight", {"v": v}, st, ext="3")
        add("branch", {"v": v}, f"if (c(1) > 0.0_r_def) then\n  " + st.replace("\n", "\n  ") +
            "\nelse\n  s = s + p*a(1)\nend if", ext="3")
    # two loops / loop + branch (the seeded demo's shape)
    add("combo", {"v": 1}, "do i = 1, n, 2\n  a(i) = a(i) + c(i)*b(i)\nend do\ndo i = 2, n\n  b(i) = b(i) + c(i)*a(i-1)\nend do\n"
        "if (c(1) > 0.0_r_def) then\n  s = s + c(2)*a(n)\nelse\n  s = c(3)*b(1)\nend if")
    add("combo", {"v": 2}, "do i = 1, 10, 2\n  a(i) = a(i) + c(i)*b(i)\nend do\ndo i = 2, 10\n  b(i) = b(i) + c(i)*a(i-1)\nend do\n"
        "if (c(1) > 0.0_r_def) then\n  s = s + c(2)*a(10)\nelse\n  s = c(3)*b(1)\nend if", ext="10")
    add("combo", {"v": 3}, "do i = 2, n\n  a(i) = a(i) + a(i-1)\nend do\ndo i = n - 1, 1, -1\n  a(i) = a(i) + c(i)*a(i+1)\nend do")
    add("combo", {"v": 4}, "s = 0.0_r_def\ndo i = 1, n\n  s = s + c(i)*a(i)\nend do\ndo i = 1, n\n  b(i) = b(i) + s\nend do")
    for v, st in enumerate(SECTIONS):
        add("sections", {"v": v, "imported": False}, st.replace("KK", "p"))
        add("sections", {"v": v, "imported": True}, st.replace("KK", "kk"), imported=True)
        # PSyAD sees assumed-shape dummies (it then cannot normalise `1:` / `:` spellings of a section)
        add("sections", {"v": v, "imported": True, "assumed": True}, st.replace("KK", "kk"), imported=True, assumed=True)
        add("sections", {"v": v, "imported": False, "assumed": True}, st.replace("KK", "p"), assumed=True)
    if tier == "quick":
        keep = []
        for c in cases:
            if c["template"] in ("symloop", "litloop"):
                # every header with a core set of statements, every statement with a core set of headers
                core_st = {STMTS[i][0] for i in (0, 1, 4, 6, 9, 11, 13)}
                core_h = {"1, n", "1, n, 2", "n, 2, -2", "1, 10, 2", "2, 9, 2", "10, 1, -3", "2, 10, 4", "2, n"}
                if c["params"]["st"] in core_st or c["params"]["h"] in core_h:
                    keep.append(c)
            else:
                keep.append(c)
        return keep
    return cases
