"""G-R: region family (DESIGN section 4) for C12 (extraction in/out lists), C13 (OpenACC
data regions) and C28 (PSyData pairing).  A case is a routine whose body is a list of
top-level statements; the harnesses take every consecutive sub-range as a region."""

HEAD = """module m
  implicit none
  integer, parameter :: wp = 8
contains
  subroutine s(a, b, c, a2, b2, idx, n, m2, lo, hi, t, q, k)
    integer, intent(in) :: n, m2, lo, hi
    real(kind=wp), dimension(n), intent(inout) :: a, b, c
    real(kind=wp), dimension(n,m2), intent(inout) :: a2, b2
    integer, dimension(n), intent(inout) :: idx
    real(kind=wp), intent(inout) :: t, q
    integer, intent(inout) :: k
    integer :: i, j
    real(kind=wp) :: w{locals}
{body}
  end subroutine s
  subroutine prefix_sum(x, nn)
    integer, intent(in) :: nn
    real(kind=wp), dimension(nn), intent(inout) :: x
    integer :: ii
    do ii = 2, nn
      x(ii) = x(ii) + x(ii-1)
    end do
  end subroutine prefix_sum
  subroutine scale_by(x, nn, fac)
    integer, intent(in) :: nn
    real(kind=wp), dimension(nn), intent(inout) :: x
    real(kind=wp), intent(in) :: fac
    integer :: ii
    do ii = 1, nn
      x(ii) = fac * x(ii)
    end do
  end subroutine scale_by
  subroutine set_first(x, nn, val)
    integer, intent(in) :: nn
    real(kind=wp), dimension(nn), intent(inout) :: x
    real(kind=wp), intent(in) :: val
    x(1) = val
  end subroutine set_first
end module m
"""


def ind(txt, n=4):
    return "\n".join(" " * n + l for l in txt.strip("\n").split("\n"))


def loop(rng, body, var="i"):
    return f"do {var} = {rng}\n  " + body.replace("\n", "\n  ") + "\nend do"


BODIES = {
    "partial_then_read": [loop("2, n", "a(i) = b(i)"), "c(1) = a(1)"],
    "w1_r2": ["a(1) = 1.0_wp", "b(1) = a(2)"],
    "full_then_read": [loop("1, n", "a(i) = b(i)"), loop("1, n", "c(i) = a(i)")],
    "rmw": [loop("1, n", "a(i) = a(i) + b(i)")],
    "cond_write": ["if (t > 0.0_wp) then\n  a(1) = t\nend if", "c(1) = a(1)"],
    "cond_elem_write": [loop("1, n", "if (b(i) > 0.0_wp) then\n  a(i) = b(i)\nend if"), loop("1, n", "c(i) = a(i)")],
    "call_first": ["call scale_by(a, n, t)", "a(1) = 0.0_wp", loop("1, n", "b(i) = a(i)")],
    "boundary_call": ["a(1) = 10.0_wp", "call prefix_sum(a, n)", loop("1, n", "b(i) = b(i) + a(i)")],
    "overwrite_call": [loop("1, n", "a(i) = 2.0_wp * b(i)"), "call prefix_sum(a, n)"],
    "call_setfirst": ["call set_first(a, n, t)", loop("1, n", "b(i) = a(i)")],
    "scalar_tmp": ["w = b(1)", "a(1) = w", "q = w + t"],
    "scalar_cond": ["if (k > 0) then\n  w = b(1)\nend if", "a(1) = w"],
    "two_d_full": [loop("1, m2", loop("1, n", "a2(i,j) = b2(i,j)"), "j"), "t = a2(1,1)"],
    "two_d_partial": [loop("2, m2", loop("1, n", "a2(i,j) = b2(i,j)"), "j"), "t = a2(1,1)"],
    "read_then_write": [loop("1, n", "c(i) = a(i)"), loop("1, n", "a(i) = b(i)")],
    "sec_shift": ["a(2:n) = b(1:n-1)", "c(1) = a(1)"],
    "sec_full": ["a(:) = 0.0_wp", "c = a + b"],
    "index_array": [loop("1, n", "a(idx(i)) = b(i)"), loop("1, n", "c(i) = a(i)")],
    "sym_bounds": [loop("lo, hi", "a(i) = 0.0_wp"), loop("1, n", "c(i) = a(i) + b(i)")],
    "same_loop_wr": [loop("1, n", "a(i) = b(i)\nc(i) = a(i)")],
    "stencil": [loop("2, n", "a(i) = b(i) + b(i-1)"), loop("1, n", "b(i) = a(i)")],
    "elem_only": ["a(k) = t", "q = a(1)"],
    "accumulate": ["t = 0.0_wp", loop("1, n", "t = t + a(i)"), "b(1) = t"],
    "idx_write": [loop("1, n", "idx(i) = i"), loop("1, n", "a(idx(i)) = b(i)")],
    "exit_loop": [loop("1, n", "if (b(i) < 0.0_wp) exit\na(i) = b(i)"), "c(1) = a(1)"],
    "cycle_loop": [loop("1, n", "if (b(i) < 0.0_wp) cycle\na(i) = b(i)"), "c(1) = a(1)"],
    "return_mid": ["a(1) = t", "if (k > 0) then\n  return\nend if", "b(1) = a(1)"],
    "strided_full": ["c(::k) = a(::k) * t", "q = c(1)"],
    "strided_bounds": ["a(1:n:k) = b(1:n:k) + 1.0_wp", "c(1) = a(1)"],
    "strided_read": [loop("1, n", "c(i) = 0.0_wp"), "t = sum(a(::k))"],
    "init_local": [loop("1, 3", "a(i) = w3(i) * b(i)"), "c(1) = a(1) + w3(2)"],
    "init_local2": ["w3(1) = t", loop("1, 3", "a(i) = w3(i)"), "q = w3(3)"],
    "while_loop": ["k = 1", "do while (k < n)\n  a(k) = b(k)\n  k = k + 1\nend do", "c(1) = a(1)"],
}


LOCALS = "\n    real(kind=wp), dimension(3) :: w3 = (/1.0_wp, 2.0_wp, 3.0_wp/)"


def gen(tier, seed):
    cases = []
    for name, stmts in BODIES.items():
        body = "\n".join(stmts)
        locs = LOCALS if "w3" in body else ""
        cases.append({"template": name, "params": {}, "src": HEAD.format(body=ind(body), locals=locs), "routine": "s",
                      "nstmts": len(stmts), "stmts": stmts})
    return cases
