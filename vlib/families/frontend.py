"""G-F: front-end construct family (DESIGN section 4) for C01 (and reused by C11/C28).
Each program is a module with subroutine `s` over a fixed pool of dummies."""
import itertools
import random

HEAD = """module m
  implicit none
  integer, parameter :: wp = 8
  integer, parameter :: nmax = 3
  real(kind=wp) :: gacc
  integer :: gcnt
contains
  subroutine s(x, y, z, x2, y2, xl, ix, n, m2, ub1, i1, i2, k, l, t, q, r, flag, flag2)
    integer, intent(in) :: n, m2, ub1
    integer, intent(inout) :: i1, i2, k, l
    real(kind=wp), dimension(n), intent(inout) :: x, y, z
    real(kind=wp), dimension(n,m2), intent(inout) :: x2, y2
    real(kind=wp), dimension(0:ub1), intent(inout) :: xl
    integer, dimension(n), intent(inout) :: ix
    real(kind=wp), intent(inout) :: t, q, r
    logical, intent(inout) :: flag, flag2
    integer :: i, j{locals}
{body}
  end subroutine s
{extra}
end module m
"""

FUNCS = """  function f1(a, b) result(res)
    real(kind=wp), intent(in) :: a, b
    real(kind=wp) :: res
    res = a * 2.0_wp - b
  end function f1
  integer function twice(p)
    integer, intent(in) :: p
    twice = 2 * p
  end function twice
  subroutine upd(a, b, c)
    real(kind=wp), intent(in) :: a
    real(kind=wp), intent(inout) :: b
    real(kind=wp), intent(in), optional :: c
    if (present(c)) then
      b = b + a * c
    else
      b = b + a
    end if
  end subroutine upd
  subroutine fill(v, val)
    real(kind=wp), dimension(:), intent(out) :: v
    real(kind=wp), intent(in) :: val
    v(:) = val
  end subroutine fill"""


def ind(txt, n=4):
    return "\n".join(" " * n + l for l in txt.strip("\n").split("\n"))


def prog(body, locals_="", extra=""):
    return HEAD.format(body=ind(body), locals=locals_, extra=extra)


def gen(tier, seed):
    rnd = random.Random(seed + 3)
    cases = []

    def add(tmpl, params, body, locals_="", extra=""):
        cases.append({"template": tmpl, "params": params, "src": prog(body, locals_, extra),
                      "routine": "s"})

    # ---------------------------------------------------------------- SELECT CASE
    add("select", {"v": 1}, """
select case (k)
case (1)
  t = 1.0_wp
case (2, 3)
  t = 2.0_wp
case (5:7)
  t = 3.0_wp
case (:-1)
  t = -1.0_wp
case default
  t = 0.0_wp
end select""")
    add("select", {"v": 2}, """
select case (k)
case (10:)
  l = 1
case (i1)
  l = 2
end select""".replace("case (i1)", "case (4)"))
    add("select", {"v": 3}, """
select case (flag)
case (.true.)
  r = t
case (.false.)
  r = q
end select""")
    add("select", {"v": 4}, """
do i = 1, n
  select case (ix(i))
  case (0)
    x(i) = 0.0_wp
  case (1:2)
    x(i) = y(i)
  case default
    x(i) = -y(i)
  end select
end do""")
    add("select", {"v": 5}, """
select case (k + l)
case (0)
  k = k + 1
case (1)
  k = k + 2
case default
  k = 0
end select
r = k""")
    add("select", {"v": 6}, """
select case (k)
case (1)
  select case (l)
  case (1)
    r = 11.0_wp
  case default
    r = 10.0_wp
  end select
case (-3:-1, 7)
  r = 2.0_wp
end select""")
    add("select", {"v": 7}, """
select case (twice(k))
case (2)
  t = 1.0_wp
case (4)
  t = 2.0_wp
case default
  t = q
end select""", extra=FUNCS)
    add("select", {"v": 8}, """
select case (k)
case default
  t = 5.0_wp
case (1)
  t = 1.0_wp
end select""")
    # ---------------------------------------------------------------- WHERE
    add("where", {"v": 1}, "where (x > 0.0_wp) y = x")
    add("where", {"v": 2}, """
where (x > 0.0_wp)
  y = x
elsewhere
  y = -x
end where""")
    add("where", {"v": 3}, """
where (x > 1.0_wp)
  y = 1.0_wp
elsewhere (x > 0.0_wp)
  y = x
elsewhere
  y = 0.0_wp
end where""")
    add("where", {"v": 4}, """
where (x(:) > 0.0_wp)
  x(:) = x(:) / sum(x(:))
end where""")
    add("where", {"v": 5}, """
where (x2 > t)
  x2 = t
  y2 = y2 + 1.0_wp
end where""")
    add("where", {"v": 6}, """
where (x(2:n) > x(1:n-1))
  y(2:n) = x(1:n-1)
end where""")
    add("where", {"v": 7}, """
where (xl > 0.0_wp)
  xl = xl * 2.0_wp
elsewhere
  xl = 0.0_wp
end where""")
    add("where", {"v": 8}, """
where (x > 0.0_wp)
  x = -x
elsewhere
  x = x - 1.0_wp
end where""")
    add("where", {"v": 9}, """
where (x > 0.0_wp .and. y < 1.0_wp)
  z = maxval(x)
end where""")
    add("where", {"v": 10}, """
where (ix > 0)
  x = real(ix, kind=wp)
end where""")
    add("where", {"v": 11}, """
where (x2(:,1) > 0.0_wp)
  x = x2(:,1)
elsewhere
  x = y
end where""")
    add("where", {"v": 12}, """
where (abs(x) > t)
  x = sign(t, x)
end where""")
    add("where", {"v": 13}, """
where (x > 0.0_wp)
  x = x + y(1)
  y = x
end where""")
    add("where", {"v": 14}, """
where (x(1:n:2) > 0.0_wp) y(1:n:2) = 0.0_wp""")
    # ---------------------------------------------------------------- array notation
    arrs = ["x = y + z", "x(:) = y(:) * 2.0_wp - z(:)", "x2(:,:) = y2(:,:)", "x(2:n) = y(1:n-1)",
            "x = t", "x = abs(y) + max(y, z)", "xl = xl + 1.0_wp", "xl(1:ub1) = xl(0:ub1-1)",
            "x = x2(:,1) + y2(:,m2)", "r = sum(x) + product(y) - maxval(z)", "r = sum(x2, mask=x2 > 0.0_wp)",
            "x = sum(x2, dim=2)", "k = size(x) + size(x2, 2) + ubound(xl, 1) - lbound(xl, 1)",
            "r = dot_product(x, y)", "x = y(n:1:-1)", "x(1:n:2) = 0.0_wp", "ix = ix + 1",
            "ix(:) = mod(ix(:), 3) - k", "x = real(ix, wp) * 0.5_wp", "flag = any(x > t)",
            "k = count(x > 0.0_wp)", "flag = all(ix == 0)", "x = merge(y, z, y > z)", "r = minval(x(i1:i2))",
            "x(:) = x(1)", "x2(i1,:) = x2(i2,:)", "r = maxval(abs(x - y))", "x = -y", "x = (y)", "x = y / z",
            "x = y ** 2", "ix = ix / 2 * 2", "x = y * (-1.0_wp)",
            # the same explicit range in two dimensions whose declared bounds differ
            "x2(1:n,1:n) = 2.0_wp", "r = sum(x2(1:m2,1:m2))", "x2(1:i1,1:i1) = y2(1:i1,1:i1) + t",
            "y2(2:n,2:n) = x2(2:n,2:n)"]
    for v, b in enumerate(arrs):
        add("arr", {"v": v}, b)
    # ---------------------------------------------------------------- loops / control flow
    for v, (hd, bd) in enumerate(itertools.product(
            ["i = 1, n", "i = n, 1, -1", "i = 1, n, 2", "i = i1, i2", "i = i2, i1, -2", "i = 2, n - 1"],
            ["x(i) = y(i) + i", "k = k + i"])):
        add("do", {"v": v}, f"do {hd}\n  {bd}\nend do\nl = i")
    add("do", {"v": "nest"}, """
do j = 1, m2
  do i = 1, n
    x2(i,j) = y2(i,j) + i - j
  end do
end do""")
    add("do", {"v": "tri"}, """
do i = 1, n
  do j = i, n
    x(i) = x(i) + y(j)
  end do
end do""")
    add("do", {"v": "exit"}, """
do i = 1, n
  if (x(i) < 0.0_wp) exit
  y(i) = x(i)
end do
k = i""")
    add("do", {"v": "cycle"}, """
do i = 1, n
  if (x(i) < 0.0_wp) cycle
  y(i) = x(i)
  k = k + 1
end do""")
    add("do", {"v": "named"}, """
outer: do j = 1, m2
  inner: do i = 1, n
    if (x2(i,j) < 0.0_wp) cycle outer
    if (x2(i,j) > t) exit outer
    y2(i,j) = x2(i,j)
  end do inner
end do outer""")
    add("do", {"v": "while"}, """
k = 0
do while (k < n .and. t > 0.0_wp)
  k = k + 1
  t = t - x(k)
end do""")
    add("do", {"v": "while2"}, """
i = n
do while (i >= 1)
  x(i) = y(i)
  i = i - 2
end do""")
    add("do", {"v": "bounds_mod"}, """
l = n
do i = 1, l
  l = l - 1
  x(i) = l
end do""")
    add("do", {"v": "ret"}, """
do i = 1, n
  if (x(i) > t) then
    k = i
    return
  end if
end do
k = -1""")
    w3 = "\n    integer :: kk\n    real(kind=wp), dimension(2,3,3) :: w3"
    add("doconc", {"v": 1}, "do concurrent (i=1:n)\n  x(i) = y(i) * 2.0_wp\nend do")
    add("doconc", {"v": 2}, "do concurrent (i=1:n, j=1:m2)\n  x2(i,j) = y2(i,j) + i - j\nend do")
    add("doconc", {"v": 3}, "w3 = 0.0_wp\ndo concurrent (i=1:2, j=1:3, kk=3:1:-1)\n  w3(i,j,kk) = t * i + j - kk\nend do\nr = sum(w3)",
        locals_=w3)
    add("doconc", {"v": 4}, "w3 = 0.0_wp\ndo concurrent (i=1:2, j=1:0, kk=1:3)\n  w3(i,1,kk) = t\nend do\nr = sum(w3)",
        locals_=w3)
    add("doconc", {"v": 5}, "w3 = 0.0_wp\ndo concurrent (i=1:2, j=i1:i2, kk=1:3:2)\n  w3(i,j,kk) = t + j\nend do\nr = sum(w3(:,:,1)) - sum(w3(:,:,3))",
        locals_=w3)
    add("doconc", {"v": 6}, "do concurrent (i=1:n, j=1:m2, i /= j)\n  x2(i,j) = 0.0_wp\nend do")
    add("doconc", {"v": 7}, "do concurrent (i=n:1:-1)\n  x(i) = y(i)\nend do")
    add("if", {"v": 1}, """
if (t > q) then
  r = t
else if (t < q) then
  r = q
else
  r = 0.0_wp
end if""")
    add("if", {"v": 2}, "if (flag .and. .not. flag2) r = 1.0_wp\nif (flag .eqv. flag2) k = 1\nif (flag .neqv. flag2) l = 1")
    add("if", {"v": 3}, """
if (k > 0) then
  if (l > 0) then
    r = 1.0_wp
  else
    r = 2.0_wp
  end if
  t = r
end if""")
    add("if", {"v": 4}, "flag = t > q .or. k == l .and. .not. flag2\nflag2 = (flag .or. t <= q) .and. k /= l")
    add("if", {"v": 5}, "flag = .not. (flag .and. flag2)\nflag2 = .not. flag .or. flag2")
    # ---------------------------------------------------------------- expressions (grouping and typing)
    exprs = [("r", "t - (q - r)"), ("r", "t / (q / r)"), ("r", "t / (q * r)"), ("r", "(t - q) - (t - q)"),
             ("r", "(t / q) / (t / q)"), ("r", "(t + q) - (t + q)"), ("k", "(k / 2) * (k / 2)"),
             ("k", "(i1 - i2) - (i1 - i2)"), ("k", "k - (i1 - i2)"), ("k", "k / (i1 / i2)"), ("k", "k * i1 / i2"),
             ("k", "k * (i1 / i2)"), ("r", "-t ** 2"), ("r", "(-t) ** 2"), ("r", "t ** 2 ** k"),
             ("r", "(t ** 2) ** k"), ("r", "-(t + q)"), ("r", "-t + q"), ("r", "t * (-q)"), ("r", "t - (-q)"),
             ("r", "t ** (-k)"), ("k", "-k ** 2"), ("k", "2 ** k ** 2"), ("k", "(2 ** k) ** 2"), ("k", "k / 2 * 2"),
             ("k", "mod(k, 3) + modulo(l, 3)"), ("k", "int(t) + nint(q)"), ("r", "real(k, kind=wp) / 2"),
             ("r", "k / 2"), ("r", "t * k / 2"), ("r", "k / 2 * t"), ("k", "t"), ("r", "min(t, q, r) + max(k, l)"),
             ("r", "sign(t, q) + abs(t - q)"), ("r", "(t + q) * (t + q)"), ("r", "((t))"),
             ("r", "1.0e0_wp + 2.5_wp * 1.0e-1_wp"), ("r", "1.5d0 * t"), ("k", "huge(k) - huge(k)"),
             ("flag", "t == q .or. t /= q"), ("flag", "(k < l) .eqv. (l > k)"),
             ("flag", "flag .neqv. (flag2 .neqv. flag)"), ("flag", ".not. flag .eqv. flag2"),
             ("r", "t + q - r + t"), ("r", "t - q + r"), ("r", "t - (q + r)"), ("r", "t * q / r * t"),
             ("r", "x(i1) * (y(i1) - x(i1)) - (y(i1) - x(i1))"), ("k", "ix(i1) - (ix(i2) - ix(i1))"),
             ("r", "sqrt(t * t) + exp(q)"), ("r", "f1(t, q) - f1(q, t)"), ("r", "f1(b=t, a=q)"),
             ("k", "twice(twice(k)) - twice(l)")]
    for v, (lhs, e) in enumerate(exprs):
        add("expr", {"v": v}, f"{lhs} = {e}", extra=FUNCS if ("f1" in e or "twice" in e) else "")
    # ---------------------------------------------------------------- calls, named/optional args, module vars
    add("call", {"v": 1}, "call upd(t, r)\ncall upd(t, r, q)\ncall upd(b=r, a=q)\ncall upd(c=t, b=r, a=1.0_wp)", extra=FUNCS)
    add("call", {"v": 2}, "call fill(x, t)\ncall fill(y(2:n), q)\ncall fill(val=r, v=x2(:,1))", extra=FUNCS)
    add("call", {"v": 3}, "gacc = gacc + t\ngcnt = gcnt + 1\nr = gacc * gcnt")
    add("call", {"v": 4}, "do i = 1, n\n  x(i) = f1(y(i), z(i))\n  call upd(x(i), r)\nend do", extra=FUNCS)
    # ---------------------------------------------------------------- locals, parameters, initial values
    add("decl", {"v": 1}, "w = t\nww(1) = w\nww(nmax) = q\nr = ww(1) + ww(nmax)",
        locals_="\n    real(kind=wp) :: w\n    real(kind=wp), dimension(nmax) :: ww")
    add("decl", {"v": 2}, "r = two * t + half\nk = ntwo * k",
        locals_="\n    real(kind=wp), parameter :: two = 2.0_wp, half = 0.5_wp\n    integer, parameter :: ntwo = 2")
    add("decl", {"v": 3}, "do i = 0, 2\n  w3(i) = t * i\nend do\nr = w3(0) + w3(1) + w3(2)",
        locals_="\n    real(kind=wp), dimension(0:2) :: w3")
    add("decl", {"v": 4}, "tmp(:) = x(:)\nx(:) = y(:)\ny(:) = tmp(:)",
        locals_="\n    real(kind=wp), dimension(n) :: tmp")
    add("decl", {"v": 5}, "r = third * t + k2",
        locals_="\n    real(kind=wp) :: third\n    integer :: k2\n    integer, parameter :: dp = 8\n"
                "    parameter (third = 1.0_dp / 3.0_dp)\n    parameter (k2 = dp + 1)")
    add("decl", {"v": 6}, "r = c2 * t",
        locals_="\n    integer, parameter :: p1 = 2\n    integer, parameter :: p2 = p1 * 3\n"
                "    real(kind=wp), parameter :: c2 = 1.5_wp * p2")
    add("decl", {"v": 7}, "do i = 1, p3\n  ww(i) = t * i\nend do\nr = ww(p3)",
        locals_="\n    integer, parameter :: p3 = 3\n    real(kind=wp), dimension(p3) :: ww")
    # ---------------------------------------------------------------- code blocks (kept verbatim)
    add("block", {"v": 1}, "print *, t, k\nr = t")
    add("block", {"v": 2}, "do i = 1, n\n  if (x(i) < 0.0_wp) then\n    print *, i\n  end if\n  y(i) = x(i)\nend do")
    add("block", {"v": 3}, "write(*,*) x\nx = y\nwrite(*,*) x")
    add("block", {"v": 4}, "if (k > 0) then\n  print *, k\nelse\n  print *, -k\nend if")
    return cases
