"""Programs for C28: the G-R bodies plus bodies with control transfers inside loops/branches."""
from vlib.families import regions as R

EXTRA = {
    "exit_mid": [R.loop("1, n", "a(i) = b(i)\nif (a(i) < 0.0_wp) exit\nc(i) = a(i)"), "t = c(1)"],
    "cycle_mid": [R.loop("1, n", "a(i) = b(i)\nif (a(i) < 0.0_wp) cycle\nc(i) = a(i)"), "t = c(1)"],
    "exit_block": [R.loop("1, n", "if (b(i) < 0.0_wp) then\n  t = b(i)\n  exit\nend if\na(i) = b(i)"), "q = t"],
    "return_loop": [R.loop("1, n", "if (b(i) > t) then\n  k = i\n  return\nend if\na(i) = b(i)"), "k = -1"],
    "return_top": ["a(1) = t", "if (k > 0) return", "b(1) = a(1)", "c(1) = b(1)"],
    "nested_exit": [R.loop("1, m2", R.loop("1, n", "if (b2(i,j) < 0.0_wp) exit\na2(i,j) = b2(i,j)") + "\nt = t + 1.0_wp", "j"),
                    "q = t"],
    "named_cycle": ["outer: do j = 1, m2\n  do i = 1, n\n    if (b2(i,j) < 0.0_wp) cycle outer\n    a2(i,j) = b2(i,j)\n  end do\n  t = t + 1.0_wp\nend do outer",
                    "q = t"],
    "branches": ["if (t > 0.0_wp) then\n  a(1) = t\n  b(1) = a(1)\nelse\n  c(1) = t\nend if", "q = a(1)"],
    "while_exit": ["k = 1", "do while (k < n)\n  if (b(k) < 0.0_wp) exit\n  a(k) = b(k)\n  k = k + 1\nend do", "c(1) = a(1)"],
    "goto_fwd": ["a(1) = t", "if (k > 0) goto 10", "b(1) = a(1)", "10 continue", "c(1) = b(1)"],
    "stop_stmt": ["a(1) = t", "if (k > 100) stop", "b(1) = a(1)"],
}


def gen(tier, seed):
    cases = R.gen(tier, seed)
    for name, stmts in EXTRA.items():
        body = "\n".join(stmts)
        cases.append({"template": name, "params": {}, "src": R.HEAD.format(body=R.ind(body), locals=""), "routine": "s",
                      "nstmts": len(stmts), "stmts": stmts})
    return cases
