"""G-I: caller/callee family (DESIGN Appendix F) for C07 (inlining) and C11.
Every case is one module with caller `s` and one or more callees."""
import itertools
import random

HEAD = """module m
  implicit none
  integer, parameter :: wp = 8
  real(kind=wp) :: gscale
  integer :: gcount
contains
  subroutine s(a, b, c, a2, b2, al, n, m2, nm1, lo, hi, i1, i2, t, q, r, k, flag)
    integer, intent(in) :: n, m2, nm1, lo, hi
    integer, intent(inout) :: i1, i2
    real(kind=wp), dimension(n), intent(inout) :: a, b, c
    real(kind=wp), dimension(n,m2), intent(inout) :: a2, b2
    real(kind=wp), dimension(0:nm1), intent(inout) :: al
    real(kind=wp), intent(inout) :: t, q, r
    integer, intent(inout) :: k
    logical, intent(inout) :: flag
    integer :: i, j{locals}
{body}
  end subroutine s
{callees}
end module m
"""


def ind(txt, n=4):
    return "\n".join(" " * n + l for l in txt.strip("\n").split("\n"))


def prog(body, callees, locals_=""):
    callees = callees.replace("_wp", "")
    return HEAD.format(body=ind(body), callees=ind(callees, 2), locals=locals_)


def gen(tier, seed):
    rnd = random.Random(seed + 7)
    cases = []

    def add(tmpl, params, body, callees, locals_=""):
        cases.append({"template": tmpl, "params": params, "src": prog(body, callees, locals_),
                      "routine": "s"})

    # --- element + its index variable, callee modifies the index (or not) before/after use
    for mod_idx, order in itertools.product([0, 1], [0, 1]):
        stm = ["x = 2.0_wp", "kk = kk + 1"] if order == 0 else ["kk = kk + 1", "x = 2.0_wp"]
        if not mod_idx:
            stm = [s_ for s_ in stm if not s_.startswith("kk =")] + ["x = x + kk"]
        add("elem_idx", {"mod_idx": mod_idx, "order": order},
            "call sub(a(i1), i1)",
            "subroutine sub(x, kk)\n  real(kind=wp), intent(inout) :: x\n  integer, intent(inout) :: kk\n  "
            + "\n  ".join(stm) + "\nend subroutine sub")
    add("elem_idx", {"mod_idx": 2, "order": 0},
        "do i = lo, hi\n  call sub(a(i), b(i))\nend do",
        "subroutine sub(x, y)\n  real(kind=wp), intent(inout) :: x\n  real(kind=wp), intent(in) :: y\n"
        "  x = x + y\nend subroutine sub")
    add("elem_idx", {"mod_idx": 3, "order": 0},
        "call sub(a(i1), a(i2))",
        "subroutine sub(x, y)\n  real(kind=wp), intent(inout) :: x\n  real(kind=wp), intent(in) :: y\n"
        "  x = y * 2.0_wp\nend subroutine sub")
    add("elem_idx", {"mod_idx": 4, "order": 0},
        "call sub(a2(i1,i2), i1, i2)",
        "subroutine sub(x, p, q2)\n  real(kind=wp), intent(inout) :: x\n  integer, intent(in) :: p, q2\n"
        "  x = x + p - q2\nend subroutine sub")
    # --- array sections and whole arrays, callee formals with assumed shape / shifted lower bound
    callee_forms = {
        "assumed": ("x", "real(kind=wp), dimension(:), intent(inout) :: x", "lbound(x,1)", "ubound(x,1)"),
        "assumed0": ("x", "real(kind=wp), dimension(0:), intent(inout) :: x", "lbound(x,1)", "ubound(x,1)"),
        "explicit": ("x, nn", "integer, intent(in) :: nn\n  real(kind=wp), dimension(nn), intent(inout) :: x",
                     "1", "nn"),
        "explicit0": ("x, nn", "integer, intent(in) :: nn\n  real(kind=wp), dimension(0:nn), intent(inout) :: x",
                      "0", "nn"),
    }
    actuals = [("a", "n"), ("a(:)", "n"), ("a(2:n)", "n-1"), ("a(lo:hi)", "hi-lo+1"), ("al", "nm1+1"),
               ("al(:)", "nm1+1"), ("al(1:nm1)", "nm1"), ("a2(:,1)", "n"), ("a2(1,:)", "m2"),
               ("a2(i1,2:m2)", "m2-1"), ("a2(2:n,i2)", "n-1"), ("a2(1,2:m2)", "m2-1"), ("a2(2:n,1)", "n-1"),
               ("a2(n,2:m2)", "m2-1")]
    for (form, (fargs, fdecl, flo, fhi)), (act, ext) in itertools.product(callee_forms.items(), actuals):
        extra = ""
        if "nn" in fargs:
            extra = ", " + (ext if form == "explicit" else f"{ext}-1")
        for bodyv in (0, 1):
            cbody = (f"do ii = {flo}, {fhi}\n    x(ii) = x(ii) + ii\n  end do" if bodyv == 0 else
                     f"x({flo}) = 1.0_wp\n  x({fhi}) = x({fhi}) + 2.0_wp")
            add("sec_arg", {"form": form, "actual": act, "body": bodyv},
                f"call sub({act}{extra})",
                f"subroutine sub({fargs})\n  {fdecl}\n  integer :: ii\n  {cbody}\nend subroutine sub")
    # --- 2-D formals
    for act in ["a2", "a2(:,:)", "a2(2:n,1:m2)", "a2(1:n-1,2:m2)"]:
        add("sec2_arg", {"actual": act},
            f"call sub({act})",
            "subroutine sub(x)\n  real(kind=wp), dimension(:,:), intent(inout) :: x\n  integer :: ii, jj\n"
            "  do jj = 1, size(x,2)\n    do ii = 1, size(x,1)\n      x(ii,jj) = x(ii,jj) * 2.0_wp + ii - jj\n"
            "    end do\n  end do\nend subroutine sub")
    # --- scalars: in/out/inout, expressions, literals
    add("scalar", {"v": 1}, "call sub(t, q)",
        "subroutine sub(x, y)\n  real(kind=wp), intent(in) :: x\n  real(kind=wp), intent(out) :: y\n  y = x * 2.0_wp\nend subroutine sub")
    add("scalar", {"v": 2}, "call sub(t, t)",
        "subroutine sub(x, y)\n  real(kind=wp), intent(in) :: x\n  real(kind=wp), intent(in) :: y\n  r = x + y\nend subroutine sub"
        .replace("  r = x + y", "  gscale = x + y"))
    add("scalar", {"v": 3}, "call sub(t + q, r)",
        "subroutine sub(x, y)\n  real(kind=wp), intent(in) :: x\n  real(kind=wp), intent(inout) :: y\n  y = y + x\nend subroutine sub")
    add("scalar", {"v": 4}, "call sub(2.0_wp, r)",
        "subroutine sub(x, y)\n  real(kind=wp), intent(in) :: x\n  real(kind=wp), intent(inout) :: y\n  y = y * x\nend subroutine sub")
    add("scalar", {"v": 5}, "call sub(k)\ncall sub(k)",
        "subroutine sub(x)\n  integer, intent(inout) :: x\n  x = x + 10\nend subroutine sub")
    add("scalar", {"v": 6}, "if (t > 0.0_wp) then\n  call sub(k)\nend if\nr = k",
        "subroutine sub(x)\n  integer, intent(inout) :: x\n  x = x * 2\nend subroutine sub")
    add("scalar", {"v": 7}, "call sub(a(i1) + 1.0_wp, a(i1))",
        "subroutine sub(x, y)\n  real(kind=wp), intent(in) :: x\n  real(kind=wp), intent(inout) :: y\n"
        "  y = 0.0_wp\n  y = y + x\nend subroutine sub")
    add("scalar", {"v": 8}, "call sub(i1 + 1, k)",
        "subroutine sub(x, y)\n  integer, intent(in) :: x\n  integer, intent(inout) :: y\n"
        "  y = y + x\n  y = y * x\nend subroutine sub")
    # --- name clashes between callee locals and caller variables
    add("clash", {"v": 1}, "do i = lo, hi\n  call sub(a(i))\nend do",
        "subroutine sub(x)\n  real(kind=wp), intent(inout) :: x\n  integer :: i\n  i = 3\n  x = x + i\nend subroutine sub")
    add("clash", {"v": 2}, "t = 1.0_wp\ncall sub(r)\nq = t",
        "subroutine sub(x)\n  real(kind=wp), intent(inout) :: x\n  real(kind=wp) :: t\n  t = 5.0_wp\n  x = x + t\nend subroutine sub")
    add("clash", {"v": 3}, "do i = lo, hi\n  call sub(a, i)\nend do",
        "subroutine sub(x, p)\n  real(kind=wp), dimension(:), intent(inout) :: x\n  integer, intent(in) :: p\n"
        "  integer :: i, j\n  j = p\n  do i = 1, 2\n    x(j) = x(j) + i\n  end do\nend subroutine sub")
    add("clash", {"v": 4}, "call sub(a, n)\ncall sub(b, n)",
        "subroutine sub(x, nn)\n  integer, intent(in) :: nn\n  real(kind=wp), dimension(nn), intent(inout) :: x\n"
        "  integer :: i\n  real(kind=wp) :: tmp\n  tmp = 0.0_wp\n  do i = 1, nn\n    tmp = tmp + x(i)\n  end do\n"
        "  if (nn > 0) then\n    x(1) = tmp\n  end if\nend subroutine sub")
    add("clash", {"v": 5}, "k = 2\ncall sub(k, i1)",
        "subroutine sub(n, k)\n  integer, intent(in) :: n\n  integer, intent(inout) :: k\n  k = k + n\nend subroutine sub")
    # --- static (SAVE) locals: implicit save through initialisation, explicit save, parameters
    add("static", {"v": 1}, "call stamp(a(1))\ncall stamp(a(2))",
        "subroutine stamp(x)\n  real(kind=wp), intent(inout) :: x\n  integer :: ncalls = 0\n  ncalls = ncalls + 1\n"
        "  x = x + ncalls\nend subroutine stamp")
    add("static", {"v": 2}, "do i = lo, hi\n  call stamp(a(i))\nend do\ncall stamp(b(1))",
        "subroutine stamp(x)\n  real(kind=wp), intent(inout) :: x\n  logical :: first = .true.\n  if (first) then\n"
        "    x = 0.0\n    first = .false.\n  else\n    x = x + 1.0\n  end if\nend subroutine stamp")
    add("static", {"v": 3}, "call stamp(a(1))\ncall stamp(a(2))",
        "subroutine stamp(x)\n  real(kind=wp), intent(inout) :: x\n  integer, save :: ncalls\n  ncalls = ncalls + 1\n"
        "  x = x + ncalls\nend subroutine stamp")
    # RETURN statements in the callee: trailing at top level, trailing inside a branch, inside a loop, early
    add("ret", {"v": 1}, "call sub(a, n, t, k)",
        "subroutine sub(x, nn, tt, pos)\n  integer, intent(in) :: nn\n  real(kind=wp), dimension(nn), intent(in) :: x\n"
        "  real(kind=wp), intent(in) :: tt\n  integer, intent(out) :: pos\n  integer :: kk\n  pos = 0\n  do kk = 1, nn\n"
        "    if (x(kk) > tt) then\n      pos = kk\n      return\n    end if\n  end do\nend subroutine sub")
    add("ret", {"v": 2}, "call sub(a, n, t, k)",
        "subroutine sub(x, nn, tt, pos)\n  integer, intent(in) :: nn\n  real(kind=wp), dimension(nn), intent(in) :: x\n"
        "  real(kind=wp), intent(in) :: tt\n  integer, intent(out) :: pos\n  pos = 0\n  if (x(1) > tt) then\n    pos = 1\n"
        "    return\n  end if\nend subroutine sub")
    add("ret", {"v": 3}, "call sub(t, r)\nq = r",
        "subroutine sub(x, y)\n  real(kind=wp), intent(in) :: x\n  real(kind=wp), intent(inout) :: y\n  y = y + x\n  return\nend subroutine sub")
    add("ret", {"v": 4}, "call sub(t, r)\nq = r",
        "subroutine sub(x, y)\n  real(kind=wp), intent(in) :: x\n  real(kind=wp), intent(inout) :: y\n  if (x > 0.0_wp) return\n"
        "  y = y + x\nend subroutine sub")
    add("ret", {"v": 5}, "do i = lo, hi\n  call sub(a, n, b(i), k)\n  c(i) = k\nend do",
        "subroutine sub(x, nn, tt, pos)\n  integer, intent(in) :: nn\n  real(kind=wp), dimension(nn), intent(in) :: x\n"
        "  real(kind=wp), intent(in) :: tt\n  integer, intent(out) :: pos\n  integer :: kk\n  pos = 0\n  kk = 1\n"
        "  do while (kk <= nn)\n    if (x(kk) > tt) then\n      pos = kk\n      return\n    end if\n    kk = kk + 1\n  end do\n"
        "end subroutine sub")
    add("static", {"v": 4}, "call stamp(a(1))\ncall stamp(a(2))",
        "subroutine stamp(x)\n  real(kind=wp), intent(inout) :: x\n  integer, parameter :: inc = 2\n  x = x + inc\nend subroutine stamp")
    # --- named / reordered / optional arguments
    add("named", {"v": 1}, "call sub(y=r, x=t)",
        "subroutine sub(x, y)\n  real(kind=wp), intent(in) :: x\n  real(kind=wp), intent(inout) :: y\n  y = y - x\nend subroutine sub")
    add("named", {"v": 2}, "call sub(t, z=q, y=r)",
        "subroutine sub(x, y, z)\n  real(kind=wp), intent(in) :: x, z\n  real(kind=wp), intent(inout) :: y\n  y = x - z\nend subroutine sub")
    add("named", {"v": 3}, "call sub(r)",
        "subroutine sub(y, x)\n  real(kind=wp), intent(inout) :: y\n  real(kind=wp), intent(in), optional :: x\n"
        "  if (present(x)) then\n    y = y + x\n  else\n    y = y + 1.0_wp\n  end if\nend subroutine sub")
    add("named", {"v": 4}, "call sub(r, t)",
        "subroutine sub(y, x)\n  real(kind=wp), intent(inout) :: y\n  real(kind=wp), intent(in), optional :: x\n"
        "  if (present(x)) then\n    y = y + x\n  else\n    y = y + 1.0_wp\n  end if\nend subroutine sub")
    # --- module variables, nested calls, calls in loops/branches
    add("modvar", {"v": 1}, "call sub(t)\nr = gscale",
        "subroutine sub(x)\n  real(kind=wp), intent(in) :: x\n  gscale = gscale + x\n  gcount = gcount + 1\nend subroutine sub")
    add("modvar", {"v": 2}, "gscale = 2.0_wp\ncall sub(a, n)",
        "subroutine sub(x, nn)\n  integer, intent(in) :: nn\n  real(kind=wp), dimension(nn), intent(inout) :: x\n"
        "  integer :: ii\n  do ii = 1, nn\n    x(ii) = x(ii) * gscale\n  end do\nend subroutine sub")
    add("nested", {"v": 1}, "call outer(t, r)",
        "subroutine outer(x, y)\n  real(kind=wp), intent(in) :: x\n  real(kind=wp), intent(inout) :: y\n"
        "  call inner(x, y)\n  y = y + 1.0_wp\nend subroutine outer\n"
        "subroutine inner(x, y)\n  real(kind=wp), intent(in) :: x\n  real(kind=wp), intent(inout) :: y\n"
        "  y = y * x\nend subroutine inner")
    add("early", {"v": 1}, "call sub(t, r)",
        "subroutine sub(x, y)\n  real(kind=wp), intent(in) :: x\n  real(kind=wp), intent(inout) :: y\n"
        "  if (x < 0.0_wp) then\n    return\n  end if\n  y = x\nend subroutine sub")
    add("loopcall", {"v": 1}, "do i = lo, hi\n  call sub(a(i), b(i), i)\nend do",
        "subroutine sub(x, y, p)\n  real(kind=wp), intent(out) :: x\n  real(kind=wp), intent(in) :: y\n"
        "  integer, intent(in) :: p\n  x = y * p\nend subroutine sub")
    add("loopcall", {"v": 2}, "do j = 1, m2\n  do i = 1, n\n    call sub(a2(i,j), b2(i,j))\n  end do\nend do",
        "subroutine sub(x, y)\n  real(kind=wp), intent(inout) :: x\n  real(kind=wp), intent(in) :: y\n"
        "  real(kind=wp) :: w\n  w = y + 1.0_wp\n  x = x * w\nend subroutine sub")
    add("loopcall", {"v": 3}, "do j = 1, m2\n  call sub(a2(:,j), j)\nend do",
        "subroutine sub(x, p)\n  real(kind=wp), dimension(:), intent(inout) :: x\n  integer, intent(in) :: p\n"
        "  integer :: ii\n  do ii = 1, size(x)\n    x(ii) = x(ii) + p * ii\n  end do\nend subroutine sub")
    # --- array expressions inside the callee (array notation on formals)
    add("arrnot", {"v": 1}, "call sub(a(2:n), b(1:n-1))",
        "subroutine sub(x, y)\n  real(kind=wp), dimension(:), intent(inout) :: x\n"
        "  real(kind=wp), dimension(:), intent(in) :: y\n  x(:) = x(:) + y(:)\nend subroutine sub")
    add("arrnot", {"v": 2}, "call sub(al, a)",
        "subroutine sub(x, y)\n  real(kind=wp), dimension(:), intent(inout) :: x\n"
        "  real(kind=wp), dimension(:), intent(in) :: y\n  x = y * 2.0_wp\nend subroutine sub")
    add("arrnot", {"v": 3}, "call sub(a2(i1,:), b2(:,i2))",
        "subroutine sub(x, y)\n  real(kind=wp), dimension(:), intent(inout) :: x\n"
        "  real(kind=wp), dimension(:), intent(in) :: y\n  x(1) = y(1)\n  x(size(x)) = y(size(y)) + x(1)\nend subroutine sub")
    add("arrnot", {"v": 4}, "call sub(al(1:nm1))",
        "subroutine sub(x)\n  real(kind=wp), dimension(:), intent(inout) :: x\n  r = sum(x)\n  x(1) = r\nend subroutine sub"
        .replace("  r = sum(x)\n  x(1) = r", "  gscale = sum(x)\n  x(1) = gscale"))
    return cases
