"""G-A: array-notation / intrinsic family (DESIGN Appendix F) for C06 (and C01)."""
import itertools
import random

HEAD = """module m
  implicit none
  integer, parameter :: wp = 8
contains
  subroutine s(x, y, z, x2, y2, z2, xl, yl, w2, v2, n, m2, nm1, ub1, ub2, i1, i2, k, t, q, r, flag)
    integer, intent(in) :: n, m2, nm1, ub1, ub2, i1, i2
    real(kind=wp), dimension(n), intent(inout) :: x, y, z
    real(kind=wp), dimension(n,m2), intent(inout) :: x2, y2
    real(kind=wp), dimension(n,n), intent(inout) :: z2
    real(kind=wp), dimension({lb}:ub1), intent(inout) :: xl
    real(kind=wp), dimension({lb2}:ub2), intent(inout) :: yl
    real(kind=wp), dimension(3,0:nm1), intent(inout) :: w2
    real(kind=wp), dimension(0:nm1,2:4), intent(inout) :: v2
    integer, intent(inout) :: k
    real(kind=wp), intent(inout) :: t, q, r
    logical, intent(inout) :: flag
    integer :: i, j
{body}
  end subroutine s
end module m
"""


def prog(body, lb=1, lb2=1):
    body = "\n".join("    " + l for l in body.strip("\n").split("\n"))
    return HEAD.format(body=body, lb=lb, lb2=lb2)


def gen(tier, seed):
    rnd = random.Random(seed + 99)
    cases = []

    def add(tmpl, params, body, lb=1, lb2=1):
        cases.append({"template": tmpl, "params": dict(params, lb=lb, lb2=lb2),
                      "src": prog(body, lb, lb2), "routine": "s"})

    # --- overlapping / shifted sections of the same array
    secs = [("2:n", "1:n-1"), ("1:n-1", "2:n"), ("1:n", "1:n"), ("2:n-1", "1:n-2"),
            ("1:n-2", "3:n"), ("3:n", "1:n-2"), ("i1:i2", "i1-1:i2-1"), ("i1:i2", "i1+1:i2+1")]
    shifts = [1, -1, 0, 1, -2, 2, 1, -1]      # lhs start - rhs start
    for (l, rgt), sh in zip(secs, shifts):
        add("sec_shift", {"lhs": l, "rhs": rgt, "extra": 0, "shift": sh}, f"x({l}) = x({rgt})")
        add("sec_shift", {"lhs": l, "rhs": rgt, "extra": 1, "shift": sh}, f"x({l}) = x({rgt}) + y({l})")
    add("sec_rev", {"v": 1}, "x(1:n) = x(n:1:-1)")
    add("sec_rev", {"v": 2}, "x(1:n) = y(n:1:-1)")
    add("sec_stride", {"v": 1}, "x(1:n:2) = y(1:n:2)")
    add("sec_stride", {"v": 2}, "x(2:n:2) = x(1:n-1:2)")
    add("sec_stride", {"v": 3}, "x(1:n-1:2) = x(2:n:2)")
    add("sec_scalar", {"v": 1}, "x(1:n) = x(1)")
    add("sec_scalar", {"v": 2}, "x(1:n) = x(n) + t")
    add("sec_scalar", {"v": 3}, "x(:) = x(i1) * 2.0")
    # --- 2-D
    add("sec2", {"v": 1}, "x2(:,:) = y2(:,:) + 1.0")
    add("sec2", {"v": 2, "shift": 1}, "x2(2:n,1:m2) = x2(1:n-1,1:m2)")
    add("sec2", {"v": 3, "shift": 1}, "x2(1:n,2:m2) = x2(1:n,1:m2-1)")
    add("sec2", {"v": 4, "shift": -1}, "x2(1:n-1,1:m2) = x2(2:n,1:m2) + y2(1:n-1,1:m2)")
    add("sec2", {"v": 5}, "x2(:,1) = x(:)")
    add("sec2", {"v": 6}, "x(:) = x2(:,i1)")
    add("sec2", {"v": 7}, "z2(1:n,1) = z2(1,1:n)")
    add("sec2", {"v": 8}, "x2(i1,:) = y2(i1,:) * t")
    add("sec2", {"v": 9}, "z2(:,:) = transpose(z2(:,:))")
    # --- ranges in different dimension positions of arrays whose declared lower bounds differ
    for v, b in enumerate(["x(:) = w2(2,:)", "w2(1,:) = x(:)", "w2(1,:) = w2(2,:) + x", "x(:) = v2(:,3)",
                           "v2(:,2) = w2(3,:)", "w2(:,0) = v2(0,:)", "x = w2(2,:) * 2.0",
                           "x(1:n) = w2(i1,0:n-1)", "x(:) = w2(2,:nm1)", "x(2:) = w2(2,:nm1-1)", "w2(2,1:) = x(2:)", "r = sum(w2(2,:))", "x(:) = x(:) + v2(:,2) * w2(3,:)",
                           "v2(:,3) = v2(:,2)", "r = maxval(v2(:,3)) - minval(w2(1,:))"]):
        add("mixdim", {"v": v}, b)
    # --- non-unit lower bounds, whole arrays, bare references
    for lb, lb2 in [(1, 1), (0, 1), (2, 0), (-1, 3)]:
        add("lbound", {"v": 1}, "xl = yl + 1.0", lb, lb2)
        add("lbound", {"v": 2}, "xl(:) = yl(:)", lb, lb2)
        add("lbound", {"v": 3}, "xl = x", lb, lb2)
        add("lbound", {"v": 4}, "x(:) = xl(:) + yl(:)", lb, lb2)
        add("lbound", {"v": 5}, f"xl(({lb}):n+({lb})-2) = xl(({lb})+1:n+({lb})-1)", lb, lb2)
        add("lbound", {"v": 6}, "xl = xl + yl", lb, lb2)
        add("lbound", {"v": 7}, "x = xl", lb, lb2)
        add("lbound", {"v": 8}, "r = sum(xl)", lb, lb2)
        add("lbound", {"v": 9}, "r = maxval(yl) + minval(xl)", lb, lb2)
        add("lbound", {"v": 10}, "xl(:) = 2.0 * yl", lb, lb2)
    # --- constant-index accesses
    add("cidx", {"v": 1}, "x(1) = y(1)")
    add("cidx", {"v": 2}, "x(i1) = y(i1) + 1.0")
    add("cidx", {"v": 3}, "x2(1,i2) = y2(1,i2)")
    add("cidx", {"v": 4}, "x2(i1,2) = x2(i1-1,2) + x2(i1,1)")
    add("cidx", {"v": 5}, "do i = 1, n\n  x2(i,1) = y2(i,1)\nend do")
    add("cidx", {"v": 6}, "x(n) = x(1)")
    # --- elemental numeric intrinsics on scalars/elements
    for f in ["abs", "sign", "min", "max"]:
        if f == "abs":
            es = ["abs(t)", "abs(t - q) * 2.0", "abs(abs(t) - q)", "abs(x(i1)) + abs(y(i1))"]
        elif f == "sign":
            es = ["sign(t, q)", "sign(t, -q)", "sign(x(i1), y(i1)) + 1.0", "sign(t, q) * sign(q, t)"]
        else:
            es = [f"{f}(t, q)", f"{f}(t, q, r)", f"{f}(x(i1), y(i1), 0.0_wp)", f"{f}({f}(t, q), r) + t",
                  f"{f}(t, q) - {('max' if f == 'min' else 'min')}(t, q)"]
        for v, e in enumerate(es):
            add(f, {"v": v}, f"r = {e}")
        add(f, {"v": "loop"}, f"do i = 1, n\n  x(i) = {es[0].replace('t', 'y(i)').replace('q', 'z(i)')}\nend do")
    add("abs", {"v": "int"}, "k = abs(i1 - i2)")
    add("sign", {"v": "int"}, "k = sign(i1, i2)")
    add("min", {"v": "int"}, "k = min(i1, i2, 3)")
    add("max", {"v": "int"}, "k = max(i1, i2) - min(i1, i2)")
    add("abs", {"v": "cond"}, "if (abs(t) > q) then\n  r = abs(q)\nend if")
    add("max", {"v": "self"}, "t = max(t, q)")
    add("min", {"v": "self2"}, "t = min(q, t) + min(t, r)")
    # --- DOT_PRODUCT / MATMUL
    add("dot", {"v": 1}, "r = dot_product(x, y)")
    add("dot", {"v": 2}, "r = dot_product(x(1:n), y(1:n))")
    add("dot", {"v": 3}, "r = t + dot_product(x, y) * 2.0")
    add("dot", {"v": 4}, "r = dot_product(x(:), x(:))")
    add("dot", {"v": 5}, "r = dot_product(xl, yl)", 0, 2)
    add("dot", {"v": 6}, "r = dot_product(x2(:,1), y)")
    add("matmul", {"v": 1}, "x = matmul(z2, y)")
    add("matmul", {"v": 2}, "x(:) = matmul(z2(:,:), y(:))")
    add("matmul", {"v": 3}, "z2 = matmul(z2, z2)")
    add("matmul", {"v": 4}, "x2 = matmul(z2, y2)")
    add("matmul", {"v": 5}, "x = matmul(z2, x)")
    add("matmul", {"v": 6}, "xl = matmul(z2, yl)", 0, 2)
    # result and operand are slabs of ONE array selected by different index expressions (equal at run time or not)
    add("matmul", {"v": 7}, "x2(:,i1) = matmul(z2, x2(:,i2))")
    add("matmul", {"v": 8}, "x2(:,i1) = matmul(z2, x2(:,i1+1))")
    add("matmul", {"v": 9}, "x2(:,1) = matmul(z2, x2(:,2))")
    # --- reductions
    for op in ["sum", "product", "minval", "maxval"]:
        add("red", {"op": op, "v": 1}, f"r = {op}(x)")
        add("red", {"op": op, "v": 2}, f"r = {op}(x(2:n))")
        add("red", {"op": op, "v": 3}, f"r = t + {op}(x) * 2.0")
        add("red", {"op": op, "v": 4}, f"r = {op}(x, mask=x > 0.0_wp)")
        add("red", {"op": op, "v": 5}, f"r = {op}(x2)")
        add("red", {"op": op, "v": 6}, f"x(1) = {op}(x)")
        add("red", {"op": op, "v": 7}, f"r = {op}(x2(:,i1))")
        add("red", {"op": op, "v": 8}, f"x = {op}(x2, dim=2)")
        add("red", {"op": op, "v": 9}, f"if ({op}(x) > 0.0) then\n  r = 1.0\nend if")
        add("red", {"op": op, "v": 10}, f"r = {op}(x(i1:i2))")
        add("red", {"op": op, "v": 11}, f"r = {op}(x + y)")
        add("red", {"op": op, "v": 12}, f"r = r + {op}(x)")
        add("red", {"op": op, "v": 13}, f"x(:) = x(:) / {op}(x(:))")
        add("red", {"op": op, "v": 14}, f"x(i1) = x(i2) + {op}(y)")
        add("red", {"op": op, "v": 15}, f"x(i1) = {op}(y) * x(i2) - x(i1)")
        add("red", {"op": op, "v": 16}, f"x(1) = 2.0_wp * {op}(x)")
        add("red", {"op": op, "v": 17}, f"x2(i1,1) = x2(i2,1) + {op}(x2)")
    return cases
