"""Random LFRic kernel metadata + a matching algorithm file (family G-K for C21).
Each kernel draws 2-5 arguments from: real/integer/logical scalars, real fields on every function space
(optionally a vector of 2-3 components, optionally a stencil of each type with literal or run-time
extent), operators between two spaces; and optionally basis / differential-basis functions on some of
its spaces with one or two quadrature shapes or an evaluator.  Whether a drawn combination is valid
LFRic metadata is left to PSyclone (invalid ones are counted as refused)."""
import random

CONT = ["w0", "w1", "w2", "w2h", "w2v", "any_w2", "any_space_1", "any_space_2", "w2trace", "wchi"]
DISC = ["w3", "wtheta", "w2broken", "w2vtrace", "any_discontinuous_space_1"]
BASIS_OK = ["w0", "w1", "w2", "w2h", "w2v", "any_w2", "w3", "wtheta", "w2broken", "w2trace", "wchi"]
STENCILS = ["cross", "region", "x1d", "y1d", "xory1d", "cross2d"]
SHAPES = ["gh_quadrature_XYoZ", "gh_quadrature_face", "gh_quadrature_edge", "gh_evaluator"]
REF_ELEM = ["normals_to_horizontal_faces", "normals_to_vertical_faces", "normals_to_faces",
            "outward_normals_to_horizontal_faces", "outward_normals_to_vertical_faces", "outward_normals_to_faces"]
QR_TYPE = {"gh_quadrature_XYoZ": "quadrature_xyoz_type", "gh_quadrature_face": "quadrature_face_type",
           "gh_quadrature_edge": "quadrature_edge_type"}

KERNEL = """module {name}_mod
  use argument_mod
  use fs_continuity_mod
  use kernel_mod
  use constants_mod
  implicit none
  type, extends(kernel_type) :: {name}_type
     type(arg_type), dimension({n}) :: meta_args = (/ &
{args}
          /)
{funcs}{mesh}     integer :: operates_on = cell_column
{shape}   contains
     procedure, nopass :: code => {name}_code
  end type {name}_type
contains
  subroutine {name}_code()
  end subroutine {name}_code
end module {name}_mod
"""


def gen(n, seed):
    rnd = random.Random(seed)
    out = []
    for c in range(n):
        name = f"gk{seed}_{c}"
        args, decl, acts = [], [], []
        spaces = []
        # one written field first
        style = rnd.choice(["inc", "inc", "readinc", "wdisc", "rwdisc", "wcont", "opwrite"])
        nf = ns = no = 0

        def field(acc, sp, vec=1, stencil=None):
            nonlocal nf
            nf += 1
            nm = f"f{nf}"
            t = f"gh_field{'*' + str(vec) if vec > 1 else ''}, gh_real, {acc}, {sp}"
            if stencil:
                t += f", stencil({stencil})"
            args.append(f"arg_type({t})")
            decl.append(f"  type(field_type) :: {nm}" + (f"({vec})" if vec > 1 else ""))
            acts.append(nm)
            if stencil:
                ext = rnd.choice([f"e{nf}", "2"])
                if not ext.isdigit():
                    decl.append(f"  integer(i_def) :: {ext}")
                acts.append(ext)
                if stencil == "xory1d":
                    acts.append("x_direction")
            spaces.append(sp)
        if style == "inc":
            field("gh_inc", rnd.choice(CONT), rnd.choice([1, 1, 3]))
        elif style == "readinc":
            field("gh_readinc", rnd.choice(CONT))
        elif style == "wdisc":
            field("gh_write", rnd.choice(DISC), rnd.choice([1, 1, 2]))
        elif style == "rwdisc":
            field("gh_readwrite", rnd.choice(DISC))
        elif style == "wcont":
            field("gh_write", rnd.choice(CONT))
        else:
            no += 1
            a, b = rnd.choice(CONT + DISC), rnd.choice(CONT + DISC)
            args.append(f"arg_type(gh_operator, gh_real, gh_write, {a}, {b})")
            decl.append(f"  type(operator_type) :: op{no}")
            acts.append(f"op{no}")
            spaces += [a, b]
        for _ in range(rnd.choice([1, 2, 3, 4])):
            k = rnd.choice(["field", "field", "field", "stencil", "scalar", "scalar", "op", "vector"])
            if k == "field":
                field("gh_read", rnd.choice(CONT + DISC))
            elif k == "vector":
                field("gh_read", rnd.choice(CONT + DISC), rnd.choice([2, 3]))
            elif k == "stencil":
                field("gh_read", rnd.choice(CONT + DISC), rnd.choice([1, 1, 3]), rnd.choice(STENCILS))
            elif k == "scalar":
                ns += 1
                ty = rnd.choice(["gh_real", "gh_integer", "gh_logical"])
                args.append(f"arg_type(gh_scalar, {ty}, gh_read)")
                decl.append({"gh_real": "  real(r_def)", "gh_integer": "  integer(i_def)", "gh_logical": "  logical(l_def)"}[ty]
                            + f" :: s{ns}")
                acts.append(f"s{ns}")
            else:
                no += 1
                a, b = rnd.choice(CONT + DISC), rnd.choice(CONT + DISC)
                args.append(f"arg_type(gh_operator, gh_real, gh_read, {a}, {b})")
                decl.append(f"  type(operator_type) :: op{no}")
                acts.append(f"op{no}")
                spaces += [a, b]
        funcs = shape = ""
        if rnd.random() < 0.5:
            cand = [s for s in dict.fromkeys(spaces) if s in BASIS_OK]
            rnd.shuffle(cand)
            cand = cand[:rnd.choice([1, 2])]
            if cand:
                fl = []
                for s in cand:
                    fl.append(f"func_type({s}, " + rnd.choice(["gh_basis", "gh_diff_basis", "gh_basis, gh_diff_basis"]) + ")")
                funcs = (f"     type(func_type), dimension({len(fl)}) :: meta_funcs = (/ &\n          " +
                         ", &\n          ".join(fl) + " /)\n")
                shapes = rnd.sample(SHAPES, rnd.choice([1, 1, 2]))
                if len(shapes) == 1:
                    shape = f"     integer :: gh_shape = {shapes[0]}\n"
                else:
                    shape = f"     integer :: gh_shape(2) = (/ {shapes[0]}, {shapes[1]} /)\n"
                for i, sh in enumerate(shapes):
                    if sh in QR_TYPE:
                        decl.append(f"  type({QR_TYPE[sh]}) :: qr{i}")
                        acts.append(f"qr{i}")
        mesh = ""
        if rnd.random() < 0.3:
            if rnd.random() < 0.6:
                mesh += ("     type(mesh_data_type), dimension(1) :: meta_mesh = (/ mesh_data_type(adjacent_face) /)\n")
            props = rnd.sample(REF_ELEM, rnd.choice([0, 1, 2, 3]))
            if props:
                mesh += (f"     type(reference_element_data_type), dimension({len(props)}) :: meta_reference_element = (/ &\n"
                         "          " + ", &\n          ".join(f"reference_element_data_type({p})" for p in props) + " /)\n")
        lines = [f"          {a}{',' if i < len(args) - 1 else ''} &" for i, a in enumerate(args)]
        ksrc = KERNEL.format(name=name, n=len(args), args="\n".join(lines), funcs=funcs, shape=shape, mesh=mesh)
        alg = ("program alg\n  use constants_mod, only: r_def, i_def, l_def\n  use field_mod, only: field_type\n"
               "  use operator_mod, only: operator_type\n  use quadrature_xyoz_mod, only: quadrature_xyoz_type\n"
               "  use quadrature_face_mod, only: quadrature_face_type\n  use quadrature_edge_mod, only: quadrature_edge_type\n"
               "  use flux_direction_mod, only: x_direction\n"
               f"  use {name}_mod, only: {name}_type\n  implicit none\n" + "\n".join(dict.fromkeys(decl)) +
               f"\n  call invoke( {name}_type({', '.join(acts)}) )\nend program alg\n")
        out.append((name, ksrc, alg))
    return out


def mesh_combos():
    """every subset (size <= 3) of the reference-element properties, with and without the adjacent_face mesh property,
    on a kernel with one incremented field"""
    import itertools
    out = []
    c = 0
    for k in range(0, 4):
        for props in itertools.combinations(REF_ELEM, k):
            for adj in (False, True):
                if not props and not adj:
                    continue
                name = f"gm_{c}"
                c += 1
                mesh = ""
                if adj:
                    mesh += "     type(mesh_data_type), dimension(1) :: meta_mesh = (/ mesh_data_type(adjacent_face) /)\n"
                if props:
                    mesh += (f"     type(reference_element_data_type), dimension({len(props)}) :: meta_reference_element = (/ &\n"
                             "          " + ", &\n          ".join(f"reference_element_data_type({p})" for p in props) + " /)\n")
                args = ["arg_type(gh_field, gh_real, gh_inc, w1)", "arg_type(gh_field, gh_real, gh_read, w3)"]
                lines = [f"          {a}{',' if i < len(args) - 1 else ''} &" for i, a in enumerate(args)]
                ksrc = KERNEL.format(name=name, n=2, args="\n".join(lines), funcs="", shape="", mesh=mesh)
                alg = ("program alg\n  use field_mod, only: field_type\n"
                       f"  use {name}_mod, only: {name}_type\n  implicit none\n  type(field_type) :: f1, f2\n"
                       f"  call invoke( {name}_type(f1, f2) )\nend program alg\n")
                out.append((name, ksrc, alg))
    return out
